"""Per-property manifest entries (consumed by tools/gen_manifest.py)."""
CHECKS = {
 "C15": {
  "category": "proof",
  "technique": "contract-based deductive verification: symbolic execution of the real source -> z3 bit-vector VCs; exhaustive configuration enumeration for QAM/PSK geometry",
  "text": "Gray conversions, popcount and Hamming distance are proved for ALL 64-bit operands below 2^62 from the real shift/xor/while source (bv64 VCs, z3). PSK labelling is proved per order with a symbolic phase offset by symbolically executing PSK.__init__; QAM labelling and the geometric neighbour claim range over a finite configuration set and are decided by complete enumeration on the real code. setPhaseOffset and QAM>=64 are refuted and listed as known findings.",
  "note": "Trusts z3, the pyvc generator (cross-checked natively), numba compiling count_bits faithfully, numpy element-wise ufunc semantics. Floats ideal-real in the PSK proof (only congruence of cos/sin used).",
 },
 "C13": {
  "category": "proof",
  "technique": "contract-based deductive verification: symbolic execution of the real model classes -> z3 nonlinear real VCs with uninterpreted log10/pow10 and ground axiom instances; bounded run-time contract check as float cross-check",
  "text": "All path-loss classes are constructed through their real __init__ and their real methods executed with SYMBOLIC parameters/distances; monotonicity, linear=10^(-dB/10) in (0,1], inverse pairs, the raise/clamp policy, the free-space class invariant after arbitrary setter histories (inductive step + all histories up to length 3), Friis within 0.01 dB, METIS wall handling, Okumura-Hata range validation and the sector antenna pattern are discharged for all real inputs. A bounded native sweep re-checks the same contracts in binary64.",
  "note": "Ideal-real arithmetic; log10/pow10 uninterpreted with listed axioms (monotone, inverse pair, product-rule instances, two numeric enclosures checked natively). Random shadowing excluded.",
 },
 "C16": {
  "category": "proof",
  "technique": "contract-based deductive verification: symbolic SNR through the real calcTheoretical* methods, Q uninterpreted with monotonicity axioms, formula tied to d_min/neighbour counts measured on the emitted constellation; bounded float grid with high-precision reference",
  "text": "For each modulator built by its real constructor the real SER/BER/PER/SE methods are executed on a symbolic SNR: ranges, monotonicity, BER<=SER<=log2(M)BER, PER and SE identities (concrete and symbolic packet length) and the eps-band tie between the Q-argument and (d_min/2)sqrt(2 snr) of the EMITTED constellation are discharged by z3. qfunc is used through its contract, itself proved from the erfc body. Binary64 behaviour (tail accuracy, tends to 0) and the PSK bound-vs-exact claim are bounded numeric checks.",
  "note": "Ideal reals with binary64 constants (1e-12/1e-15 relative slack where the code rounds constants); Q axioms; PSK exact-SER sandwich only bounded (quadrature).",
 },
 "C12": {
  "category": "proof",
  "technique": "contract-based deductive verification: doWF symbolically executed per channel count (sort by real argsort on symbolic values, loop fully unrolled) -> z3 nonlinear real VCs; optimality via assumed KKT lemma; bounded native check",
  "text": "For every channel count N in the stated bound and ALL positive gains, power, noise and symbol energy: non-negativity, sum = total power, P_i = max(0, mu - noise/(Es g_i)) for the returned mu, and permutation equivariance are discharged on every path of the real code. This is bounded in N (quick 1..4, thorough 1..6) and unbounded in the values. Optimality is reduced to the KKT structure by lemma L-KKT (assumed). A native check covers N<=60, 12 decades, ties, and perturbation optimality.",
  "note": "Ideal reals; N bounded; lemma L-KKT (KKT structure => capacity optimal, by concavity) assumed, not machine-checked.",
 },
 "C14": {
  "category": "proof",
  "technique": "contract-based deductive verification: ghost sample position, symbolic request size through an affine-sequence contract of np.arange, inductive class invariant, representation-independent request histories observed through get_samples(); Lean/Mathlib lemma for the magnitude bound; bounded binary64 long-run check",
  "text": "The real generator methods are symbolically executed with symbolic Doppler, sampling interval, phases, head start and request sizes: exactly n samples of the configured shape at times (pos+i)*Ts, new time pos+n, skip advances by m (inductive step, any history length), every sample returned after every request sequence of length <=3 equals the Jakes sum-of-sinusoids at its position, phases change only on a shape change, |h|<=sqrt(L) by lemma L-UNIT (z3 for L<=2, Lean 4+Mathlib for all L in the thorough tier), Fd=0 static. Binary64 accumulation over positions up to 1e10 is a bounded native check with a stated phase tolerance.",
  "note": "Ideal reals; cos/sin uninterpreted; np.arange contract; history length bounded at 3 for the representation-independent form (the inductive step covers any length for the current representation); L-UNIT assumed for L>2 in the quick tier.",
 },
 "C06": {
  "category": "proof",
  "technique": "contract-based deductive verification: abstract view of a Result, update/merge contracts from arbitrary symbolic states, monoid laws (singleton, associativity, unit) + direct chunking enumeration with symbolic observations, operand frame conditions; bounded native check for grid unions",
  "text": "Result.update and Result.merge are symbolically executed from arbitrary (havocked) states of all four result types with and without value accumulation: update adds exactly one observation to the view, merge adds the views and leaves the operand untouched, update equals merging a singleton, merge is associative with the empty result as unit - hence every chunking and association yields the same value/total/count/mean/variance (MISC: last observation wins). All chunkings of sequences of length <=4 are additionally executed directly with symbolic observations. merge_all_results is proved per name with the operands never changed by later merges or updates. combine_simulation_results/parameters over overlapping grids is a bounded native check.",
  "note": "Ideal reals for float statistics; lemma L-FOLD (monoid homomorphism => chunking independence) is the textbook induction over the discharged laws, not machine-checked; combine_* only bounded.",
 },
 "C08": {
  "category": "proof",
  "technique": "contract-based deductive verification: ghost state (raw matrix, antenna split, current path loss), all mutator histories up to length 3 plus an inductive cache-coherence step, symbolic matrix entries through the real numpy slicing; transmission equation; bounded native random histories",
  "text": "On the real plain and external-interference classes, with every matrix entry, path-loss value, noise draw, filter entry and data symbol symbolic: after each step of every mutator sequence of length <=3 all views (H, big_H, get_Hkl, get_Hk, big_H_no_ext_int) equal sqrt(current path loss) x raw for the current antenna split, entry by entry; from any state whose caches are empty or coherent every mutator re-establishes coherence (inductive, any history length); corrupt_data equals W^H(big_H x + n) with n the reported last noise, split by antenna counts, for noise on/off x filter on/off. Structure is configuration-concrete (K=2, unequal splits incl. equal totals).",
  "note": "K and antenna splits fixed per configuration (values fully symbolic); ideal reals, sqrt uninterpreted; random draws uninterpreted; larger K and random interleavings only in the bounded native check.",
 },
 "C11": {
  "category": "proof",
  "technique": "contract-based deductive verification: real SINR/covariance methods executed on fully symbolic complex precoders/filters/channels; results compared with a first-principles spec as exact polynomial identities (ring normal form, z3 for the rest); bounded native random configurations",
  "text": "For plain, external-interference and joint-processing channels and for the IA solver (K 2..3, unequal antennas, 1..2 streams, symbolic path loss, noise None/0/symbolic, interference power, also after re-randomizing and after a power change through the setter) the engine records the exact numerator and denominator of every reported SINR and proves them equal to |u^H H_kk f|^2 and to the power of all other streams plus external interference plus filtered noise. Scale invariance, Q_k = sum of interfering link covariances, Hermitian, v^H Q v a sum of squares with non-negative weights (PSD), solver/channel agreement, sum capacity and dB forms are discharged.",
  "note": "Structure configuration-concrete (values symbolic); ideal reals; H taken from the channel object (its coherence is C08); positivity of denominators is a requires; larger sizes only in the bounded native check.",
 },
 "C10": {
  "category": "other",
  "technique": "contract-based deductive verification of the solver base class invariant (no stale derived quantities) over all public-setter histories up to length 3 with symbolic matrices; bounded run-time contract checks for the optimisation claims of the real solvers",
  "text": "Proved (deductive): after every sequence of <=3 public mutators (P scalar/vector/None, set_precoders F|full_F[,P], set_receive_filters W|W_H, randomizeF), reading every derived quantity after each step, full_F, W/W_H, full_W_H, full_W, Ns and P agree with the CURRENT precoders, filters and power (exact polynomial identities on symbolic complex matrices); unit-norm precoders; P setter validation. The optimisation claims - solving completes, closed form nulls cross interference, alternating-min / min-leakage never increase leakage per iteration, MMSE meets the power constraint, the full filters invert the direct channel - are theorems about eigen-subspaces and a Newton search that no contract within the solver's reach decides: they are bounded run-time contract checks on the real solvers (stated bound, never counted as proved), which is why the level is 'other'. Three known findings (min-leakage / max-SINR with 2 streams, closed form without noise).",
  "note": "np.linalg.solve contract assumed (closed-form adjugate model); structure configuration-concrete in the invariant proof; iterative solvers only bounded (K=3, antennas 2..4, streams 1..2, powers incl. 1e-4..230); convergence is liveness, outside contracts.",
 },
 "C05": {
  "category": "proof",
  "technique": "contract-based deductive verification: real simulate() symbolically executed with the two user hooks as oracles (abstract callee contracts), every skip / stop pattern enumerated by the path explorer, merged values compared as ring identities; complete enumeration of the lookup index space; bounded native runs",
  "text": "simulate() of the real runner is symbolically executed with _run_simulation and _keep_going replaced by oracle contracts (raise SkipThisOne or return a fresh symbolic result; arbitrary boolean); every oracle pattern is explored for rep_max 1..3, up to 2 skips per variation and grids with 0..2 unpacked parameters. On every path the variation order, repetition counts, stop behaviour, stored sums (symbolic identities) and skipped counts satisfy the contract, and SkipThisOne never escapes. get_pack_indexes / get_result_values_list / get_unpacked_params_list are decided by complete enumeration over all grids with 0..3 unpacked parameters of lengths 1..3 and all fixed-value subsets.",
  "note": "Bounded in rep_max, skips and grid size for the symbolic runs (values symbolic, all patterns); progress bars/timing/option parsing and the concrete parameter-grid code are executed natively; liveness when every repetition skips is outside contracts.",
 },
 "C07": {
  "category": "proof",
  "technique": "contract-based deductive verification: crash Hoare logic over a ghost file system for the save routines (crash invariant after every effect), resume arithmetic of the real repetition loop from an arbitrary saved state with oracle hooks, refusal contract of load_partial_results; bounded real kill/restart runs",
  "text": "The real _save_to_pickle/_save_to_json are symbolically executed against effect models of open/write/dump/close/os.replace and the crash invariant 'target absent or complete (old or new), never partial' is checked after every effect. The real repetition loop is executed with load_partial_results returning an arbitrary saved state: exactly rep_max-c0 new successful repetitions, each counted once, result = saved + new, and the state handed to save_partial_results is the current one. load_partial_results accepts equal parameters (ignoring rep_max), raises ValueError otherwise, returns None for a missing file and does not swallow other errors. Real processes killed inside every write call and restarted are the bounded cross-check.",
  "note": "File-system effect models (atomic rename, truncation on open, complete only after close) are assumed; fsync/page-cache durability is outside contracts; resume arithmetic bounded in rep_max like C05; the 500-repetition save period only in the bounded runs.",
 },
 "C17": {
  "category": "proof",
  "technique": "contract-based deductive verification: dict-level round trips of the real _to_dict/_from_dict with arbitrary (symbolic) field values against the fields compared by the classes' own __eq__; encoder/decoder hook contracts; json/pickle as library contracts conformance-checked by bounded native round trips",
  "text": "For Result (all four types, accumulate on/off), SimulationResults and SimulationParameters (parent and unpacked child) the real _to_dict and _from_dict are symbolically executed on objects whose statistics, lists, choice counts, current_rep, runned_reps and unpack index are symbolic; every field compared by __eq__ (and num_updates) is proved restored for all values. The JSON hooks keep numpy integer/float scalars exact, invert sets and array descriptors (data, dtype, shape, any memory order) and reject unsupported objects. Text-level JSON/pickle, file dispatch, idempotence and file-name injectivity are bounded native checks over a broad value generator.",
  "note": "json/pickle structural contracts assumed (conformance-checked natively); np.float128 and tuples excluded; file-name injectivity bounded.",
 },
 "C01": {
  "category": "proof",
  "technique": "contract-based deductive verification: real demodulate() executed on symbolic samples (real numpy argmin on symbolic squared distances, one path per decision) with an ML postcondition; modulate/BPSK contracts; complete enumeration of the finite order/offset configuration space; bounded native cross-check",
  "text": "For constellations built by the real constructors (QPSK, PSK 4/8/16, QAM 4/16) the generic detector is symbolically executed on fully symbolic complex samples: on every path the returned index minimises the squared distance over the whole constellation, the output keeps the shape and element order of the input for 1-D, C-ordered, Fortran-ordered and transposed arrays, also after a phase-offset change following an earlier demodulation. modulate is the table lookup for symbolic indexes and raises ValueError for idx >= M; BPSK closed forms hold for every input; PSK symbols have unit energy for a symbolic phase offset. Round trip, distinct points, unit mean energy (PSK 2..2^10 x offsets, QAM 4..4^6) and rejection of every unsupported cardinality up to 4100 are decided by complete enumeration on the real code.",
  "note": "Ideal reals for the distance comparisons (sqrt strictly increasing); ties excluded; symbolic detection proved for M <= 16, larger orders by the bounded brute-force cross-check; negative indexes wrap (documented numpy behaviour).",
 },
 "C19": {
  "category": "other",
  "technique": "contract-based deductive verification for rectangle/circle containment, circle border point and the random-point generators (exact polynomial identities modulo cos^2+sin^2=1 + z3); bounded run-time contract checks on dense grids for hexagons, generic border points, user placement and cluster layout",
  "text": "Proved for ALL corners, rotations and query points: each edge half-plane of the rectangle's own vertices equals side length x signed distance of the un-rotated point (ring identity modulo c^2+s^2=1) and the real containment test is the sign test on those distances; circle containment is the open disc; the circle border point is pos + ratio*r*(cos,sin)(angle); random points in a circle/rectangle satisfy their bounds for every value of the uninterpreted draws. Hexagon containment (matplotlib Path), the generic nearest-two-vertices border-point construction, rejection-sampled users (incl. 3-sector cells after setter histories) and the ring-by-ring cluster placement are trigonometry with float tolerances behind an external library: they are bounded checks on rotation/radius/size grids, never counted as proved - hence 'other'. One known finding: border points of non-square rectangles.",
  "note": "Ideal reals, cos/sin uninterpreted with Pythagoras, symmetry and the value at 0; matplotlib Path external; grids bounded as stated in the evidence.",
 },
 "C20": {
  "category": "proof",
  "technique": "contract-based deductive verification: real Projection/metrics/selector/Sherman-Morrison/conversion code on matrices with symbolic entries; exact numerator/denominator bookkeeping so that matrix identities become cross-multiplied polynomial identities (ring normal form, z3); svd/eig/norm/inv used through library contracts; bounded native kernels check",
  "text": "For symbolic complex n x 1 (n <= 3) and real 3 x 2 / 2 x 2 matrices the real Projection object satisfies Q^H=Q, Q^2=Q, QA=A, oQ=I-Q, oQ A=0, project+oProject=M, reflect twice = identity, also after earlier reflect calls on the same object; the projector-form chordal distance is ||P_A-P_B||_F/sqrt 2 with symmetric, zero and basis-change properties on the norm argument; peig/leig/least_right_singular_vectors/get_principal_component_matrix select exactly what their names say from arbitrary (symbolic) svd/eig factors, every ordering explored; the Sherman-Morrison diagonal update times (A+diag d) is the identity; dB/linear/dBm/EbN0 conversions are mutually inverse for all reals. GMD, QR/angle-based distances, whitening and float conversions are bounded native checks; two known findings (whitening with repeated eigenvalues, wide-matrix selector).",
  "note": "Sizes configuration-concrete (entries symbolic); inverse via adjugate contract with det != 0 required; svd/eig/norm as library contracts; gmd and whitening only bounded.",
 },
}
NOT_APPLICABLE = {}
