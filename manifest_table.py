"""Per-property manifest entries (consumed by tools/gen_manifest.py)."""
CHECKS = {
 "C15": {
  "category": "proof",
  "technique": "contract-based deductive verification: symbolic execution of the real source -> z3 bit-vector VCs; exhaustive configuration enumeration for QAM/PSK geometry",
  "text": "Gray conversions, popcount and Hamming distance are proved for ALL 64-bit operands below 2^62 from the real shift/xor/while source (bv64 VCs, z3). PSK labelling is proved per order with a symbolic phase offset by symbolically executing PSK.__init__; QAM labelling and the geometric neighbour claim range over a finite configuration set and are decided by complete enumeration on the real code. setPhaseOffset and QAM>=64 are refuted and listed as known findings.",
  "note": "Trusts z3, the pyvc generator (cross-checked natively), numba compiling count_bits faithfully, numpy element-wise ufunc semantics. Floats ideal-real in the PSK proof (only congruence of cos/sin used).",
 },
}
NOT_APPLICABLE = {}
