"""C10  Interference-alignment solvers return valid, power-limited, aligned solutions; no stale derived quantities.

Functions under contract (deductive): IASolverBaseClass.__init__, P (getter/setter), set_precoders, set_receive_filters,
randomizeF, clear, F, full_F, W, W_H, full_W_H, full_W, Ns, _calc_equivalent_channel, _clear_*.
Bounded (run-time contracts on the real solvers): ClosedFormIASolver, AlternatingMinIASolver, MinLeakageIASolver,
MaxSinrIASolver, MMSEIASolver solve()/_step()/get_cost(), _solve_finalize.
"""
import itertools

import numpy as np
import z3

from pyvc import sym
from pyvc.sym import lift, frac_eq, cfrac_eq
from pyvc.interp import PyRaise, _det_inv
from pyvc.oblig import obligation, verify, bounded, Goal, merge
from .common import stable_rng, quick
from .C08 import _cmat, _pmat, _install_models, _ceq
from .C11 import _conjT, _abs2

LEVEL = "other"
EXPLANATION = ("Deductive part (counted under obligations/discharged): class invariant INV10 of the solver base class - after EVERY "
               "sequence of <=3 public mutators {P=scalar, P=vector, P=None, set_precoders(F|full_F[,P]), set_receive_filters(W|W_H), "
               "randomizeF} with all derived quantities read after each step: full_F == F*sqrt(P_current) (or the given full_F), "
               "W_H == W^H, full_W_H == (W^H H_kk full_F)^-1 W^H built from the CURRENT precoders and power, full_W == full_W_H^H, "
               "Ns == columns of F; randomizeF/set_precoders(full_F) yield unit-norm F.  Matrices are fully symbolic complex "
               "(K=2, 2x2, 1 stream; and 2 streams for the filter identity).  "
               "Closed-form solver: with solve / eig / pinv / leig as abstract callees the alignment matrix, the three precoders and the "
               "three filter requests have exactly the structure of the alignment solution; lemma L-ALIGN (Lean 4 + Mathlib, thorough tier) "
               "turns that structure into alignment at every receiver, i.e. a filter orthogonal to the aligned direction nulls both "
               "interferers (the selector contract of leig is proved in C20).  "
               "The optimisation claims (solve completes, closed form nulls interference numerically, leakage never increases, MMSE meets the power "
               "constraint, full_W_H H_kk full_F = I numerically) are theorems about eigen-subspaces/Newton searches outside the "
               "solver's reach: bounded run-time contract checks on the real solvers (labelled bounded, never counted as proved) - "
               "hence level 'other'.")
ASSUMPTIONS = [
    "np.linalg.solve contract: A X = B for invertible A (closed-form adjugate model up to 3x3)",
    "configuration-concrete structure for the invariant proof; ideal reals; sqrt uninterpreted",
    "iterative solvers: bounded only (K=3, antennas 2..4, streams 1..min-1, scalar/vector powers incl. strongly unequal, all init modes)",
    "convergence of the iterations is outside contracts (liveness)",
]
TRUSTED_BASE = ["numpy/scipy eig, svd, solve inside the iterative solvers (bounded part)"]
BOUNDS = {"history_length": 3, "bounded": "K=3, Nt,Nr in 2..4, Ns 1..min-1, 40 (quick) / 400 (thorough) seeds per solver"}

OPS = ("P_scalar", "P_vector", "P_none", "setF", "setFullF", "setFP", "setW", "setWH", "randF")
K, N, NS = 2, 2, 1


class Ghost:
    def __init__(self):
        self.F = None
        self.P = None
        self.fullF_given = None
        self.W = None
        self.WH = None


def _new(c, it):
    import pyphysim.channels.multiuser as mu
    import pyphysim.ia.algorithms as alg
    draws = []
    _install_models(c, it, draws)
    ch = it.call(mu.MultiUserChannelMatrix, [])
    it.call(it.getattr(ch, "randomize"), [N, N, K])
    s = it.call(alg.ClosedFormIASolver, [ch]) if False else it.call(alg.AlternatingMinIASolver, [ch])
    return ch, s, draws


def _apply(c, it, s, g, op, uid, draws):
    if op == "P_scalar":
        v = c.var("p" + uid, "real")
        c.assume(v > 0)
        it.setattr(s, "P", v)
        g.P = [v] * K
        g.fullF_given = None
    elif op == "P_vector":
        v = [c.var("p%s_%d" % (uid, k), "real") for k in range(K)]
        for x in v:
            c.assume(x > 0)
        it.setattr(s, "P", list(v))
        g.P = v
        g.fullF_given = None
    elif op == "P_none":
        it.setattr(s, "P", None)
        g.P = None
        g.fullF_given = None
    elif op in ("setF", "setFP"):
        F = np.empty(K, dtype=object)
        for k in range(K):
            F[k] = _cmat(c, "F%s_%d" % (uid, k), N, NS)
        if op == "setFP":
            v = np.empty(K, dtype=object)
            for k in range(K):
                v[k] = c.var("q%s_%d" % (uid, k), "real")
                c.assume(v[k] > 0)
            it.call(it.getattr(s, "set_precoders"), [F, None, v])
            g.P = list(v)
        else:
            it.call(it.getattr(s, "set_precoders"), [F])
        g.F = F
        g.fullF_given = None
    elif op == "setFullF":
        X = np.empty(K, dtype=object)
        for k in range(K):
            X[k] = _cmat(c, "X%s_%d" % (uid, k), N, NS)
        it.call(it.getattr(s, "set_precoders"), [None, X])
        g.fullF_given = X
        Fn = np.empty(K, dtype=object)
        for k in range(K):
            nrm = lift(sum(_abs2(x) for x in X[k].flat)).to_real().sqrt()
            Fn[k] = np.frompyfunc(lambda x: x / nrm, 1, 1)(X[k])
        g.F = Fn
    elif op in ("setW", "setWH"):
        W = np.empty(K, dtype=object)
        for k in range(K):
            W[k] = _cmat(c, "W%s_%d" % (uid, k), N, NS)
        if op == "setW":
            it.call(it.getattr(s, "set_receive_filters"), [None, W])
            g.W = W
        else:
            WH = np.empty(K, dtype=object)
            for k in range(K):
                WH[k] = _conjT(W[k])
            it.call(it.getattr(s, "set_receive_filters"), [WH])
            g.W = W
    elif op == "randF":
        n0 = len(draws)
        it.call(it.getattr(s, "randomizeF"), [NS])
        Fn = np.empty(K, dtype=object)
        for k in range(K):
            A = draws[n0 + k]
            nrm = lift(sum(_abs2(x) for x in A.flat)).to_real().sqrt()
            Fn[k] = np.frompyfunc(lambda x: x / nrm, 1, 1)(A)
        g.F = Fn
        g.P = None
        g.fullF_given = None


def _meq(A, B):
    if np.shape(A) != np.shape(B):
        return z3.BoolVal(False)
    return z3.And([_ceq(a, b) for a, b in zip(np.asarray(A, dtype=object).flat, np.asarray(B, dtype=object).flat)])


def _derived_goals(c, it, ch, s, g, tag):
    goals = []
    if g.F is None:
        return goals
    P = g.P if g.P is not None else [1.0] * K
    H = it.getattr(ch, "H")
    fullF = it.getattr(s, "full_F")
    Pgot = it.getattr(s, "P")
    goals.append(Goal("[%s] P getter" % tag, sym.SBool(z3.And([(lift(Pgot[k]) == lift(P[k])).t for k in range(K)]))))
    spec_full = np.empty(K, dtype=object)
    for k in range(K):
        if g.fullF_given is not None:
            spec_full[k] = g.fullF_given[k]
        elif sym.is_sym(P[k]):
            spec_full[k] = g.F[k] * lift(P[k]).to_real().sqrt()
        else:
            import math
            spec_full[k] = g.F[k] * math.sqrt(P[k])
    goals.append(Goal("[%s] full_F == F*sqrt(P_current)" % tag, sym.SBool(z3.And([_meq(fullF[k], spec_full[k]) for k in range(K)]))))
    F = it.getattr(s, "F")
    goals.append(Goal("[%s] F" % tag, sym.SBool(z3.And([_meq(F[k], g.F[k]) for k in range(K)]))))
    Ns = it.getattr(s, "Ns")
    goals.append(Goal("[%s] Ns == columns of F" % tag, all(int(Ns[k]) == np.shape(F[k])[1] for k in range(K))))
    if g.W is not None:
        W, WH = it.getattr(s, "W"), it.getattr(s, "W_H")
        goals.append(Goal("[%s] W, W_H == W^H" % tag, sym.SBool(z3.And(
            [z3.And(_meq(W[k], g.W[k]), _meq(WH[k], _conjT(g.W[k]))) for k in range(K)]))))
        fWH, fW = it.getattr(s, "full_W_H"), it.getattr(s, "full_W")
        conj = []
        for k in range(K):
            wh = _conjT(g.W[k])
            Heq = np.dot(wh, np.dot(H[k, k], spec_full[k]))
            adj, det = _det_inv(Heq)
            spec = np.frompyfunc(lambda x: x / det, 1, 1)(np.dot(adj, wh))
            conj.append(_meq(fWH[k], spec))
            conj.append(_meq(fW[k], _conjT(spec)))
        goals.append(Goal("[%s] full_W_H == (W^H H_kk full_F_current)^-1 W^H, full_W == full_W_H^H" % tag, sym.SBool(z3.And(conj))))
    return goals


def _native_history(seq, seed=0):
    """the same mutator history on a real solver with generic values; after every step all derived quantities are read and compared
    with an independent ghost (current precoders, filters, power).  -> first disagreement or None"""
    import pyphysim.channels.multiuser as mu
    import pyphysim.ia.algorithms as alg
    rr = np.random.RandomState(4242 + seed)
    ch = mu.MultiUserChannelMatrix()
    ch.randomize(N, N, K)
    s = alg.AlternatingMinIASolver(ch)
    g = {"F": None, "P": None, "full": None, "W": None}
    cm = lambda a, b: rr.randn(a, b) + 1j * rr.randn(a, b)       # noqa: E731

    def objarr(lst):
        a = np.empty(len(lst), dtype=object)
        for i, x in enumerate(lst):
            a[i] = x
        return a
    done = []
    for op in seq:
        if op == "P_scalar":
            v = float(rr.rand() + 0.3)
            s.P = v
            g["P"], g["full"] = [v] * K, None
        elif op == "P_vector":
            v = [float(x) for x in rr.rand(K) + 0.3]
            s.P = list(v)
            g["P"], g["full"] = v, None
        elif op == "P_none":
            s.P = None
            g["P"], g["full"] = None, None
        elif op in ("setF", "setFP"):
            F = [cm(N, NS) for _ in range(K)]
            F = [f / np.linalg.norm(f, 'fro') for f in F]
            if op == "setFP":
                v = rr.rand(K) + 0.3
                s.set_precoders(objarr(F), None, v.copy())
                g["P"] = [float(x) for x in v]
            else:
                s.set_precoders(objarr(F))
            g["F"], g["full"] = F, None
        elif op == "setFullF":
            X = [cm(N, NS) for _ in range(K)]
            s.set_precoders(None, objarr(X))
            g["full"] = X
            g["F"] = [x / np.linalg.norm(x, 'fro') for x in X]
        elif op in ("setW", "setWH"):
            W = [cm(N, NS) for _ in range(K)]
            if op == "setW":
                s.set_receive_filters(None, objarr(W))
            else:
                s.set_receive_filters(objarr([w.conj().T for w in W]))
            g["W"] = W
        elif op == "randF":
            s.randomizeF(NS)
            g["F"] = [np.array(f) for f in s.F]
            g["P"], g["full"] = None, None
        done.append(op)
        if g["F"] is None:
            continue
        P = g["P"] if g["P"] is not None else [1.0] * K
        where = {"confirmed": True, "history": ">".join(done)}
        spec_full = [g["full"][k] if g["full"] is not None else g["F"][k] * np.sqrt(P[k]) for k in range(K)]
        for k in range(K):
            if (not (abs(float(np.asarray(s.P)[k]) - P[k]) <= 1e-12)):
                return dict(where, quantity="P[%d]" % k, observed=float(np.asarray(s.P)[k]), expected=P[k])
            if (not (np.abs(s.full_F[k] - spec_full[k]).max() <= 1e-10)):
                return dict(where, quantity="full_F[%d] vs F*sqrt(P_current)" % k, observed=repr(np.asarray(s.full_F[k]).ravel().tolist())[:160],
                            expected=repr(spec_full[k].ravel().tolist())[:160])
            if (not (np.abs(s.F[k] - g["F"][k]).max() <= 1e-10)):
                return dict(where, quantity="F[%d]" % k)
            if int(s.Ns[k]) != NS:
                return dict(where, quantity="Ns[%d]" % k, observed=int(s.Ns[k]), expected=NS)
        if g["W"] is not None:
            for k in range(K):
                wh = g["W"][k].conj().T
                if (not (np.abs(s.W[k] - g["W"][k]).max() <= 1e-10)) or (not (np.abs(s.W_H[k] - wh).max() <= 1e-10)):
                    return dict(where, quantity="W[%d] / W_H[%d]" % (k, k))
                spec = np.linalg.solve(wh @ ch.H[k, k] @ spec_full[k], wh)
                if (not (np.abs(s.full_W_H[k] - spec).max() <= 1e-8 * max(1.0, np.abs(spec).max()))):
                    return dict(where, quantity="full_W_H[%d] vs (W^H H_kk full_F_current)^-1 W^H" % k,
                                observed=repr(np.asarray(s.full_W_H[k]).ravel().tolist())[:160], expected=repr(spec.ravel().tolist())[:160])
                if (not (np.abs(s.full_W[k] - spec.conj().T).max() <= 1e-8 * max(1.0, np.abs(spec).max()))):
                    return dict(where, quantity="full_W[%d]" % k)
    return None


def _history(seq):
    def rp(model):
        try:
            for seed in range(3):
                bad = _native_history(seq, seed)
                if bad:
                    return bad
            return {"confirmed": False, "history": ">".join(seq), "note": "real solver agrees with the ghost for generic values along this history"}
        except Exception as e:
            return {"confirmed": False, "error": "replay crashed: %r" % (e,)}

    def body(c, it):
        c.axioms_on = False
        ch, s, draws = _new(c, it)
        g = Ghost()
        goals = []
        for i, op in enumerate(seq):
            _apply(c, it, s, g, op, str(i), draws)
            goals += _derived_goals(c, it, ch, s, g, ">".join(seq[:i + 1]))
        return goals
    return verify(body, check_side=False, timeout_ms=30000, replay=rp)


@obligation("inv10/histories", params=[{"first": o} for o in OPS], timeout=600,
            desc="every mutator sequence of length <=3 starting with `first`: after each step (reading every derived quantity) "
                 "full_F, W, W_H, full_W_H, full_W, Ns, P agree with the CURRENT precoders, filters and power")
def ob_histories(first):
    seqs = [(first,)] + [(first, b) for b in OPS] + [(first, b, d) for b in OPS for d in OPS]
    # only histories that set precoders at some point exercise the derived quantities
    seqs = [q for q in seqs if any(o in ("setF", "setFullF", "setFP", "randF") for o in q)]
    if quick():
        seqs = [q for q in seqs if len(q) < 3 or len(set(q)) == 3]
    return merge([_history(q) for q in seqs])


INIT_MODES = {"random": "_initialize_F_randomly_and_find_W", "alt_min": "_initialize_F_and_W_from_alt_min",
              "closed_form": "_initialize_F_and_W_from_closed_form", "fix": "_dont_initialize_F_and_only_and_find_W",
              "svd": "_initialize_F_with_svd_and_find_W"}


@obligation("solve/requested_power_is_installed", params=[{"solver": sv, "mode": m, "power": pw} for sv in ("MaxSinrIASolver", "MMSEIASolver")
                                                          for m in INIT_MODES for pw in ("scalar", "vector")], timeout=120,
            desc="_solve_init(Ns, P) of the iterative solvers for EVERY initialisation mode (incl. 'fix' = continue from the current "
                 "precoders) on a solver that holds an OLD power and cached power-scaled precoders: afterwards the solver's power is the "
                 "requested one for every user and the cache built for the old power is gone; the initialiser of the selected mode - and "
                 "only that one - is called with (Ns, P).  Initialisers are abstract callees here (their effect on F/W is covered by "
                 "inv10/* and the bounded solver checks)")
def ob_solve_power(solver, mode, power):
    def body(c, it):
        import pyphysim.ia.algorithms as alg
        ch, _, draws = _new(c, it)
        s = it.call(getattr(alg, solver), [ch])
        called = []
        for m, fn in INIT_MODES.items():
            it.models["pyphysim.ia.algorithms:IterativeIASolverBaseClass.%s" % fn] = \
                (lambda m: (lambda interp, self, *a, **k: called.append((m, a))))(m)
        # old state: precoders with an old power and the derived full_F read once (cached)
        F = np.empty(K, dtype=object)
        for k in range(K):
            F[k] = _cmat(c, "F%d" % k, N, NS)
        old = [c.var("old%d" % k, "real") for k in range(K)]
        for x in old:
            c.assume(x > 0)
        it.call(it.getattr(s, "set_precoders"), [F, None, np.array(old, dtype=object)])
        it.getattr(s, "full_F")
        it.setattr(s, "initialize_with", mode)
        if power == "scalar":
            p = c.var("p", "real")
            c.assume(p > 0)
            want = [p] * K
            arg = p
        else:
            want = [c.var("p%d" % k, "real") for k in range(K)]
            for x in want:
                c.assume(x > 0)
            arg = np.array(want, dtype=object)
        it.call(it.getattr(s, "_solve_init"), [NS, arg])
        P = it.getattr(s, "P")
        goals = [Goal("exactly the selected initialiser was called, with (Ns, P)", [m for m, _ in called] == [mode]
                      and len(called[0][1]) == 2 and called[0][1][0] is NS or called[0][1][0] == NS)]
        try:
            Pl = list(P)
        except TypeError:
            Pl = None
        goals.append(Goal("P has one entry per user", Pl is not None and len(Pl) == K))
        if Pl is not None and len(Pl) == K:
            for k in range(K):
                goals.append(Goal("user %d: power == requested power" % k, lift(Pl[k]) == want[k]))
        if mode == "fix":
            fF = it.getattr(s, "full_F")
            for k in range(K):
                goals.append(Goal("user %d: full_F == F * sqrt(requested power)" % k, sym.SBool(_meq(fF[k], F[k] * lift(want[k]).sqrt()))))
        return goals
    return verify(body, check_side=False)


@obligation("inv10/unit_norm_precoders", timeout=120,
            desc="randomizeF and set_precoders(full_F=X): every entry of F_k is (entry of A)/n with the SAME n and n*n == ||A||_F^2 "
                 "(so ||F_k||_F == 1); numerators/denominators compared as exact polynomial identities")
def ob_unit_norm():
    def body(c, it):
        ch, s, draws = _new(c, it)
        goals = []

        def norm_goals(tag, Fk, A):
            S = lift(sum(_abs2(x) for x in A.flat)).to_real()
            n = S.sqrt()
            conj = []
            for f, a in zip(Fk.flat, A.flat):
                f, a = sym.to_complex(f), sym.to_complex(a)
                for part, apart in ((f.re, a.re), (f.im, a.im)):
                    fr = getattr(lift(part), "frac", None)
                    if fr is None:
                        return [Goal(tag + ": entries are quotients", False)]
                    conj.append((fr[0] == apart).t)
                    conj.append((fr[1] == n).t)
            return [Goal(tag + ": F == A / n entry-wise", sym.SBool(z3.And(conj))),
                    Goal(tag + ": n*n == ||A||_F^2 (n>=0)", (n * n == S) & (n >= 0))]
        it.call(it.getattr(s, "randomizeF"), [NS])
        F = it.getattr(s, "F")
        for k in range(K):
            goals += norm_goals("randomizeF user %d" % k, F[k], draws[-K + k])
        X = np.empty(K, dtype=object)
        for k in range(K):
            X[k] = _cmat(c, "X%d" % k, N, 2)
        it.call(it.getattr(s, "set_precoders"), [None, X])
        F = it.getattr(s, "F")
        for k in range(K):
            goals += norm_goals("set_precoders(full_F) user %d" % k, F[k], X[k])
        return goals
    return verify(body, timeout_ms=30000, check_side=False)


@obligation("inv10/rejects_bad_power",
            desc="P setter: non-positive scalar, wrong length or a vector with a non-positive entry (symbolic entries) raise ValueError and leave P "
                 "and the power-scaled precoders unchanged")
def ob_bad_power():
    def body(c, it):
        ch, s, draws = _new(c, it)
        goals = []
        v = c.var("v", "real")
        it.setattr(s, "P", 2.0)
        try:
            it.setattr(s, "P", v)
            goals.append(Goal("accepted scalar => positive", v > 0))
            goals.append(Goal("stored", sym.SBool(z3.And([(lift(x) == v).t for x in it.getattr(s, "P")]))))
        except PyRaise as pr:
            goals.append(Goal("rejected with ValueError", isinstance(pr.exc, ValueError)))
            goals.append(Goal("rejected => non-positive", v <= 0))
            goals.append(Goal("unchanged", all(x == 2.0 for x in it.getattr(s, "P"))))
        try:
            it.setattr(s, "P", [1.0, 2.0, 3.0])
            goals.append(Goal("wrong length rejected", False))
        except PyRaise as pr:
            goals.append(Goal("wrong length -> ValueError", isinstance(pr.exc, ValueError)))
        # a VECTOR with a non-positive entry (symbolic entries) is rejected as a whole: the power in force and everything derived from it
        # stay what they were
        Fs = np.empty(K, dtype=object)
        for k in range(K):
            Fs[k] = _cmat(c, "F%d" % k, N, 1)
        it.call(it.getattr(s, "set_precoders"), [Fs])
        it.setattr(s, "P", [1.5, 0.75][:K] if K <= 2 else [1.5, 0.75] + [2.0] * (K - 2))
        fF0 = [np.array(x, dtype=object, copy=True) for x in it.getattr(s, "full_F")]
        w0, w1 = c.var("w0", "real"), c.var("w1", "real")
        try:
            it.setattr(s, "P", [w0, w1] + [1.0] * (K - 2))
            goals.append(Goal("accepted vector => every entry positive", (w0 > 0) & (w1 > 0)))
        except PyRaise as pr:
            goals.append(Goal("vector rejected with ValueError", isinstance(pr.exc, ValueError)))
            goals.append(Goal("vector rejected => some entry is non-positive", (w0 <= 0) | (w1 <= 0)))
            Pn = list(it.getattr(s, "P"))
            goals.append(Goal("rejected vector: P unchanged", len(Pn) == K and Pn[0] == 1.5 and Pn[1] == 0.75))
            fF1 = it.getattr(s, "full_F")
            goals.append(Goal("rejected vector: full_F unchanged", all(bool(_meq_c(fF1[k], fF0[k])) for k in range(K))))
        return goals

    def rp(mv):
        import pyphysim.ia.algorithms as alg
        import pyphysim.channels.multiuser as mu
        try:
            ch = mu.MultiUserChannelMatrix()
            ch._RS_channel = np.random.RandomState(2)
            ch.randomize(2, 2, 3)
            s_ = alg.AlternatingMinIASolver(ch)
            s_._rs = np.random.RandomState(3)
            s_.randomizeF(1, [1.5, 0.75, 2.0])
            before = (np.array(s_.P, copy=True), [np.array(x, copy=True) for x in s_.full_F])
            for bad in ([2.0, -1.0, 0.5], [0.0, 1.0, 1.0]):
                try:
                    s_.P = bad
                    return {"confirmed": True, "P = %r" % (bad,): "accepted"}
                except ValueError:
                    pass
                if not np.array_equal(np.asarray(s_.P), before[0]) or any(not np.array_equal(a, b) for a, b in zip(s_.full_F, before[1])):
                    return {"confirmed": True, "history": "P = [1.5, 0.75, 2.0]; P = %r raises ValueError (caught)" % (bad,),
                            "P now": np.asarray(s_.P).tolist(), "P before": before[0].tolist()}
            return {"confirmed": False, "note": "a rejected power vector leaves the solver unchanged"}
        except Exception as e:
            return {"confirmed": False, "error": "replay crashed: %r" % (e,)}
    return verify(body, check_side=False, replay=rp)


def _meq_c(A, B):
    A, B = np.asarray(A, dtype=object), np.asarray(B, dtype=object)
    if A.shape != B.shape:
        return False
    return all(bool(z3.is_true(z3.simplify(_ceq(a, b)))) or (a is b) for a, b in zip(A.flat, B.flat))


# ------------------------------------------------------------------ bounded: the real solvers
def _solver_checks(s, ch, Kk, Ns, P, tol=1e-6, exact_power=True, aligned=False, power_tol=None):
    # the MMSE solver meets the power constraint through a Newton search (scipy default tolerance; its own acceptance test is P/1e6)
    # "never exceed": 1e-8 relative for every solver (the MMSE solver scales its precoder back onto the constraint when the root finder
    # of the Lagrange multiplier stops above it - fix 947c25e; before that fix the excess reached 5e-6)
    power_tol = 1e-8 if power_tol is None else power_tol
    Pv = np.ones(Kk) * P if np.isscalar(P) else np.array(P, dtype=float)
    for k in range(Kk):
        F, fF = s.F[k], s.full_F[k]
        if not (abs(np.linalg.norm(F, 'fro') - 1) <= 1e-8):
            return {"precoder not unit norm": [k, float(np.linalg.norm(F, 'fro'))]}
        pw = np.linalg.norm(fF, 'fro') ** 2
        if not (pw <= Pv[k] * (1 + power_tol)):
            return {"power exceeded": [k, float(pw), float(Pv[k])]}
        if exact_power and not (abs(pw - Pv[k]) <= 1e-8 * Pv[k]):
            return {"power not met": [k, float(pw), float(Pv[k])]}
        if s.Ns[k] != F.shape[1] or s.W_H[k].shape[0] != s.Ns[k] or s.full_W_H[k].shape[0] != s.Ns[k]:
            return {"Ns inconsistent with shapes": [k, int(s.Ns[k]), list(F.shape), list(s.W_H[k].shape)]}
        E = s.full_W_H[k] @ ch.get_Hkl(k, k) @ fF
        if not (np.abs(E - np.eye(s.Ns[k])).max() <= 1e-6):
            return {"full_W_H H_kk full_F != I": [k, float(np.abs(E - np.eye(s.Ns[k])).max())]}
        if not (np.abs(s.full_W[k] - s.full_W_H[k].conj().T).max() <= 1e-12) or not (np.abs(s.W[k] - s.W_H[k].conj().T).max() <= 1e-12):
            return {"W / W_H inconsistent": k}
    if aligned:
        for k in range(Kk):
            for l in range(Kk):
                if l != k:
                    leak = np.abs(s.W_H[k] @ ch.get_Hkl(k, l) @ s.F[l]).max()
                    if not (leak <= 1e-8):
                        return {"closed form does not null cross interference": [k, l, float(leak)]}
    return None


@obligation("closed_form/structure_of_the_alignment_solution", timeout=300,
            desc="ClosedFormIASolver._calc_E / _updateF / _updateW (K = 3, 2 x 2 complex symbolic channels, one stream each) with the library "
                 "routines as abstract callees (solve, eig, pinv, leig return arbitrary symbolic results; their arguments are recorded): the "
                 "alignment matrix is solve(H31, H32) solve(H12, H13) solve(H23, H21); F1 is the first eigenvector eig returns for exactly "
                 "that matrix, F2 = pinv(H32) H31 F1 and F3 = pinv(H23) H21 F1 up to positive scaling, each normalised to unit Frobenius "
                 "norm; the receive filter of user 1 / 2 / 3 is what leig returns (one vector) for a a^H with a = H12 F2 / H21 F1 / H31 F1.  "
                 "Together with lemma L-ALIGN (Lean, thorough tier: E v = lambda v with these definitions implies H13 F3 = lambda H12 F2, "
                 "H23 F3 = H21 F1, H32 F2 = H31 F1 - so a filter orthogonal to a is orthogonal to BOTH interferers) and the selector contract "
                 "of leig (C20) this is perfect nulling of all cross-user interference")
def ob_closed_form_structure():
    def body(c, it):
        import pyphysim.ia.algorithms as alg
        import pyphysim.channels.multiuser as mu
        import pyphysim.util.misc as misc
        from .C20 import _meq
        big = _cmat(c, "H", 6, 6)
        ch = it.call(mu.MultiUserChannelMatrix, [])
        it.call(it.getattr(ch, "init_from_channel_matrix"), [big, np.array([2, 2, 2]), np.array([2, 2, 2]), 3])

        def blk(k, l):
            return big[2 * k:2 * k + 2, 2 * l:2 * l + 2]

        def same(A, B):
            A, B = np.asarray(A, dtype=object), np.asarray(B, dtype=object)
            return A.shape == B.shape and all(x is y for x, y in zip(A.flat, B.flat))
        solves, eigs, pinvs, leigs = [], [], [], []

        def m_solve(interp, A, B):
            X = _cmat(c, "X%d" % len(solves), 2, 2)
            solves.append((A, B, X))
            return X

        def m_eig(interp, A):
            Dv = np.array([c.var("d0", "complex"), c.var("d1", "complex")], dtype=object)
            Vm = _cmat(c, "V", 2, 2)
            eigs.append((np.asarray(A, dtype=object), Dv, Vm))
            return Dv, Vm

        def m_pinv(interp, A, *a, **k):
            X = _cmat(c, "P%d" % len(pinvs), 2, 2)
            pinvs.append((A, a, k, X))
            return X

        def m_leig(interp, A, n):
            w = _cmat(c, "w%d" % len(leigs), 2, 1)
            leigs.append((np.asarray(A, dtype=object), n, w))
            return w, None
        it.models[np.linalg.solve] = m_solve
        it.models[np.linalg.eig] = m_eig
        it.models[np.linalg.pinv] = m_pinv
        it.models["pyphysim.util.misc:leig"] = m_leig
        it.models[misc.leig] = m_leig
        s = it.call(alg.ClosedFormIASolver, [ch])
        it.setattr(s, "_Ns", np.array([1, 1, 1]))
        it.call(it.getattr(s, "_updateF"), [])
        goals = [Goal("three linear systems, one eigen-decomposition, two pseudo-inverses", len(solves) == 3 and len(eigs) == 1 and len(pinvs) == 2)]
        if not goals[0].cond:
            return goals
        want = [((2, 0), (2, 1)), ((0, 1), (0, 2)), ((1, 2), (1, 0))]
        goals.append(Goal("solve(H31, H32), solve(H12, H13), solve(H23, H21)",
                          all(same(solves[i][0], blk(*want[i][0])) and same(solves[i][1], blk(*want[i][1])) for i in range(3))))
        X = [x[2] for x in solves]
        goals.append(Goal("eig is asked for their product in this order", _meq(eigs[0][0], X[0].dot(X[1].dot(X[2])))))
        goals.append(Goal("pinv(H32) and pinv(H23) with the default cut-off",
                          same(pinvs[0][0], blk(2, 1)) and same(pinvs[1][0], blk(1, 2)) and all(not p[1] and not p[2] for p in pinvs)))
        V = eigs[0][2]
        v0 = V[:, 0:1]
        raw = [v0, pinvs[0][3].dot(blk(2, 0).dot(v0)), pinvs[1][3].dot(blk(1, 0).dot(v0))]
        F = [np.asarray(x, dtype=object) for x in it.getattr(s, "_F")]
        for k in range(3):
            goals.append(Goal("precoder %d: shape 2 x 1" % k, F[k].shape == (2, 1)))
            if F[k].shape != (2, 1):
                return goals
            e = _abs2(F[k][0, 0]) + _abs2(F[k][1, 0])
            goals.append(Goal("precoder %d has unit norm" % k, frac_eq(e, 1)))
            n2 = _abs2(raw[k][0, 0]) + _abs2(raw[k][1, 0])
            goals.append(Goal("precoder %d is %s scaled by 1/norm" % (k, ["the first eigenvector", "pinv(H32) H31 F1", "pinv(H23) H21 F1"][k]),
                              _meq(F[k] * lift(n2).to_real().sqrt(), raw[k])))
        it.call(it.getattr(s, "_updateW"), [])
        goals.append(Goal("three receive filters requested, one vector each", len(leigs) == 3 and all(n == 1 for _, n, _ in leigs)))
        if len(leigs) != 3:
            return goals
        a = [blk(0, 1).dot(F[1]), blk(1, 0).dot(F[0]), blk(2, 0).dot(F[0])]
        W = it.getattr(s, "_W")
        for k in range(3):
            goals.append(Goal("receiver %d: leig is asked for a a^H with a = %s" % (k, ["H12 F2", "H21 F1", "H31 F1"][k]),
                              _meq(leigs[k][0], a[k].dot(_conjT(a[k])))))
            goals.append(Goal("receiver %d: the filter is the vector leig returned" % k, same(W[k], leigs[k][2])))
        return goals
    return verify(body, check_side=False, timeout_ms=120000)


@obligation("altmin/structure_cost_and_receive_filters", timeout=300,
            desc="AlternatingMinIASolver._updateC / _updateF / _updateW / get_cost (K = 2, 2 x 2 complex symbolic channels with symbolic path "
                 "loss, one stream each, symbolic power) with peig / leig as abstract callees (arbitrary symbolic results, arguments recorded): "
                 "the interference subspace C_k is what peig returns for EXACTLY the interference covariance of receiver k (sum over the other "
                 "users of H_kl full_F_l full_F_l^H H_kl^H on the links WITH their path loss) with Nr - Ns vectors; the precoder F_l is what leig "
                 "returns for sum_{k != l} H_kl^H (I - C_k C_k^H) H_kl, normalised to unit norm; the receive filter is the first Ns rows of "
                 "[H_kk F_k, C_k]^-1, hence W_k^H (H_kk F_k) == I and W_k^H C_k == 0 (it nulls the whole interference subspace); get_cost == "
                 "sum_{k != l} ||(I - C_k C_k^H) H_kl full_F_l||_F^2 (the leaked interference power the property speaks about)")
def ob_altmin_structure():
    def body(c, it):
        import pyphysim.ia.algorithms as alg
        import pyphysim.channels.multiuser as mu
        import pyphysim.util.misc as misc
        from .C20 import _meq
        draws = []
        _install_models(c, it, draws)
        ch = it.call(mu.MultiUserChannelMatrix, [])
        it.call(it.getattr(ch, "randomize"), [2, 2, 2])
        it.call(it.getattr(ch, "set_pathloss"), [_pmat(c, "PL", 2, 2)])
        H = it.getattr(ch, "H")
        peigs, leigs = [], []

        def m_peig(interp, A, n):
            V = _cmat(c, "C%d" % len(peigs), np.shape(A)[0], n)
            peigs.append((np.asarray(A, dtype=object), n, V))
            return V, None

        def m_leig(interp, A, n):
            V = _cmat(c, "L%d" % len(leigs), np.shape(A)[0], n)
            leigs.append((np.asarray(A, dtype=object), n, V))
            return V, None
        for key, m in (("pyphysim.util.misc:peig", m_peig), ("pyphysim.util.misc:leig", m_leig)):
            it.models[key] = m
        it.models[misc.peig] = m_peig
        it.models[misc.leig] = m_leig
        s = it.call(alg.AlternatingMinIASolver, [ch])
        F0 = np.empty(2, dtype=object)
        for k in range(2):
            F0[k] = _cmat(c, "F%d" % k, 2, 1)
        P = [c.var("P0", "real"), c.var("P1", "real")]
        c.assume((P[0] > 0) & (P[1] > 0))
        it.call(it.getattr(s, "set_precoders"), [F0, None, list(P)])
        fF = [np.asarray(x, dtype=object) for x in it.getattr(s, "full_F")]
        goals = []
        it.call(it.getattr(s, "_updateC"), [])
        goals.append(Goal("one dominant-subspace request per receiver, Nr - Ns vectors", len(peigs) == 2 and all(n == 1 for _, n, _ in peigs)))
        if len(peigs) != 2:
            return goals
        C = it.getattr(s, "_C")
        for k in range(2):
            l = 1 - k
            A = np.dot(H[k, l], fF[l])
            goals.append(Goal("receiver %d: peig is asked for the covariance of the interference it receives (links with path loss, "
                              "power-scaled precoders)" % k, _meq(peigs[k][0], np.dot(A, _conjT(A)))))
            goals.append(Goal("receiver %d: C_k is what peig returned" % k, all(x is y for x, y in zip(np.asarray(C[k], dtype=object).flat, peigs[k][2].flat))))
        Cs = [peigs[k][2] for k in range(2)]
        # cost for the current (C, F)
        cost = it.call(it.getattr(s, "get_cost"), [])
        spec = 0
        for k in range(2):
            l = 1 - k
            A = np.dot(H[k, l], fF[l])
            R = A - np.dot(np.dot(Cs[k], _conjT(Cs[k])), A)
            spec = spec + sum(_abs2(x) for x in R.flat)
        goals.append(Goal("get_cost == sum over interfering links of ||(I - C_k C_k^H) H_kl full_F_l||^2", frac_eq(lift(cost), spec)))
        it.call(it.getattr(s, "_updateF"), [])
        goals.append(Goal("one least-subspace request per transmitter, Ns vectors", len(leigs) == 2 and all(n == 1 for _, n, _ in leigs)))
        if len(leigs) != 2:
            return goals
        Fn = [np.asarray(x, dtype=object) for x in it.getattr(s, "_F")]
        for l in range(2):
            k = 1 - l
            Y = np.eye(2, dtype=object) - np.dot(Cs[k], _conjT(Cs[k]))
            M = np.dot(np.dot(_conjT(H[k, l]), Y), H[k, l])
            goals.append(Goal("transmitter %d: leig is asked for sum_k H_kl^H (I - C_k C_k^H) H_kl" % l, _meq(leigs[l][0], M)))
            raw = leigs[l][2]
            n2 = sum(_abs2(x) for x in raw.flat)
            goals.append(Goal("transmitter %d: F_l is that vector scaled to unit norm" % l,
                              _meq(Fn[l] * lift(n2).to_real().sqrt(), raw) & frac_eq(sum(_abs2(x) for x in Fn[l].flat), 1)))
        it.call(it.getattr(s, "_updateW"), [])
        WH = it.getattr(s, "_W_H")
        for k in range(2):
            w = np.asarray(WH[k], dtype=object)
            goals.append(Goal("receiver %d: one filter row" % k, w.shape == (1, 2)))
            if w.shape != (1, 2):
                continue
            goals.append(Goal("receiver %d: W_k^H (H_kk F_k) == 1" % k, _meq(np.dot(w, np.dot(H[k, k], Fn[k])), np.eye(1, dtype=object))))
            goals.append(Goal("receiver %d: W_k^H C_k == 0 (the interference subspace is nulled)" % k, _meq(np.dot(w, Cs[k]), np.zeros((1, 1), dtype=object))))
        return goals
    return verify(body, check_side=False, timeout_ms=120000)


@obligation("minleakage_maxsinr/structure_of_the_updates", params=[{"solver": s} for s in ("MinLeakageIASolver",)], timeout=300,
            desc="one update of the receive filters and of the precoders (K = 2, 2 x 2 complex symbolic channels with symbolic path loss, one "
                 "stream each, symbolic powers, precoders / filters of unit norm) with leig resp. solve under contract.  MinLeakage: W_k is what "
                 "leig returns (Ns vectors) for EXACTLY the interference covariance of receiver k on the links with their path loss and the "
                 "power-scaled precoders; F_k is what leig returns for the covariance of the reciprocal network sum_{l != k} P_l H_lk^H W_l "
                 "W_l^H H_lk.  (The MaxSINR update B_kl^-1 H_kk V_kl with its two nested normalisations exceeds the normaliser's budget: bounded.)")
def ob_updates_structure(solver):
    def body(c, it):
        import pyphysim.ia.algorithms as alg
        import pyphysim.channels.multiuser as mu
        import pyphysim.util.misc as misc
        from .C20 import _meq
        draws = []
        _install_models(c, it, draws)
        ch = it.call(mu.MultiUserChannelMatrix, [])
        it.call(it.getattr(ch, "randomize"), [2, 2, 2])
        it.call(it.getattr(ch, "set_pathloss"), [_pmat(c, "PL", 2, 2)])
        nv = c.var("nv", "real")
        c.assume(nv > 0)
        it.setattr(ch, "noise_var", nv)
        H = it.getattr(ch, "H")
        s = it.call(getattr(alg, solver), [ch])
        F0 = np.empty(2, dtype=object)
        for k in range(2):
            F0[k] = _cmat(c, "F%d" % k, 2, 1)
        P = [c.var("P0", "real"), c.var("P1", "real")]
        c.assume((P[0] > 0) & (P[1] > 0))
        it.call(it.getattr(s, "set_precoders"), [F0, None, list(P)])
        fF = [np.asarray(x, dtype=object) for x in it.getattr(s, "full_F")]
        goals = []
        if solver == "MinLeakageIASolver":
            leigs = []

            def m_leig(interp, A, n):
                V = _cmat(c, "L%d" % len(leigs), np.shape(A)[0], n)
                # callee postcondition: orthonormal vectors
                c.assume(sum(_abs2(x) for x in V.flat) == 1)
                leigs.append((np.asarray(A, dtype=object), n, V))
                return V, None
            it.models["pyphysim.util.misc:leig"] = m_leig
            it.models[misc.leig] = m_leig
            it.call(it.getattr(s, "_updateW"), [])
            goals.append(Goal("one least-subspace request per receiver, Ns vectors", len(leigs) == 2 and all(n == 1 for _, n, _ in leigs)))
            if len(leigs) != 2:
                return goals
            W = [leigs[k][2] for k in range(2)]
            Q = []
            for k in range(2):
                A = np.dot(H[k, 1 - k], fF[1 - k])
                Q.append(np.dot(A, _conjT(A)) + np.eye(2, dtype=object) * nv)
                goals.append(Goal("receiver %d: leig is asked for the covariance of the interference (plus noise) it receives" % k, _meq(leigs[k][0], Q[k])))
                goals.append(Goal("receiver %d: W_k is what leig returned" % k,
                                  all(x is y for x, y in zip(np.asarray(it.getattr(s, "_W")[k], dtype=object).flat, W[k].flat))))
            n0 = len(leigs)
            it.call(it.getattr(s, "_updateF"), [])
            goals.append(Goal("one least-subspace request per transmitter", len(leigs) == n0 + 2))
            if len(leigs) == n0 + 2:
                for k in range(2):
                    l = 1 - k
                    B = np.dot(_conjT(H[l, k]), W[l])
                    goals.append(Goal("transmitter %d: leig is asked for P_l H_lk^H W_l W_l^H H_lk (reciprocal network)" % k,
                                      _meq(leigs[n0 + k][0], np.dot(B, _conjT(B)) * P[l])))
            return goals
        # MaxSINR
        it.call(it.getattr(s, "set_receive_filters"), [None, F0])
        Bs = {}
        for k in range(2):
            Bs[k] = _cmat(c, "B%d" % k, 2, 2)

        def m_B(interp, self, k, *a, **kw):
            out = np.empty(1, dtype=object)
            out[0] = Bs[int(k)]
            return out
        it.models["pyphysim.ia.iabase:IASolverBaseClass._calc_Bkl_cov_matrix_all_l"] = m_B
        it.call(it.getattr(s, "_updateW"), [])
        Wn = it.getattr(s, "_W")
        from pyvc.interp import _det_inv
        for k in range(2):
            adj, det = _det_inv(Bs[k])
            raw = np.dot(np.frompyfunc(lambda x: x / det, 1, 1)(adj), np.dot(H[k, k], F0[k]))
            w = np.asarray(Wn[k], dtype=object)
            goals.append(Goal("receiver %d: filter shape (Nr, Ns)" % k, w.shape == (2, 1)))
            if w.shape != (2, 1):
                continue
            goals.append(Goal("receiver %d: filter parallel to B_kl^-1 H_kk V_kl" % k, cfrac_eq(w[0, 0] * raw[1, 0], w[1, 0] * raw[0, 0])))
            goals.append(Goal("receiver %d: filter has unit norm" % k, frac_eq(sum(_abs2(x) for x in w.flat), 1)))
        return goals
    return verify(body, check_side=False, timeout_ms=120000)


@obligation("lemma/alignment_lean", kind="lemma", tiers=("thorough",), timeout=2400,
            desc="L-ALIGN (Lean 4 + Mathlib, lemmas/Alignment.lean): for square matrices over a field with H31, H32, H12, H23 invertible, "
                 "E = H31^-1 H32 H12^-1 H13 H23^-1 H21 and E v = lambda v, the vectors F2 = H32^-1 H31 v and F3 = H23^-1 H21 v satisfy "
                 "H13 F3 = lambda H12 F2, H23 F3 = H21 v, H32 F2 = H31 v; hence w^H (H12 F2) = 0 implies w^H (H13 F3) = 0")
def ob_lemma_align_lean():
    from pyvc.oblig import lean_lemma
    return lean_lemma("Alignment.lean", 2000)


@obligation("solvers/closed_form", kind="bounded", timeout=600,
            desc="ClosedFormIASolver on random K=3 channels (2x2/1 stream, 4x4/2 streams), scalar/vector powers, then public setter "
                 "histories: unit-norm F, ||full_F||^2 == P, full_W_H H_kk full_F == I, Ns consistent, cross interference nulled (1e-8)")
def ob_closed_form():
    import pyphysim.channels.multiuser as mu
    import pyphysim.ia.algorithms as alg
    r = stable_rng("C10cf")

    def gen():
        for i in range(40 if quick() else 400):
            yield {"seed": int(r.randint(1 << 30)), "n": [2, 4][i % 2], "vecP": bool((i // 2) % 2)}

    def check(case):
        rr = np.random.RandomState(case["seed"])
        n = case["n"]
        ch = mu.MultiUserChannelMatrix()
        ch._RS_channel = np.random.RandomState(case["seed"])
        ch.randomize(n, n, 3)
        ch.noise_var = 1e-3         # noise None/0 with exactly cancelled interference: see solvers/closed_form_without_noise
        s = alg.ClosedFormIASolver(ch)
        P = (rr.rand(3) * 10 + 0.1) if case["vecP"] else float(rr.rand() * 10 + 0.1)
        s.solve(n // 2, P)
        bad = _solver_checks(s, ch, 3, n // 2, P, aligned=True)
        if bad:
            return bad
        # histories through public setters after solve
        for step in range(4):
            w = rr.randint(4)
            if w == 0:
                P = float(rr.rand() * 5 + 0.1)
                s.P = P
            elif w == 1:
                P = rr.rand(3) * 5 + 0.1
                s.P = P
            elif w == 2:
                s.P = None
                P = 1.0
            else:
                Fn = np.empty(3, dtype=object)
                for k in range(3):
                    A = rr.randn(n, n // 2) + 1j * rr.randn(n, n // 2)
                    Fn[k] = A / np.linalg.norm(A, 'fro')
                s.set_precoders(Fn)
            bad = _solver_checks(s, ch, 3, n // 2, P, aligned=False)
            if bad:
                bad["after history step"] = step
                return bad
        return None
    return bounded(gen(), check)


def _iterative(name, exact_power, monotone):
    import pyphysim.channels.multiuser as mu
    import pyphysim.ia.algorithms as alg
    r = stable_rng("C10" + name)

    def gen():
        # strongly unequal powers with 2 requested streams: the iterations starve one stream of the weak user, whose
        # precoder becomes rank deficient and is reduced at the end of solve() (rarely executed branch)
        if name in ("MaxSinrIASolver", "MMSEIASolver"):
            for seed in range(3 if quick() else 12):
                for weak in (0, 1, 2):          # the starved user is the first, a middle or the last one
                    yield {"seed": seed, "n": 4, "init": "random", "P": "wild%d" % weak, "noise": 1e-8 if name == "MaxSinrIASolver" else 0.1,
                           "ns": 2, "full_iterations": True}
        for i in range(30 if quick() else 300):
            yield {"seed": int(r.randint(1 << 30)), "n": int(2 + i % 3), "init": ["random", "closed_form", "alt_min", "svd"][(i // 3) % 4],
                   "P": [1.0, "vec", "wild"][(i // 12) % 3], "noise": [1e-3, 0.1][i % 2], "pathloss": bool(i % 2 == 1)}
        # "every channel ... on which a solver is defined": receive and transmit antenna counts that DIFFER, incl. transmitters with
        # more antennas than there are streams in the network (spare transmit dimensions)
        for j, (nr, nt) in enumerate(((3, 4), (2, 4), (4, 2), (2, 3), (3, 2), (4, 3))):
            for rep in range(1 if quick() else 4):
                yield {"seed": int(r.randint(1 << 30)), "n": nt, "nr": nr, "init": "random", "P": [1.0, "vec"][(j + rep) % 2],
                       "noise": [1e-3, 0.1][j % 2], "ns": 1}

    def check(case):
        rr = np.random.RandomState(case["seed"])
        n = case["n"]
        ns = 1 if n < 4 or rr.rand() < 0.5 else 2
        ns = case.get("ns", ns)
        if name == "MinLeakageIASolver" and ns > 1:
            ns = 1          # Ns >= 2 is the recorded known finding (asserts unit-norm W): see solvers/min_leakage_two_streams
        if name == "MaxSinrIASolver" and ns > 1 and case["init"] == "closed_form":
            ns = 1          # recorded known finding: see solvers/max_sinr_closed_form_init_two_streams
        ch = mu.MultiUserChannelMatrix()
        ch._RS_channel = np.random.RandomState(case["seed"])
        ch.randomize(case.get("nr", n), n, 3)
        if case.get("pathloss"):
            ch.set_pathloss(10 ** rr.uniform(-3, 0, (3, 3)))         # every quantity of the solver is built on the links WITH their path loss
        ch.noise_var = case["noise"]
        cls = getattr(alg, name)
        s = cls(ch)
        s._rs = np.random.RandomState(case["seed"] + 1)
        init = case["init"]
        if init == "closed_form" and n % 2:
            init = "random"
        if name == "AlternatingMinIASolver":
            init = "random"
        if hasattr(s, "initialize_with") and name != "AlternatingMinIASolver":
            s.initialize_with = init
        if not case.get("full_iterations"):
            s.max_iterations = 12
        P = case["P"]
        if isinstance(P, str) and P.startswith("wild") and P[4:].isdigit():
            P = np.roll(np.array([1e-4, 100.8, 230.0]), int(P[4:]))
        elif P == "vec":
            P = rr.rand(3) * 5 + 0.2
        elif P == "wild":
            P = np.array([1e-4, 100.8, 230.0])[rr.permutation(3)]
        costs = []
        if monotone and np.isscalar(P):
            ch.noise_var = None if name == "MinLeakageIASolver" else ch.noise_var
            orig = s._step

            def stepped():
                orig()
                costs.append(float(s.get_cost()))
            s._step = stepped
        # stream counts and powers given as the CALLER's arrays (every second case): they are the caller's - not changed by the solver,
        # and free to be reused afterwards without changing the solution held by the solver
        ns_arg, P_arg = ns, P
        if case["seed"] % 2:
            ns_arg = np.array([ns] * 3, dtype=[int, np.int32, np.int64][case["seed"] % 3])
        if not np.isscalar(P):
            P_arg = np.array(P, dtype=float)          # the caller's own array (P stays the reference for the checks below)
        ns_keep = np.array(ns_arg, copy=True) if isinstance(ns_arg, np.ndarray) else None
        P_keep = np.array(P_arg, copy=True) if isinstance(P_arg, np.ndarray) else None
        try:
            s.solve(ns_arg, P_arg)
        except Exception as e:
            return {"solve did not complete": repr(e)[:200], "Ns": ns, "init": init}
        if ns_keep is not None and not np.array_equal(ns_keep, ns_arg):
            return {"solve changed the caller's stream-count array": [ns_keep.tolist(), np.asarray(ns_arg).tolist()], "init": init}
        if P_keep is not None and not np.array_equal(P_keep, P_arg):
            return {"solve changed the caller's power array": [P_keep.tolist(), np.asarray(P_arg).tolist()], "init": init}
        if ns_keep is not None:
            ns_arg[:] = 7            # the caller reuses its arrays
        if P_keep is not None:
            P_arg[:] = 1e-3
        bad = _solver_checks(s, ch, 3, ns, P, exact_power=exact_power)
        if bad:
            bad.update({"Ns": ns, "init": init})
            return bad
        if costs:
            for a, b in zip(costs, costs[1:]):
                if b > a * (1 + 1e-9) + 1e-12:
                    return {"leakage increased in an iteration": [a, b], "costs": costs[:6]}
        # later power change through the public setter keeps everything consistent
        P2 = float(rr.rand() * 3 + 0.5)
        s.P = P2
        bad = _solver_checks(s, ch, 3, ns, P2, exact_power=True)
        if bad:
            bad["after"] = "P setter"
            return bad
        # continue from the solution found ('fix' initialisation) with another requested power
        if hasattr(s, "initialize_with") and name != "AlternatingMinIASolver" and np.isscalar(case["P"]):
            s.initialize_with = "fix"
            P3 = float(P2 * (4.0 if case["seed"] % 2 else 0.25))
            try:
                s.solve(ns, P3)
            except Exception as e:
                return {"solve with 'fix' initialisation did not complete": repr(e)[:200], "Ns": ns}
            bad = _solver_checks(s, ch, 3, ns, P3, exact_power=exact_power)
            if bad:
                bad["after"] = "solve(Ns, P=%g) continued with initialize_with='fix' from a solution at P=%g" % (P3, P2)
                return bad
        return None
    return bounded(gen(), check)


@obligation("solvers/alternating_min", kind="bounded", timeout=900,
            desc="AlternatingMinIASolver: completes; valid solution; per-iteration leakage (get_cost) never increases for equal powers")
def ob_altmin():
    return _iterative("AlternatingMinIASolver", True, True)


@obligation("solvers/min_leakage", kind="bounded", timeout=900,
            desc="MinLeakageIASolver (1 stream per user): completes; valid solution; per-iteration leakage never increases (equal powers, no noise)")
def ob_minleak():
    return _iterative("MinLeakageIASolver", True, True)


@obligation("solvers/max_sinr", kind="bounded", timeout=900,
            desc="MaxSinrIASolver: completes; unit-norm F, ||full_F||^2 == P (also strongly unequal powers), full filters invert the direct channel")
def ob_maxsinr():
    return _iterative("MaxSinrIASolver", True, False)


@obligation("solvers/mmse", kind="bounded", timeout=900,
            desc="MMSEIASolver: completes; ||full_F||^2 <= P (Lagrange search), full filters invert the direct channel; after a power change == P")
def ob_mmse():
    return _iterative("MMSEIASolver", False, False)


@obligation("solvers/min_leakage_two_streams", kind="bounded",
            desc="MinLeakageIASolver with 2 streams per user on 4x4 channels completes (property: 'solving completes')")
def ob_minleak2():
    import pyphysim.channels.multiuser as mu
    import pyphysim.ia.algorithms as alg

    def check(case):
        ch = mu.MultiUserChannelMatrix()
        ch._RS_channel = np.random.RandomState(case["seed"])
        ch.randomize(4, 4, 3)
        s = alg.MinLeakageIASolver(ch)
        s._rs = np.random.RandomState(case["seed"])
        s.max_iterations = 5
        try:
            s.solve(2)
        except AssertionError as e:
            return {"solve(Ns=2) raised AssertionError in calc_Q_rev (norm(W) == sqrt(Ns) != 1)": True}
        return None
    return bounded([{"seed": 1}, {"seed": 2}], check)


@obligation("solvers/max_sinr_closed_form_init_two_streams", kind="bounded",
            desc="MaxSinrIASolver initialised from the closed-form solution with 2 streams per user on 4x4 channels completes")
def ob_maxsinr_cf2():
    import pyphysim.channels.multiuser as mu
    import pyphysim.ia.algorithms as alg

    def check(case):
        ch = mu.MultiUserChannelMatrix()
        ch._RS_channel = np.random.RandomState(case["seed"])
        ch.randomize(4, 4, 3)
        ch.noise_var = 0.1
        s = alg.MaxSinrIASolver(ch)
        s._rs = np.random.RandomState(case["seed"])
        s.initialize_with = "closed_form"
        s.max_iterations = 5
        try:
            s.solve(2)
        except AssertionError:
            return {"solve(Ns=2, init closed_form) raised AssertionError (norm(W) == sqrt(Ns) != 1 in _calc_Bkl_cov_matrix_first_part_rev)": True}
        return None
    return bounded([{"seed": 1}, {"seed": 2}], check)


@obligation("solvers/closed_form_without_noise", kind="bounded",
            desc="ClosedFormIASolver.solve(1) on 2x2 channels with noise_var None completes (channel seeds 0..999)")
def ob_cf_nonoise():
    import pyphysim.channels.multiuser as mu
    import pyphysim.ia.algorithms as alg

    def check(case):
        ch = mu.MultiUserChannelMatrix()
        ch._RS_channel = np.random.RandomState(case["seed"])
        ch.randomize(2, 2, 3)
        s = alg.ClosedFormIASolver(ch)
        try:
            s.solve(1)
        except ZeroDivisionError:
            return {"solve raised ZeroDivisionError (interference+noise exactly 0 in _calc_SINR_k)": True}
        return None
    return bounded([{"seed": k} for k in range(1000)], check, max_fail=2)


@obligation("solvers/stream_reduction_wrappers", kind="bounded", timeout=900,
            desc="GreedStreamIASolver and BruteForceStreamIASolver around MaxSINR / MMSE / alternating-minimisation on 4x4 K=3 channels with 2 "
                 "requested streams, scalar and vector powers: solving completes and the solution left in the wrapped solver is valid "
                 "(unit-norm F, power met / not exceeded, stream counts consistent with the shapes, full filters invert the direct channel)")
def ob_stream_wrappers():
    import warnings
    import pyphysim.channels.multiuser as mu
    import pyphysim.ia.algorithms as alg

    def gen():
        for seed in range(3 if quick() else 12):
            for inner in ("MaxSinrIASolver", "MMSEIASolver", "AlternatingMinIASolver"):
                for wrap in ("GreedStreamIASolver", "BruteForceStreamIASolver"):
                    for vec in (False, True):
                        yield {"seed": seed, "inner": inner, "wrapper": wrap, "vector_power": vec}

    def check(case):
        seed = case["seed"]
        ch = mu.MultiUserChannelMatrix()
        ch._RS_channel = np.random.RandomState(seed)
        ch.randomize(4, 4, 3)
        ch.noise_var = 0.1
        s = getattr(alg, case["inner"])(ch)
        s._rs = np.random.RandomState(seed + 1)
        s.max_iterations = 20
        w = getattr(alg, case["wrapper"])(s)
        P = np.array([0.5, 1.5, 3.0]) if case["vector_power"] else 1.5
        with warnings.catch_warnings():
            warnings.simplefilter("ignore")
            try:
                w.solve(2, P)
            except Exception as e:
                return {"solve did not complete": repr(e)[:200]}
        return _solver_checks(s, ch, 3, None, P, exact_power=(case["inner"] != "MMSEIASolver"))
    return bounded(gen(), check)
