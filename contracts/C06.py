"""C06  Combining simulation results is independent of how repetitions were grouped.

Functions under contract: Result.__init__/update (+ its four nested updaters)/merge/get_result/get_result_mean/
get_result_var, SimulationResults.merge_all_results/append_result/append_all_results/add_result/add_new_result,
combine_simulation_results, combine_simulation_parameters.
Abstract view of a Result:  V(r) = (value, total, num_updates, sum, sum of squares, value list, total list).
"""
import copy
import itertools

import numpy as np
import z3

from pyvc import sym
from pyvc.sym import lift, frac_eq
from pyvc.interp import SObj, PyRaise
from pyvc.oblig import obligation, verify, bounded, Goal, merge
from .common import stable_rng, quick

LEVEL = "proof"
EXPLANATION = ("Result.update and Result.merge are symbolically executed on Result objects built by the real constructor whose "
               "statistics are then made arbitrary (symbolic) - so the contracts hold for every reachable AND unreachable state: "
               "update adds exactly one observation to the view per type (MISC replaces), merge adds the views (MISC: other wins) "
               "and leaves the operand untouched (frame), update(v,t) == merge(singleton(v,t)) and merge is associative with the "
               "empty result as unit, hence fold(update) is a monoid homomorphism and every chunking/association gives the same "
               "view (lemma L-FOLD, induction over merge plans, machine-checked in Lean 4 in the thorough tier) - additionally executed directly for all chunkings of sequences of length "
               "<= 4 with symbolic observations.  Set level: merge_all_results merges per name and the object graphs of the two "
               "sets stay disjoint (no shared Result / list / array).  Grid union: combine_simulation_results is symbolically executed for "
               "two grids of arbitrary ascending symbolic values (np.union1d runs natively on the symbolic values: one path per ordering and "
               "coincidence pattern) - union grid, per-point merge of exactly the operands that hold the value, operands unchanged; larger "
               "grids / two parameters / mixed dtypes in the bounded native check.")
ASSUMPTIONS = [
    "ideal-real arithmetic for float statistics (float + is not associative); integer statistics exact",
    "lemma L-FOLD (singleton + associativity + right unit => every merge plan over contiguous chunks gives the view of one result "
    "updated with the whole sequence; without the unit for plans whose chunks are non-empty, as for MISC) is the induction over "
    "the proved obligations: machine-checked in Lean 4 (lemmas/FoldChunking.lean) in the thorough tier, assumed in the quick tier",
    "combine_simulation_results/parameters: proved for one unpacked parameter and grid sizes up to 3 x 2 (values symbolic); "
    "two unpacked parameters, mixed dtypes and larger grids only in the bounded native check",
]
TRUSTED_BASE = ["python list/dict semantics and copy.deepcopy executed natively on the symbolic object graph"]
BOUNDS = {"sequence_length": 4, "choice_num": 3, "list_lengths": [0, 1, 2]}

RES = "pyphysim.simulations.results"
TYPES = {"SUM": 0, "RATIO": 1, "MISC": 2, "CHOICE": 3}
STAT = ("_value", "_total", "_result_sum", "_result_squared_sum", "num_updates")


def _R():
    import pyphysim.simulations.results as r
    return r.Result


def _new(it, typ, acc=False, name="r"):
    R = _R()
    code = getattr(R, typ + "TYPE")
    if typ == "CHOICE":
        return it.call(R, [name, code, acc, 3])
    return it.call(R, [name, code, acc])


def _havoc(c, it, o, typ, tag, nlist=1):
    """arbitrary state of a Result (same frame as the constructor produces)"""
    frame = {"name", "_update_type_code", "_value", "_total", "_result_sum", "_result_squared_sum", "num_updates",
             "_accumulate_values_bool", "_value_list", "_total_list"}
    if frame - set(o.fields):
        from pyvc.oblig import Inapplicable
        raise Inapplicable("Result fields %s" % sorted(set(o.fields) ^ frame))
    # fields the contract does not know (derived/cached state added to the class) keep the value the constructor gave them: the
    # arbitrary state is "any observations so far, nothing derived from them read yet"; the histories below then read the public
    # statistics BEFORE and AFTER each operation, so anything derived has to follow the observations
    if typ == "CHOICE":
        v = np.empty(3, dtype=object)
        for i in range(3):
            v[i] = c.var("%s_val%d" % (tag, i), "int")
            c.assume(v[i] >= 0)
        o.fields["_value"] = v
        o.fields["_total"] = c.var(tag + "_total", "int")
    elif typ == "MISC":
        o.fields["_value"] = c.var(tag + "_val", "real")
        o.fields["_total"] = 0
    else:
        o.fields["_value"] = c.var(tag + "_val", "real")
        o.fields["_total"] = c.var(tag + "_total", "real")
    o.fields["_result_sum"] = c.var(tag + "_sum", "real")
    o.fields["_result_squared_sum"] = c.var(tag + "_sq", "real")
    o.fields["num_updates"] = c.var(tag + "_n", "int")
    c.assume(o.fields["num_updates"] >= 0)
    if o.fields["_accumulate_values_bool"]:
        o.fields["_value_list"] = [c.var("%s_vl%d" % (tag, i), "real") for i in range(nlist)]
        o.fields["_total_list"] = [c.var("%s_tl%d" % (tag, i), "real") for i in range(nlist)] if typ == "RATIO" else []
    return o


def _snap(o):
    f = o.fields
    v = f["_value"]
    return {"_value": (list(v) if isinstance(v, np.ndarray) else v), "_total": f["_total"], "_result_sum": f["_result_sum"],
            "_result_squared_sum": f["_result_squared_sum"], "num_updates": f["num_updates"],
            "_value_list": list(f["_value_list"]), "_total_list": list(f["_total_list"]),
            "ids": (id(f["_value_list"]), id(f["_total_list"]), id(v))}


def _eq(a, b):
    """symbolic equality of two snapshots / values -> z3 Bool"""
    if isinstance(a, dict):
        return z3.And([_eq(a[k], b[k]) for k in a if k != "ids"])
    if isinstance(a, (list, tuple)):
        if len(a) != len(b):
            return z3.BoolVal(False)
        return z3.And([_eq(x, y) for x, y in zip(a, b)]) if a else z3.BoolVal(True)
    r = (lift(a) == lift(b)) if (sym.is_sym(a) or sym.is_sym(b)) else (a == b)
    return r.t if isinstance(r, sym.SBool) else z3.BoolVal(bool(r))


def _read_stats(it, o):
    """the public statistics of a Result (mean, variance) as reported now; None where the update count may be zero"""
    return it.call(it.getattr(o, "get_result_mean"), []), it.call(it.getattr(o, "get_result_var"), [])


def _stats_goals(c, it, o, tag):
    """mean == sum/n and var == sq/n - mean^2 of the CURRENT fields, read through the public getters (division-free form)"""
    f = o.fields
    n, sm, sq = lift(f["num_updates"]), lift(f["_result_sum"]), lift(f["_result_squared_sum"])
    mean, var = _read_stats(it, o)
    return [Goal("[%s] get_result_mean() * n == sum of the current observations" % tag, lift(mean) * n == sm),
            Goal("[%s] get_result_var() * n^2 == n * squared sum - sum^2 of the current observations" % tag, lift(var) * n * n == n * sq - sm * sm)]


def _eqv(a, b, typ):
    """views equal in what the property claims: everything for SUM/RATIO/CHOICE; for MISC only 'the last observation wins'"""
    if typ == "MISC":
        return _eq(a["_value"], b["_value"])
    return _eq(a, b)


def _obs(c, typ, tag):
    if typ == "CHOICE":
        v = c.var(tag + "_choice", "int")
        c.assume((v >= 0) & (v < 3))
        return v, None
    v = c.var(tag + "_v", "real")
    if typ == "RATIO":
        t = c.var(tag + "_t", "real")
        c.assume(t > 0)
        return v, t
    return v, None


def _plus_obs(s0, typ, v, t, acc):
    """spec: view after one more observation"""
    s = dict(s0)
    s["num_updates"] = s0["num_updates"] + 1
    if typ == "SUM":
        s["_value"], s["_result_sum"], s["_result_squared_sum"] = s0["_value"] + v, s0["_result_sum"] + v, s0["_result_squared_sum"] + v * v
    elif typ == "RATIO":
        s["_value"], s["_total"] = s0["_value"] + v, s0["_total"] + t
        s["_result_sum"], s["_result_squared_sum"] = s0["_result_sum"] + v / t, s0["_result_squared_sum"] + (v / t) * (v / t)
    elif typ == "MISC":
        s["_value"] = v
    else:
        s["_value"] = [sym.ite(v == i, x + 1, x) for i, x in enumerate(s0["_value"])]
        s["_total"] = s0["_total"] + 1
    if acc:
        s["_value_list"] = s0["_value_list"] + [v]
        if typ == "RATIO":
            s["_total_list"] = s0["_total_list"] + [t]
    return s


def _plus_view(a, b, typ, acc):
    """spec: merged view"""
    s = dict(a)
    if typ == "MISC":
        for k in STAT:
            s[k] = b[k]
    else:
        for k in STAT:
            if isinstance(a[k], list):
                s[k] = [x + y for x, y in zip(a[k], b[k])]
            else:
                s[k] = a[k] + b[k]
    if acc:
        s["_value_list"] = a["_value_list"] + b["_value_list"]
        s["_total_list"] = a["_total_list"] + b["_total_list"]
    return s


@obligation("result/update_adds_one_observation", params=[{"typ": t, "acc": a} for t in TYPES for a in (False, True)],
            desc="from ANY state: update(v[,t]) yields exactly view + one observation (MISC: value replaced); RATIO without total "
                 "raises ValueError; CHOICE index must be an int")
def ob_update(typ, acc):
    def body(c, it):
        o = _havoc(c, it, _new(it, typ, acc), typ, "a")
        s0 = _snap(o)
        v, t = _obs(c, typ, "o")
        c.inputs.update(v=v, t=t)
        if typ in ("SUM", "RATIO"):
            c.assume(o.fields["num_updates"] >= 1)
            _read_stats(it, o)              # history: the statistics were asked for before the new observation arrives
        it.call(it.getattr(o, "update"), [v] + ([t] if t is not None else []))
        goals = [Goal("view' == view + obs", sym.SBool(_eq(_snap(o), _plus_obs(s0, typ, v, t, acc))))]
        if typ in ("SUM", "RATIO"):
            goals += _stats_goals(c, it, o, "after update")
        if typ == "RATIO":
            o2 = _havoc(c, it, _new(it, typ, acc), typ, "b")
            try:
                it.call(it.getattr(o2, "update"), [v])
                goals.append(Goal("RATIO update without total raises", False))
            except PyRaise as pr:
                goals.append(Goal("RATIO update without total raises ValueError", isinstance(pr.exc, ValueError)))
        return goals
    return verify(body)


@obligation("result/merge_adds_views_and_frames_operand", params=[{"typ": t, "acc": a} for t in TYPES for a in (False, True)],
            desc="from ANY two states: self.merge(other) yields view(self)+view(other) (MISC: other wins) and leaves `other` "
                 "unchanged, sharing no list/array with it afterwards")
def ob_merge(typ, acc):
    def rp(model):
        """statistics read, merge, statistics read again on real objects with generic observations"""
        try:
            R = _R()
            rr = np.random.RandomState(8)
            code = getattr(R, typ + "TYPE")
            mk = (lambda nm: R(nm, code, acc, 3)) if typ == "CHOICE" else (lambda nm: R(nm, code, acc))
            a, b = mk("r"), mk("r")
            obs = {"a": [], "b": []}
            for o, key, n in ((a, "a", 3), (b, "b", 4)):
                for _ in range(n):
                    if typ == "CHOICE":
                        v = int(rr.randint(3))
                        o.update(v)
                    elif typ == "RATIO":
                        v, t = float(rr.randint(0, 5)), float(rr.randint(5, 9))
                        o.update(v, t)
                        v = v / t
                    else:
                        v = float(rr.randn())
                        o.update(v)
                    obs[key].append(v)
            if typ in ("SUM", "RATIO"):
                a.get_result_mean(), a.get_result_var(), b.get_result_mean(), b.get_result_var()
            a.merge(b)
            if typ in ("SUM", "RATIO"):
                both = np.array(obs["a"] + obs["b"])
                for nm, o, x in (("self", a, both), ("operand", b, np.array(obs["b"]))):
                    want_m, want_v = float(x.mean()), float((x ** 2).mean() - x.mean() ** 2)
                    if (not (abs(o.get_result_mean() - want_m) <= 1e-12)) or (not (abs(o.get_result_var() - want_v) <= 1e-12)):
                        return {"confirmed": True, "object": nm + " after merge (statistics had been read before)", "type": typ,
                                "mean, variance reported": [float(o.get_result_mean()), float(o.get_result_var())],
                                "mean, variance of the observations": [want_m, want_v]}
            if typ != "MISC" and (a.num_updates != 7 or b.num_updates != 4):
                return {"confirmed": True, "num_updates": [int(a.num_updates), int(b.num_updates)], "expected": [7, 4]}
            return {"confirmed": False, "note": "real objects merge generic observations as specified (incl. statistics read before and after)"}
        except Exception as e:
            return {"confirmed": False, "error": "replay crashed: %r" % (e,)}

    def body(c, it):
        a = _havoc(c, it, _new(it, typ, acc), typ, "a", 1)
        b = _havoc(c, it, _new(it, typ, acc), typ, "b", 2)
        sa, sb = _snap(a), _snap(b)
        if typ in ("SUM", "RATIO"):
            c.assume((a.fields["num_updates"] >= 1) & (b.fields["num_updates"] >= 1))
            _read_stats(it, a)              # history: statistics of both operands were read before the merge
            _read_stats(it, b)
        it.call(it.getattr(a, "merge"), [b])
        sa2, sb2 = _snap(a), _snap(b)
        more = (_stats_goals(c, it, a, "self after merge") + _stats_goals(c, it, b, "operand after merge")) if typ in ("SUM", "RATIO") else []
        goals = more + [Goal("view(self)' == view(self) + view(other)", sym.SBool(_eq(sa2, _plus_view(sa, sb, typ, acc)))),
                 Goal("other unchanged", sym.SBool(_eq(sb2, sb))),
                 Goal("other's containers are the same objects, not shared with self",
                      sb2["ids"] == sb["ids"] and not (set(i for i in sa2["ids"] if True) & set(sb2["ids"][:2])))]
        if typ == "CHOICE":
            goals.append(Goal("choice array not aliased", a.fields["_value"] is not b.fields["_value"]))
            # mutate self afterwards: other must not move
            it.call(it.getattr(a, "update"), [1])
            goals.append(Goal("later update of self leaves other unchanged", sym.SBool(_eq(_snap(b), sb))))
        return goals
    return verify(body, replay=rp)


@obligation("result/monoid_laws", params=[{"typ": t, "acc": a} for t in TYPES for a in (False, True)],
            desc="update(v,t) == merge(fresh singleton); merge associative; empty result is a right unit; => (L-FOLD) fold(update) is a "
                 "monoid homomorphism, every chunking/association gives the same view")
def ob_monoid(typ, acc):
    def body(c, it):
        goals = []
        # singleton
        a1 = _havoc(c, it, _new(it, typ, acc), typ, "a", 1)
        a2 = copy.deepcopy(a1)
        v, t = _obs(c, typ, "o")
        args = [v] + ([t] if t is not None else [])
        it.call(it.getattr(a1, "update"), args)
        single = _new(it, typ, acc)
        it.call(it.getattr(single, "update"), args)
        it.call(it.getattr(a2, "merge"), [single])
        goals.append(Goal("update == merge of a singleton", sym.SBool(_eqv(_snap(a1), _snap(a2), typ))))
        # associativity
        A = _havoc(c, it, _new(it, typ, acc), typ, "A", 1)
        B = _havoc(c, it, _new(it, typ, acc), typ, "B", 2)
        C = _havoc(c, it, _new(it, typ, acc), typ, "C", 0)
        A2, B2, C2 = copy.deepcopy(A), copy.deepcopy(B), copy.deepcopy(C)
        it.call(it.getattr(A, "merge"), [B])
        it.call(it.getattr(A, "merge"), [C])
        it.call(it.getattr(B2, "merge"), [C2])
        it.call(it.getattr(A2, "merge"), [B2])
        goals.append(Goal("(A+B)+C == A+(B+C)", sym.SBool(_eqv(_snap(A), _snap(A2), typ))))
        # unit
        if typ != "MISC":
            U = _havoc(c, it, _new(it, typ, acc), typ, "U", 1)
            s0 = _snap(U)
            it.call(it.getattr(U, "merge"), [_new(it, typ, acc)])
            goals.append(Goal("A + empty == A", sym.SBool(_eq(_snap(U), s0))))
        return goals
    return verify(body)


def _chunkings(n):
    out = []
    for k in range(0, n):
        for cuts in itertools.combinations(range(1, n), k):
            b = [0] + list(cuts) + [n]
            out.append([list(range(b[i], b[i + 1])) for i in range(len(b) - 1)])
    return out


@obligation("result/chunking_independence_direct", params=[{"typ": t, "acc": a, "n": n, "_tiers": ("thorough",) if (t == "CHOICE" and n == 4) else ("quick", "thorough")}
                    for t in TYPES for a in (False, True) for n in (3, 4)],
            timeout=600,
            desc="n symbolic observations: one object updated n times vs every split into contiguous chunks merged left-to-right and "
                 "right-to-left: same value/total/num_updates/sum/squares/lists and same get_result/mean/var")
def ob_chunks(typ, acc, n):
    def body(c, it):
        obs = [_obs(c, typ, "o%d" % i) for i in range(n)]
        whole = _new(it, typ, acc)
        for v, t in obs:
            it.call(it.getattr(whole, "update"), [v] + ([t] if t is not None else []))
        sw = _snap(whole)
        goals = []
        for ch in _chunkings(n):
            for order in ("left", "right"):
                parts = []
                for idxs in ch:
                    r = _new(it, typ, acc)
                    for i in idxs:
                        v, t = obs[i]
                        it.call(it.getattr(r, "update"), [v] + ([t] if t is not None else []))
                    parts.append(r)
                if order == "left":
                    acc_r = parts[0]
                    for p in parts[1:]:
                        it.call(it.getattr(acc_r, "merge"), [p])
                else:
                    acc_r = parts[-1]
                    for p in reversed(parts[:-1]):
                        it.call(it.getattr(p, "merge"), [acc_r])
                        acc_r = p
                goals.append(Goal("chunks %s merged %s" % (ch, order), sym.SBool(_eqv(_snap(acc_r), sw, typ))))
                if typ != "MISC":
                    g1 = it.call(it.getattr(acc_r, "get_result_mean"), [])
                    g2 = it.call(it.getattr(whole, "get_result_mean"), [])
                    v1 = it.call(it.getattr(acc_r, "get_result_var"), [])
                    v2 = it.call(it.getattr(whole, "get_result_var"), [])
                    goals.append(Goal("mean/var %s %s" % (ch, order), (lift(g1) == g2) & (lift(v1) == v2)))
        return goals
    return verify(body, timeout_ms=60000, check_side=False)


def _reach(o, acc=None):
    """ids of mutable objects reachable from a SimulationResults / Result graph"""
    acc = acc if acc is not None else {}
    if isinstance(o, SObj):
        if id(o) in acc:
            return acc
        acc[id(o)] = o
        for v in o.fields.values():
            _reach(v, acc)
    elif isinstance(o, (list, dict, np.ndarray)):
        if id(o) in acc:
            return acc
        acc[id(o)] = o
        it = o.values() if isinstance(o, dict) else (o.flat if isinstance(o, np.ndarray) else o)
        if not (isinstance(o, np.ndarray) and o.dtype != object):
            for v in it:
                _reach(v, acc)
    return acc


@obligation("result/reported_value_mean_variance_of_the_view", params=[{"typ": t} for t in ("SUM", "RATIO", "CHOICE", "MISC")],
            desc="the observable statistics are functions of the abstract view, from an ARBITRARY state: get_result() is the value (sum, misc), "
                 "value / total (ratio; choice: per-choice frequencies) and 'Nothing yet' before the first update; get_result_mean() == "
                 "result_sum / updates; get_result_var() == squared_sum / updates - mean^2 (cross-multiplied; updates > 0); and after one more "
                 "update / a merge they are the same functions of the new view")
def ob_reported_statistics(typ):
    def body(c, it):
        acc = False
        o = _havoc(c, it, _new(it, typ, acc, "x"), typ, "A", 1)
        n = o.fields["num_updates"]
        goals = []
        got = it.call(it.getattr(o, "get_result"), [])
        if isinstance(got, str):
            goals.append(Goal("'Nothing yet' exactly when nothing was observed", (got == "Nothing yet") and bool(c.prove(lift(n) == 0)[0] == "proved")))
            return goals
        goals.append(Goal("a value is reported only after at least one update", lift(n) > 0))
        v, t = o.fields["_value"], o.fields["_total"]
        if typ in ("SUM", "MISC"):
            goals.append(Goal("get_result() == value", lift(got) == lift(v)))
        elif typ == "RATIO":
            goals.append(Goal("get_result() == value / total (cross-multiplied)", frac_eq(lift(got) * lift(t), lift(v))))
        else:
            g = np.asarray(got, dtype=object)
            goals.append(Goal("get_result() == per-choice counts / total", g.shape == np.shape(v) and
                              sym.SBool(z3.And([frac_eq(lift(g[i]) * lift(t), lift(v[i])).t for i in range(len(v))]))))
        if typ != "MISC":
            mean = it.call(it.getattr(o, "get_result_mean"), [])
            var = it.call(it.getattr(o, "get_result_var"), [])
            S1, S2 = o.fields["_result_sum"], o.fields["_result_squared_sum"]
            goals.append(Goal("mean * updates == result_sum", frac_eq(lift(mean) * lift(n), lift(S1))))
            goals.append(Goal("variance == squared_sum / updates - mean^2 (times updates^2)",
                              frac_eq(lift(var) * lift(n) * lift(n), lift(S2) * lift(n) - lift(S1) * lift(S1))))
        return goals
    return verify(body, check_side=False)


@obligation("set/merge_all_results_per_name_and_separate", params=[{"typ": t, "acc": a} for t in ("SUM", "RATIO", "CHOICE") for a in (False, True)],
            desc="A.merge_all_results(B) for empty and non-empty A: per-name view is the merge, B and C are never changed by "
                 "later merges/updates of A (no aliasing that matters)")
def ob_set_merge(typ, acc):
    def body(c, it):
        import pyphysim.simulations.results as r
        goals = []

        def mkset(tag, nlist):
            s = it.call(r.SimulationResults, [])
            res = _havoc(c, it, _new(it, typ, acc, "x"), typ, tag, nlist)
            it.call(it.getattr(s, "add_result"), [res])
            return s, res
        A = it.call(r.SimulationResults, [])
        B, rb = mkset("B", 1)
        C, rc = mkset("C", 2)
        sb, sc = _snap(rb), _snap(rc)
        it.call(it.getattr(A, "merge_all_results"), [B])
        ra = it.call(it.getattr(A, "__getitem__"), ["x"])[-1]
        goals.append(Goal("empty A: A['x'] has B's view", sym.SBool(_eq(_snap(ra), sb))))
        goals.append(Goal("empty A: the Result object itself is not shared", ra is not rb))
        it.call(it.getattr(A, "merge_all_results"), [C])
        ra = it.call(it.getattr(A, "__getitem__"), ["x"])[-1]
        goals.append(Goal("then merging C: view(A) == view(B)+view(C)", sym.SBool(_eq(_snap(ra), _plus_view(sb, sc, typ, acc)))))
        goals.append(Goal("B unchanged by the later merge", sym.SBool(_eq(_snap(rb), sb))))
        goals.append(Goal("C unchanged", sym.SBool(_eq(_snap(rc), sc))))
        # one more round: update A's result directly and merge B again - the operands must still not move
        v, t = _obs(c, typ, "late")
        it.call(it.getattr(ra, "update"), [v] + ([t] if t is not None else []))
        goals.append(Goal("B, C unchanged by a later update of A's result",
                          sym.SBool(z3.And(_eq(_snap(rb), sb), _eq(_snap(rc), sc)))))
        return goals
    return verify(body)


@obligation("set/merge_all_results_after_appending_variations", params=[{"typ": t} for t in ("SUM", "RATIO", "CHOICE")],
            desc="history on one SimulationResults: results for two parameter variations are appended under one name, then a single-valued "
                 "set is merged in with merge_all_results: the repetition is accumulated into the LAST stored result (the variation being "
                 "simulated - this is how the runner uses it), the earlier variation's result and the operand are unchanged; then a third "
                 "variation is appended and merged likewise")
def ob_set_merge_variations(typ):
    def body(c, it):
        import pyphysim.simulations.results as r
        acc = False
        A = it.call(r.SimulationResults, [])
        first = _havoc(c, it, _new(it, typ, acc, "x"), typ, "V1", 1)
        second = _havoc(c, it, _new(it, typ, acc, "x"), typ, "V2", 1)
        it.call(it.getattr(A, "append_result"), [first])
        it.call(it.getattr(A, "append_result"), [second])
        B = it.call(r.SimulationResults, [])
        rb = _havoc(c, it, _new(it, typ, acc, "x"), typ, "B", 1)
        it.call(it.getattr(B, "add_result"), [rb])
        s1, s2, sb = _snap(first), _snap(second), _snap(rb)
        it.call(it.getattr(A, "merge_all_results"), [B])
        lst = it.call(it.getattr(A, "__getitem__"), ["x"])
        goals = [Goal("still two results under the name", len(lst) == 2)]
        if len(lst) != 2:
            return goals
        goals.append(Goal("the last stored result accumulated the operand", sym.SBool(_eq(_snap(lst[-1]), _plus_view(s2, sb, typ, acc)))))
        goals.append(Goal("the earlier variation is unchanged", sym.SBool(_eq(_snap(lst[0]), s1))))
        goals.append(Goal("operand unchanged", sym.SBool(_eq(_snap(rb), sb))))
        third = _havoc(c, it, _new(it, typ, acc, "x"), typ, "V3", 1)
        s3 = _snap(third)
        it.call(it.getattr(A, "append_result"), [third])
        it.call(it.getattr(A, "merge_all_results"), [B])
        lst = it.call(it.getattr(A, "__getitem__"), ["x"])
        goals.append(Goal("after a third variation: three results", len(lst) == 3))
        if len(lst) == 3:
            goals.append(Goal("third variation accumulated the operand", sym.SBool(_eq(_snap(lst[2]), _plus_view(s3, sb, typ, acc)))))
            goals.append(Goal("first and second untouched by the second merge",
                              sym.SBool(z3.And(_eq(_snap(lst[0]), s1), _eq(_snap(lst[1]), _plus_view(s2, sb, typ, acc))))))
        return goals

    def replay(mv):
        from pyphysim.simulations.results import Result, SimulationResults
        try:
            A = SimulationResults()
            for base in (10, 20):
                x = Result("x", Result.SUMTYPE)
                x.update(base)
                A.append_result(x)
            B = SimulationResults()
            y = Result("x", Result.SUMTYPE)
            y.update(5)
            B.add_result(y)
            A.merge_all_results(B)
            got = [(q.get_result(), q.num_updates) for q in A["x"]]
            want = [(10, 1), (25, 2)]
            return {"confirmed": got != want, "history": "append x=10, append x=20, merge_all_results({x: 5})",
                    "(value, num_updates) per stored result": got, "expected": want}
        except Exception as e:
            return {"confirmed": True, "observed": "raised %r" % (e,)}
    return verify(body, replay=replay)


@obligation("set/merge_all_results_every_name_exactly_once", params=[{"empty_self": e} for e in (False, True)],
            desc="A.merge_all_results(B) where both sets hold the results the runner produces - a user result 'x' AND the "
                 "'num_skipped_reps' counter (havocked SUM results): every name of B is merged into A exactly once (view(A[name]) == "
                 "view(A[name]) + view(B[name]) for both names, update counts add), also when A is empty (everything of B is taken over); B unchanged")
def ob_set_merge_every_name(empty_self):
    def body(c, it):
        import pyphysim.simulations.results as r
        acc = False
        A = it.call(r.SimulationResults, [])
        B = it.call(r.SimulationResults, [])
        ra, rb = {}, {}
        names = ("x", "num_skipped_reps")
        for nm in names:
            if not empty_self:
                ra[nm] = _havoc(c, it, _new(it, "SUM", acc, nm), "SUM", "A_" + nm, 1)
                it.call(it.getattr(A, "add_result"), [ra[nm]])
            rb[nm] = _havoc(c, it, _new(it, "SUM", acc, nm), "SUM", "B_" + nm, 1)
            it.call(it.getattr(B, "add_result"), [rb[nm]])
        sa = {k: _snap(v) for k, v in ra.items()}
        sb = {k: _snap(v) for k, v in rb.items()}
        it.call(it.getattr(A, "merge_all_results"), [B])
        goals = []
        for nm in names:
            got = it.call(it.getattr(A, "__getitem__"), [nm])[-1]
            want = sb[nm] if empty_self else _plus_view(sa[nm], sb[nm], "SUM", acc)
            goals.append(Goal("%r merged exactly once" % nm, sym.SBool(_eq(_snap(got), want))))
            goals.append(Goal("operand %r unchanged" % nm, sym.SBool(_eq(_snap(rb[nm]), sb[nm]))))
        return goals

    def replay(mv):
        from pyphysim.simulations.results import Result, SimulationResults
        try:
            def mk(x, sk):
                S = SimulationResults()
                S.add_new_result("x", Result.SUMTYPE, x)
                S.add_new_result("num_skipped_reps", Result.SUMTYPE, sk)
                return S
            A, B = (SimulationResults(), mk(5, 3)) if empty_self else (mk(2, 1), mk(5, 3))
            A.merge_all_results(B)
            got = {n: (A[n][-1].get_result(), A[n][-1].num_updates) for n in ("x", "num_skipped_reps")}
            want = {"x": (5, 1), "num_skipped_reps": (3, 1)} if empty_self else {"x": (7, 2), "num_skipped_reps": (4, 2)}
            return {"confirmed": got != want, "history": "A = {x: 2, num_skipped_reps: 1}%s, B = {x: 5, num_skipped_reps: 3}; A.merge_all_results(B)" % (" (empty)" if empty_self else ""),
                    "(value, updates) per name": {k: list(v) for k, v in got.items()}, "expected": {k: list(v) for k, v in want.items()}}
        except Exception as e:
            return {"confirmed": False, "error": "replay crashed: %r" % (e,)}
    return verify(body, replay=replay)


@obligation("set/combine_overlapping_grids_symbolic_values", params=[{"typ": t, "la": la, "lb": lb} for t, la, lb in
                                                                    (("SUM", 2, 2), ("RATIO", 2, 1), ("CHOICE", 1, 2), ("SUM", 3, 2))]
            + [{"typ": "SUM", "la": 2, "lb": 2, "order": "any"}, {"typ": "RATIO", "la": 3, "lb": 1, "order": "any"}],
            timeout=300,
            desc="combine_simulation_results(S1, S2) symbolically executed (combine_simulation_parameters, np.union1d natively on the symbolic "
                 "values - one path per ordering/coincidence pattern -, get_unpacked_params_list, get_pack_indexes incl. its eval'd index "
                 "expression, Result.merge) for grids of ARBITRARY ascending real values (order=any: pairwise distinct values stored in "
                 "ANY order, e.g. SNR = [10, 0, 5], both operands possibly on the same grid) and results in arbitrary states: the union grid is "
                 "the ascending duplicate-free union; each union point holds exactly empty + view of S1's result for that value (if S1 has "
                 "it) + S2's (if S2 has it); operands unchanged")
def ob_combine_symbolic(typ, la, lb, order="asc"):
    def body(c, it):
        import pyphysim.simulations.results as r
        from pyphysim.simulations.parameters import SimulationParameters
        acc = False

        def mk(tag, n):
            vals = [c.var("%s%d" % (tag, i), "real") for i in range(n)]
            for i in range(n - 1):
                if order == "asc":
                    c.assume(vals[i] < vals[i + 1])
                else:
                    for j in range(i + 1, n):
                        c.assume(vals[i] != vals[j])
            arr = np.empty(n, dtype=object)
            for i, v in enumerate(vals):
                arr[i] = v
            p = SimulationParameters.create({"snr": arr, "fixed": 7})
            p.set_unpack_parameter("snr")
            S = it.call(r.SimulationResults, [])
            it.call(it.getattr(S, "set_parameters"), [p])
            rs = []
            for i in range(n):
                res = _havoc(c, it, _new(it, typ, acc, "x"), typ, "%s%d" % (tag.upper(), i), 1)
                it.call(it.getattr(S, "append_result"), [res])
                rs.append(res)
            return S, vals, rs
        S1, va, ra = mk("a", la)
        S2, vb, rb = mk("b", lb)
        c.inputs.update(grid1=list(va), grid2=list(vb))
        snaps = [_snap(x) for x in ra + rb]
        empty = _snap(_new(it, typ, acc, "x"))
        U = it.call(r.combine_simulation_results, [S1, S2])
        up = it.getattr(U, "params")
        grid = list(np.asarray(it.call(it.getattr(up, "__getitem__"), ["snr"]), dtype=object).ravel())
        res_u = it.call(it.getattr(U, "__getitem__"), ["x"])
        goals = [Goal("one result per union point", len(res_u) == len(grid))]
        if len(res_u) != len(grid):
            return goals
        asc = sym.SBool(z3.And([(lift(grid[i]) < lift(grid[i + 1])).t for i in range(len(grid) - 1)]))
        goals.append(Goal("union grid strictly ascending (no duplicates)", asc))
        for v in va + vb:
            goals.append(Goal("every operand value is in the union grid", sym.SBool(z3.Or([(lift(g) == v).t for g in grid]))))
        for g in grid:
            goals.append(Goal("every union value comes from an operand", sym.SBool(z3.Or([(lift(g) == v).t for v in va + vb]))))
        for k, g in enumerate(grid):
            want = empty
            for vals, rs, off in ((va, ra, 0), (vb, rb, la)):
                for i, v in enumerate(vals):
                    if c.prove(lift(g) == v, timeout_ms=5000)[0] == "proved":
                        want = _plus_view(want, snaps[off + i], typ, acc)
                    elif c.prove(lift(g) != v, timeout_ms=5000)[0] != "proved":
                        goals.append(Goal("coincidence of union point %d with an operand value is decided on this path" % k, False))
            goals.append(Goal("union point %d: view == empty + matching operand results" % k, sym.SBool(_eqv(_snap(res_u[k]), want, typ))))
        for x, s0 in zip(ra + rb, snaps):
            goals.append(Goal("operand result unchanged", sym.SBool(_eq(_snap(x), s0))))
        return goals

    def replay(mv):
        # native: the counter-model's grids, SUM results with distinguishable contents
        from pyphysim.simulations.results import Result, SimulationResults, combine_simulation_results
        from pyphysim.simulations.parameters import SimulationParameters
        try:
            g1, g2 = [float(x) for x in mv["grid1"]], [float(x) for x in mv["grid2"]]
            if len(set(g1)) != len(g1) or len(set(g2)) != len(g2) or (order == "asc" and (sorted(g1) != g1 or sorted(g2) != g2)):
                return {"confirmed": False, "note": "model grid not in the domain in binary64", "grid1": g1, "grid2": g2}

            def build(g, base):
                p = SimulationParameters.create({"snr": np.array(g), "fixed": 7})
                p.set_unpack_parameter("snr")
                S = SimulationResults()
                S.set_parameters(p)
                for i in range(len(g)):
                    res = Result("x", Result.SUMTYPE)
                    for _ in range(i + 1):
                        res.update(base + i)
                    S.append_result(res)
                return S
            S1, S2 = build(g1, 100), build(g2, 1000)
            try:
                U = combine_simulation_results(S1, S2)
            except Exception as e:
                return {"confirmed": True, "grid1": g1, "grid2": g2, "observed": "raised %r" % e}
            grid = [float(x) for x in U.params["snr"]]
            want_grid = sorted(set(g1) | set(g2))
            got = [(x.get_result(), x.num_updates) for x in U["x"]]
            want = []
            for v in want_grid:
                val, n = 0, 0
                for g, base in ((g1, 100), (g2, 1000)):
                    if v in g:
                        i = g.index(v)
                        val, n = val + (base + i) * (i + 1), n + i + 1
                want.append((val, n))
            return {"confirmed": grid != want_grid or got != want, "grid1": g1, "grid2": g2, "union_grid": grid,
                    "expected_union_grid": want_grid, "(value, num_updates) per union point": got, "expected": want}
        except Exception as e:
            return {"confirmed": False, "error": repr(e)}
    return verify(body, max_paths=150 if order == "asc" else 600, replay=replay)


# ------------------------------------------------------------------ bounded / native
@obligation("native/random_histories", kind="bounded", timeout=900,
            desc="binary64/native: random update sequences (len<=40) of all four types, accumulate on/off, random contiguous "
                 "chunkings and random merge trees, through Result and through SimulationResults.merge_all_results (empty and "
                 "non-empty accumulator): same value/total/num_updates/mean/var (rel 1e-9), lists equal, operands never mutated")
def ob_native():
    from pyphysim.simulations.results import Result, SimulationResults
    r = stable_rng("C06native")

    def gen():
        for i in range(200 if quick() else 3000):
            yield {"typ": ["SUM", "RATIO", "MISC", "CHOICE"][i % 4], "acc": bool((i // 4) % 2), "n": int(r.randint(1, 40)),
                   "seed": int(r.randint(1 << 30)), "via_set": bool((i // 8) % 2)}

    def mk(typ, acc):
        code = getattr(Result, typ + "TYPE")
        return Result("x", code, acc, choice_num=5) if typ == "CHOICE" else Result("x", code, acc)

    def upd(res, typ, ob):
        if typ == "RATIO":
            res.update(ob[0], ob[1])
        else:
            res.update(ob[0])

    def view(res):
        v = res._value
        return (np.array(v, dtype=float).tolist() if isinstance(v, np.ndarray) else v, res._total, res.num_updates,
                res._result_sum, res._result_squared_sum, list(res._value_list), list(res._total_list))

    def close(a, b):
        if isinstance(a, (list, tuple)):
            return len(a) == len(b) and all(close(x, y) for x, y in zip(a, b))
        if isinstance(a, float) or isinstance(b, float):
            return abs(a - b) <= 1e-9 * max(1.0, abs(a), abs(b))
        return a == b

    def check(case):
        rr = np.random.RandomState(case["seed"])
        typ, acc, n = case["typ"], case["acc"], case["n"]
        if typ == "CHOICE":
            obs = [(int(rr.randint(5)), None) for _ in range(n)]
        elif typ == "RATIO":
            obs = [(int(rr.randint(0, 50)), int(rr.randint(1, 100))) for _ in range(n)]
        elif typ == "SUM" and (not (rr.rand() >= 0.5)):
            obs = [(int(rr.randint(-5, 50)), None) for _ in range(n)]
        else:
            obs = [(float(rr.randn() * 10 ** rr.randint(-2, 3)), None) for _ in range(n)]
        whole = mk(typ, acc)
        for ob in obs:
            upd(whole, typ, ob)
        cuts = sorted(set(rr.randint(1, n, size=rr.randint(0, min(n, 6))).tolist())) if n > 1 else []
        b = [0] + cuts + [n]
        parts = []
        for i in range(len(b) - 1):
            p = mk(typ, acc)
            for ob in obs[b[i]:b[i + 1]]:
                upd(p, typ, ob)
            parts.append(p)
        snaps = [copy.deepcopy(view(p)) for p in parts]
        if case["via_set"]:
            accu = SimulationResults()
            sets = []
            for p in parts:
                s = SimulationResults()
                s.add_result(p)
                sets.append(s)
            for s in sets:
                accu.merge_all_results(s)
            got = accu["x"][-1]
            for p, sn in zip(parts, snaps):
                if not close(view(p), sn):
                    return {"operand mutated by merge_all_results": [view(p), sn], "chunks": b}
        else:
            # random merge tree over the contiguous parts
            items = list(parts)
            owned = [copy.deepcopy(p) for p in items]
            while len(owned) > 1:
                i = int(rr.randint(len(owned) - 1))
                before = copy.deepcopy(view(owned[i + 1]))
                owned[i].merge(owned[i + 1])
                if not close(view(owned[i + 1]), before):
                    return {"operand mutated by merge": True}
                del owned[i + 1]
            got = owned[0]
        if typ == "MISC":
            # the property only claims "the last observation wins" for misc results
            if not close(view(got)[0], view(whole)[0]):
                return {"chunks": b, "merged value": view(got)[0], "last observation": view(whole)[0]}
        elif not close(view(got), view(whole)):
            return {"chunks": b, "merged": view(got), "sequential": view(whole)}
        if typ != "MISC" and n > 0:
            if not close(float(got.get_result_mean()), float(whole.get_result_mean())) or \
                    not close(float(got.get_result_var()), float(whole.get_result_var())):
                return {"mean/var": [got.get_result_mean(), whole.get_result_mean()]}
        ga, gw = got.get_result(), whole.get_result()
        if not close(np.array(ga, dtype=float).tolist() if typ in ("CHOICE",) else ga, np.array(gw, dtype=float).tolist() if typ == "CHOICE" else gw):
            return {"get_result": [str(ga), str(gw)]}
        return None
    return bounded(gen(), check)


@obligation("native/combine_overlapping_grids", kind="bounded", timeout=900,
            desc="combine_simulation_results / combine_simulation_parameters on random overlapping grids (int and float values incl. tiny 1e-9-scaled and huge ones, mixed "
                 "dtypes, 1-2 unpacked parameters, all result types): union grid = sorted union of values; every union point holds "
                 "exactly the merge of the operands containing it; result independent of operand order; operands unchanged")
def ob_combine():
    from pyphysim.simulations.results import Result, SimulationResults, combine_simulation_results
    from pyphysim.simulations.parameters import SimulationParameters, combine_simulation_parameters
    r = stable_rng("C06combine")

    def gen():
        for i in range(60 if quick() else 600):
            yield {"seed": int(r.randint(1 << 30)), "typ": ["SUM", "RATIO", "MISC", "CHOICE"][i % 4], "two": bool((i // 4) % 2),
                   "mixed": bool((i // 8) % 2), "scale": [1.0, 1e-9, 1.0, 1e12][(i // 3) % 4], "shuffle": (i // 5) % 3}

    def build(grid, grid2, typ, rr, tag):
        d = {"SNR": np.array(grid), "fixed": 7}
        if grid2 is not None:
            d["Nr"] = np.array(grid2)
        p = SimulationParameters.create(d)
        p.set_unpack_parameter("SNR")
        if grid2 is not None:
            p.set_unpack_parameter("Nr")
        s = SimulationResults()
        s.set_parameters(p)
        truth = {}
        for q in p.get_unpacked_params_list():
            key = (float(q["SNR"]), float(q["Nr"]) if grid2 is not None else None)
            code = getattr(Result, typ + "TYPE")
            res = Result("x", code, choice_num=4) if typ == "CHOICE" else Result("x", code)
            k = int(rr.randint(1, 4))
            obs = []
            for _ in range(k):
                if typ == "CHOICE":
                    ob = (int(rr.randint(4)),)
                elif typ == "RATIO":
                    ob = (int(rr.randint(0, 9)), int(rr.randint(1, 20)))
                else:
                    ob = (int(rr.randint(1, 100)),)
                res.update(*ob)
                obs.append(ob)
            truth[key] = obs
            s.append_result(res)
        return s, truth

    def check(case):
        rr = np.random.RandomState(case["seed"])
        typ = case["typ"]
        if case["mixed"]:
            g1 = sorted(set(rr.randint(0, 12, size=rr.randint(1, 5)).tolist()))
            g2 = sorted(set((rr.randint(0, 24, size=rr.randint(1, 5)) / 2.0).tolist()))
        else:
            g1 = sorted(set(rr.randint(0, 10, size=rr.randint(1, 5)).tolist()))
            g2 = sorted(set(rr.randint(0, 10, size=rr.randint(1, 5)).tolist()))
        if case["seed"] % 5 == 0:
            # computed grids next to typed ones: k * 0.1 and the literal differ in the last bit for some k (3 * 0.1 != 0.3); they are
            # different parameter values and are kept apart
            g1 = [float(x) for x in np.arange(0, 0.1 * rr.randint(4, 9) - 0.05, 0.1)]
            g2 = sorted(set(round(0.1 * k, 1) for k in rr.randint(0, 9, size=rr.randint(2, 5)).tolist()))
        if case.get("scale", 1.0) != 1.0:       # tiny (noise powers) and huge grids: values are matched exactly, never approximately
            g1 = [float(x) * case["scale"] for x in g1]
            g2 = [float(x) * case["scale"] for x in g2]
        if case.get("shuffle") == 1:          # values stored in an order that is not ascending (e.g. SNR = [10, 0, 5])
            g1, g2 = list(rr.permutation(g1)), list(rr.permutation(g2))
        elif case.get("shuffle") == 2:        # both operands obtained for the SAME non-ascending grid
            g1 = list(rr.permutation(g1))
            g2 = list(g1)
        n1 = n2 = None
        if case["two"]:
            n1 = sorted(set(rr.randint(1, 4, size=rr.randint(1, 3)).tolist()))
            n2 = sorted(set(rr.randint(1, 4, size=rr.randint(1, 3)).tolist()))
        s1, t1 = build(g1, n1, typ, rr, "a")
        s2, t2 = build(g2, n2, typ, rr, "b")
        before = (s1.to_json(), s2.to_json())
        u = combine_simulation_results(s1, s2)
        if (s1.to_json(), s2.to_json()) != before:
            return {"operands mutated": True}
        want_snr = sorted(set(float(x) for x in g1) | set(float(x) for x in g2))
        got_snr = [float(x) for x in u.params["SNR"]]
        if got_snr != want_snr:
            return {"union grid": got_snr, "expected": want_snr, "g1": g1, "g2": g2}
        plist = u.params.get_unpacked_params_list()
        if len(u["x"]) != len(plist):
            return {"result count": len(u["x"]), "variations": len(plist)}
        for q, res in zip(plist, u["x"]):
            key = (float(q["SNR"]), float(q["Nr"]) if case["two"] else None)
            obs = t1.get(key, []) + t2.get(key, [])
            code = getattr(Result, typ + "TYPE")
            ref = Result("x", code, choice_num=4) if typ == "CHOICE" else Result("x", code)
            if typ == "MISC":
                obs = (t2.get(key) or t1.get(key) or [])
                obs = obs[-1:]
            for ob in obs:
                ref.update(*ob)
            if typ == "MISC":
                ok = (not obs and res.num_updates == 0) or (obs and res._value == ref._value)
            elif typ == "CHOICE":
                ok = np.array_equal(np.asarray(res._value), np.asarray(ref._value)) and res._total == ref._total
            else:
                ok = (res._value == ref._value and res._total == ref._total and res.num_updates == ref.num_updates
                      and abs(res._result_sum - ref._result_sum) < 1e-9)
            if not ok:
                return {"point": key, "got": [str(res._value), res._total, res.num_updates],
                        "expected": [str(ref._value), ref._total, ref.num_updates], "g1": g1, "g2": g2}
        if typ != "MISC":
            u2 = combine_simulation_results(s2, s1)
            a = [(str(x._value), x._total, x.num_updates) for x in u["x"]]
            b = [(str(x._value), x._total, x.num_updates) for x in u2["x"]]
            if a != b or [float(x) for x in u2.params["SNR"]] != got_snr:
                return {"order dependent": [a[:3], b[:3]]}
        return None
    return bounded(gen(), check)


@obligation("lemma/merge_plan_independence_lean", kind="lemma", tiers=("thorough",), timeout=2400,
            desc="L-FOLD (Lean 4 + Mathlib, lemmas/FoldChunking.lean): update == merge of a fresh singleton, merge associative, empty result a "
                 "right unit  =>  every merge plan (any contiguous chunking, any association) equals the fold of update over the whole "
                 "sequence; variant without unit for non-empty chunks (MISC)")
def ob_lemma_fold_lean():
    from pyvc.oblig import lean_lemma
    return lean_lemma("FoldChunking.lean", 2000)
