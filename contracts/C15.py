"""C15  Constellations are Gray labelled and Gray conversion is a bijection.

Functions under contract (real source re-read from /repo each run):
  pyphysim.util.conversion: binary2gray, gray2binary
  pyphysim.util.misc:       xor, count_bits (body of the @numba.vectorize kernel), count_bit_errors
  pyphysim.modulators.fundamental: PSK.__init__, PSK._createConstellation, PSK.setPhaseOffset,
      Modulator.__init__/setConstellation, QAM.__init__/_createConstellation/_calculateGrayMappingIndexQAM
"""
import math

import numpy as np
import z3

from pyvc import sym
from pyvc.oblig import obligation, verify, exhaustive, bounded, Goal
from pyvc.interp import PyRaise
from .common import stable_rng, popcount, quick

LEVEL = "proof"
EXPLANATION = ("Gray conversions: 64-bit bit-vector proofs over the real shift/xor source for ALL x in [0,2^62). "
               "count_bits: the real while-loop unrolled over the operand width (64) with if-conversion, proved equal "
               "to popcount.  PSK labelling: PSK.__init__ symbolically executed per order M with a SYMBOLIC phase offset; "
               "postcondition 'label at angular position p is binary2gray(p)' (one-bit neighbours incl. the wrap follow "
               "from the proved conversion lemmas).  QAM and the geometric 'nearest points are grid/angle neighbours' "
               "part are decided by complete enumeration of the finite configuration set on the real code.")
ASSUMPTIONS = [
    "bv64: numpy int64 / Python ints below 2^62 modelled as 64-bit two's complement vectors (>> arithmetic)",
    "numba.vectorize applies the scalar body of count_bits element-wise with int64 semantics (T5)",
    "ufunc contract: binary2gray/gray2binary/xor on arrays act element-wise (numpy broadcasting, T3)",
    "cos/sin uninterpreted in the PSK labelling proof (only congruence is used); floats ideal-real there",
]
TRUSTED_BASE = ["numpy fancy indexing / arange / tile / reshape (executed by the real numpy on object arrays)"]
BOUNDS = {"psk_orders_quick": "2..2^8 deductive, 2..2^12 enumerated", "psk_orders_thorough": "2..2^10 deductive, 2..2^12 enumerated",
          "qam_orders": [4, 16, 64, 256, 1024, 4096]}

B2G = "pyphysim.util.conversion:binary2gray"
G2B = "pyphysim.util.conversion:gray2binary"


def _range(c, x):
    c.assume((x >= 0) & (x < 2**62))


def _replay_inverse(which):
    def rp(model):
        from pyphysim.util.conversion import binary2gray, gray2binary
        x = int(model["x"])
        if which == "g2b_b2g":
            got = int(gray2binary(binary2gray(x)))
            got_arr = int(gray2binary(binary2gray(np.array([x], dtype=np.int64)))[0])
        else:
            got = int(binary2gray(gray2binary(x)))
            got_arr = int(binary2gray(gray2binary(np.array([x], dtype=np.int64)))[0])
        return {"confirmed": got != x or got_arr != x, "input": x, "observed_scalar": got,
                "observed_array": got_arr, "expected": x}
    return rp


@obligation("conv/gray2binary_inverts_binary2gray", desc="forall 0<=x<2^62: gray2binary(binary2gray(x)) == x")
def ob_g2b_b2g():
    def body(c, it):
        x = c.var("x", "bv")
        c.inputs["x"] = x
        _range(c, x)
        return it.call_spec(G2B, it.call_spec(B2G, x)) == x
    return verify(body, replay=_replay_inverse("g2b_b2g"))


@obligation("conv/binary2gray_inverts_gray2binary", desc="forall 0<=x<2^62: binary2gray(gray2binary(x)) == x")
def ob_b2g_g2b():
    def body(c, it):
        x = c.var("x", "bv")
        c.inputs["x"] = x
        _range(c, x)
        return it.call_spec(B2G, it.call_spec(G2B, x)) == x
    return verify(body, replay=_replay_inverse("b2g_g2b"))


@obligation("conv/gray_range_preserved", desc="forall 0<=x<2^k (k<=62): binary2gray(x), gray2binary(x) < 2^k (bijection of [0,2^k))")
def ob_range():
    def body(c, it):
        x = c.var("x", "bv")
        k = c.var("k", "bv")
        c.inputs["x"] = x
        c.inputs["k"] = k
        c.assume((k >= 0) & (k <= 62))
        lim = sym.SBV(z3.BitVecVal(1, 64) << k.t)
        c.assume((x >= 0) & (x < lim))
        g = it.call_spec(B2G, x)
        b = it.call_spec(G2B, x)
        return [Goal("b2g<2^k", (g >= 0) & (g < lim)), Goal("g2b<2^k", (b >= 0) & (b < lim))]

    def rp(model):
        from pyphysim.util.conversion import binary2gray, gray2binary
        x, k = int(model["x"]), int(model["k"])
        return {"confirmed": not (0 <= int(binary2gray(x)) < 2**k and 0 <= int(gray2binary(x)) < 2**k),
                "x": x, "k": k, "b2g": int(binary2gray(x)), "g2b": int(gray2binary(x))}
    return verify(body, replay=rp)


@obligation("conv/consecutive_gray_codes_one_bit_apart",
            desc="forall 0<=x<2^62-1: binary2gray(x) xor binary2gray(x+1) has exactly one bit set")
def ob_adjacent():
    def body(c, it):
        x = c.var("x", "bv")
        c.inputs["x"] = x
        c.assume((x >= 0) & (x < 2**62 - 1))
        d = it.call_spec(B2G, x) ^ it.call_spec(B2G, x + 1)
        return (d != 0) & ((d & (d - 1)) == 0)

    def rp(model):
        from pyphysim.util.conversion import binary2gray
        x = int(model["x"])
        d = int(binary2gray(x)) ^ int(binary2gray(x + 1))
        return {"confirmed": popcount(d) != 1, "x": x, "xor": d}
    return verify(body, replay=rp)


@obligation("conv/wraparound_gray_codes_one_bit_apart",
            desc="forall 1<=k<=62: binary2gray(2^k-1) xor binary2gray(0) has exactly one bit (PSK wrap M-1 -> 0)")
def ob_wrap():
    def body(c, it):
        k = c.var("k", "bv")
        c.inputs["k"] = k
        c.assume((k >= 1) & (k <= 62))
        last = sym.SBV((z3.BitVecVal(1, 64) << k.t) - 1)
        d = it.call_spec(B2G, last) ^ it.call_spec(B2G, sym.SBV(z3.BitVecVal(0, 64)))
        return (d != 0) & ((d & (d - 1)) == 0)
    return verify(body)


def _popcount_term(v):
    # spec: number of set bits, as an Int sum of per-bit indicators
    return z3.Sum([z3.If(z3.Extract(i, i, v) == 1, z3.IntVal(1), z3.IntVal(0)) for i in range(64)])


@obligation("bits/count_bits_is_popcount", timeout=600,
            desc="forall 0<=n<2^62: count_bits(n) == popcount(n) (real while loop, unrolled over the operand width)")
def ob_count_bits():
    def body(c, it):
        n = c.var("n", "bv")
        c.inputs["n"] = n
        _range(c, n)
        r = it.call_spec("pyphysim.util.misc:count_bits", n)
        r = sym.lift(r)
        rt = r.t if isinstance(r, sym.SNum) else z3.BV2Int(r.t, True)
        return sym.SBool(rt == _popcount_term(n.t))

    def rp(model):
        from pyphysim.util.misc import count_bits
        n = int(model["n"])
        return {"confirmed": int(count_bits(n)) != popcount(n), "n": n, "observed": int(count_bits(n)),
                "expected": popcount(n)}
    return verify(body, replay=rp, timeout_ms=60000)


@obligation("bits/count_bit_errors_is_hamming_distance",
            desc="count_bit_errors(a,b) == sum_i popcount(a_i xor b_i) for int arrays (symbolic elements, shapes (3,), (2,2); axis None/0/1)")
def ob_count_bit_errors():
    def body(c, it):
        goals = []
        # modular: the callee count_bits is used through its contract (proved by bits/count_bits_is_popcount)
        it.contracts["pyphysim.util.misc:count_bits"] = \
            lambda interp, n: sym.SNum(_popcount_term(sym.to_bv(n).t), 'int')
        it.modular.add("pyphysim.util.misc:count_bits")
        for shape, axes in (((3,), (None, 0)), ((2, 2), (None, 0, 1))):
            n = int(np.prod(shape))
            a = np.empty(shape, dtype=object)
            b = np.empty(shape, dtype=object)
            for i, pos in enumerate(np.ndindex(shape)):
                a[pos] = c.var("a%s_%d" % (len(shape), i), "bv")
                b[pos] = c.var("b%s_%d" % (len(shape), i), "bv")
                _range(c, a[pos])
                _range(c, b[pos])
            c.inputs["a%d" % len(shape)] = a
            c.inputs["b%d" % len(shape)] = b
            for ax in axes:
                r = it.call_spec("pyphysim.util.misc:count_bit_errors", a, b, ax)
                spec = np.empty(shape, dtype=object)
                for pos in np.ndindex(shape):
                    spec[pos] = sym.SNum(_popcount_term((a[pos] ^ b[pos]).t), 'int')
                want = np.sum(spec, axis=ax)
                got = np.asarray(r, dtype=object)
                want = np.asarray(want, dtype=object)
                if got.shape != want.shape:
                    goals.append(Goal("shape axis=%s" % ax, False))
                    continue
                for g, w in zip(got.flat, want.flat):
                    g = sym.lift(g)
                    gt = g.t if isinstance(g, sym.SNum) else z3.BV2Int(g.t, True)
                    goals.append(Goal("value shape=%s axis=%s" % (shape, ax), sym.SBool(gt == w.t)))
        return goals
    return verify(body, timeout_ms=60000)


# ------------------------------------------------------------------ PSK
def _psk_orders(tier):
    return [2**k for k in range(1, 13)]


def _psk_natural_spec(c, M, phi):
    """spec of the natural-order constellation: point p = snap(cos(2*pi/M*p + phi)) + j snap(sin(..))"""
    from pyphysim.modulators.fundamental import PI
    pts = []
    for p in range(M):
        ang = 2.0 * PI / M * p + phi
        if isinstance(ang, float):           # concrete offset (the derived classes): the spec is a number
            pts.append((math.cos(ang) if abs(math.cos(ang)) >= 1e-15 else 0.0,
                        math.sin(ang) if abs(math.sin(ang)) >= 1e-15 else 0.0))
            continue
        re, im = sym.lift(ang).cos(), sym.lift(ang).sin()
        re = sym.ite(abs(re) < 1e-15, 0, re)
        im = sym.ite(abs(im) < 1e-15, 0, im)
        pts.append((re, im))
    return pts


def _psk_labelling_goals(c, it, M, obj_symbols, phi):
    from pyphysim.util.conversion import binary2gray
    nat = _psk_natural_spec(c, M, phi)
    goals = []
    if not isinstance(obj_symbols, np.ndarray) or obj_symbols.shape != (M,):
        return [Goal("symbols has M entries", False)]
    conj = []
    for p in range(M):
        lab = int(binary2gray(p)) if False else (p ^ (p >> 1))     # spec function, not the code
        if isinstance(nat[p][0], float):
            v = obj_symbols[lab]
            ok = isinstance(v, (complex, float, np.number)) and abs(complex(v) - complex(nat[p][0], nat[p][1])) <= 1e-12
            conj.append(z3.BoolVal(bool(ok)))
            continue
        s = sym.to_complex(obj_symbols[lab])
        conj.append((s.re == nat[p][0]).t)
        conj.append((s.im == nat[p][1]).t)
    goals.append(Goal("label binary2gray(p) sits at angular position p, all p", sym.SBool(z3.And(conj))))
    return goals


@obligation("psk/init_gray_labelled", params=[{"M": 2**k, "_tiers": ("quick", "thorough") if k <= 8 else ("thorough",)}
                                              for k in range(1, 11)], timeout=900,
            desc="PSK(M, phi) for symbolic phi: the symbol labelled binary2gray(p) is the p-th point on the circle "
                 "=> angular neighbours (incl. wrap) differ in exactly one bit")
def ob_psk_init(M):
    def body(c, it):
        phi = c.var("phi", "real")
        c.inputs["phi"] = phi
        c.axioms_on = False          # only congruence of cos/sin is needed
        from pyphysim.modulators.fundamental import PSK
        o = it.call(PSK, [M, phi])
        return _psk_labelling_goals(c, it, M, o.fields.get("symbols"), phi)

    def rp(model):
        from pyphysim.modulators.fundamental import PSK
        for phi in (float(model.get("phi", 0.0) or 0.0), 0.1, 0.7):
            bad = _psk_native_gray_violations(PSK(M, phi).symbols) if M <= 1024 else []
            if bad:
                return {"confirmed": True, "M": M, "phaseOffset": phi, "non_gray_neighbour_pairs": bad[:4]}
        return {"confirmed": False, "M": M}
    return verify(body, replay=rp, check_side=False, timeout_ms=120000)


@obligation("psk/setPhaseOffset_gray_labelled", params=[{"M": M} for M in (4, 8, 16)],
            desc="after PSK(M).setPhaseOffset(phi) the constellation satisfies the same Gray labelling postcondition as __init__")
def ob_psk_setoffset(M):
    def body(c, it):
        phi = c.var("phi", "real")
        c.inputs["phi"] = phi
        c.axioms_on = False
        from pyphysim.modulators.fundamental import PSK
        o = it.call(PSK, [M])
        it.call(it.getattr(o, "setPhaseOffset"), [phi])
        return _psk_labelling_goals(c, it, M, o.fields.get("symbols"), phi)

    def rp(model):
        from pyphysim.modulators.fundamental import PSK
        phi = float(model.get("phi", 0.1))
        m = PSK(M)
        m.setPhaseOffset(phi)
        bad = _psk_native_gray_violations(m.symbols)
        return {"confirmed": bool(bad), "M": M, "phaseOffset": phi, "non_gray_neighbour_pairs": bad[:4]}
    return verify(body, replay=rp, check_side=False, timeout_ms=60000)


@obligation("psk/qpsk_class_gray_labelled",
            desc="QPSK() (the derived class, no argument) leaves its constructor with the PSK postcondition for M=4, phi=pi/4: "
                 "label binary2gray(p) at angular position p")
def ob_qpsk_class():
    def body(c, it):
        c.axioms_on = False
        from pyphysim.modulators.fundamental import QPSK, PI
        o = it.call(QPSK, [])
        goals = _psk_labelling_goals(c, it, 4, o.fields.get("symbols"), PI / 4.)
        goals.append(Goal("order of the derived class is 4", it.getattr(o, "M") == 4))
        return goals

    def rp(model):
        from pyphysim.modulators.fundamental import QPSK
        bad = _psk_native_gray_violations(np.asarray(QPSK().symbols))
        return {"confirmed": bool(bad), "class": "QPSK", "non_gray_neighbour_pairs": bad[:4]}
    return verify(body, replay=rp, check_side=False, timeout_ms=60000)


def _psk_native_gray_violations(symbols):
    """labels of minimum-distance neighbours must differ in one bit (native check)"""
    M = len(symbols)
    if M < 2:
        return []
    d = np.abs(symbols.reshape(-1, 1) - symbols.reshape(1, -1))
    np.fill_diagonal(d, np.inf)
    dmin = d.min()
    bad = []
    for a in range(M):
        for b in np.nonzero(d[a] <= dmin * (1 + 1e-9))[0]:
            if a < b and popcount(a ^ int(b)) != 1:
                bad.append([a, int(b), popcount(a ^ int(b))])
    return bad


@obligation("psk/neighbours_native_all_orders", kind="exhaustive", timeout=900,
            desc="every PSK order 2..2^12 x offsets {0, pi/M, pi/4, 0.1, -2.5, 1e-16+pi/2}: minimum-distance neighbours "
                 "differ in exactly one bit, M distinct points; the derived classes QPSK() and BPSK() through modulate(arange(M)) (real code, numeric)")
def ob_psk_native():
    from pyphysim.modulators import fundamental
    from pyphysim.modulators.fundamental import PSK

    def cases():
        yield {"cls": "QPSK", "M": 4}
        yield {"cls": "BPSK", "M": 2}
        for k in range(1, 13):
            M = 2**k
            for off in (0.0, math.pi / M, math.pi / 4, 0.1, -2.5, math.pi / 2 + 1e-16):
                yield {"M": M, "phaseOffset": off}

    def check(case):
        if "cls" in case:
            m = getattr(fundamental, case["cls"])()
            pts = np.asarray(m.modulate(np.arange(m.M)), dtype=complex)     # the labels as the public interface emits them
            if len(set(np.round(pts, 12))) != m.M or m.M != case["M"]:
                return {"distinct_points": len(set(np.round(pts, 12))), "M": int(m.M)}
            bad = _psk_native_gray_violations(pts)
            return {"non_gray_pairs": bad[:4]} if bad else None
        if (not (case["M"] <= 1024)) and case["phaseOffset"] not in (0.0, 0.1):
            return None
        m = PSK(case["M"], case["phaseOffset"])
        if (not (case["M"] > 1024)):
            bad = _psk_native_gray_violations(m.symbols)
        else:
            # O(M) version: neighbours on the circle by angle
            ang = np.angle(m.symbols)
            order = np.argsort(ang)
            bad = [[int(order[i]), int(order[(i + 1) % len(order)])] for i in range(len(order))
                   if popcount(int(order[i]) ^ int(order[(i + 1) % len(order)])) != 1]
        if bad:
            return {"non_gray_pairs": bad[:4]}
        return None
    return exhaustive(cases(), check)


# ------------------------------------------------------------------ QAM
def _qam_violations(M):
    from pyphysim.modulators.fundamental import QAM
    q = QAM(M)
    s = q.symbols
    L = int(round(math.sqrt(M)))
    scale = math.sqrt((M - 1) * 2.0 / 3.0)
    col = np.rint((s.real * scale + (L - 1)) / 2).astype(int)
    row = np.rint(((L - 1) - s.imag * scale) / 2).astype(int)
    grid = -np.ones((L, L), dtype=int)
    for lab in range(M):
        grid[row[lab], col[lab]] = lab
    if (grid < 0).any():
        return [["constellation is not the full LxL grid"]]
    bad = []
    for r in range(L):
        for cc in range(L):
            for (r2, c2) in ((r, cc + 1), (r + 1, cc)):
                if r2 < L and c2 < L:
                    a, b = int(grid[r, cc]), int(grid[r2, c2])
                    if popcount(a ^ b) != 1:
                        bad.append([a, b, popcount(a ^ b)])
    return bad


@obligation("qam/grid_neighbours_one_bit", kind="exhaustive",
            params=[{"M": 4**k, "_tiers": ("quick", "thorough") if k <= 5 else ("thorough",)} for k in range(1, 7)],
            desc="QAM(M): labels of horizontally/vertically adjacent grid points (the minimum-distance pairs) differ in one bit")
def ob_qam(M):
    def check(case):
        bad = _qam_violations(case["M"])
        return {"pairs_label_a_label_b_bits": bad[:6], "count": len(bad)} if bad else None
    return exhaustive([{"M": M}], check)


@obligation("conv/arrays_native", kind="bounded",
            desc="array forms (int64 arrays, 0-d, scalars np.int64/int) of the conversions agree with the scalar spec on "
                 "sampled values incl. powers of two up to 2^61; count_bit_errors with operands of different integer dtypes (narrow first or second, total and per axis); "
                 "arrays of every integer type over its whole non-negative range (uint64 up to 2^64-1); long frames (sizes at / around multiples of 2^16, 2-D)")
def ob_conv_arrays():
    from pyphysim.util.conversion import binary2gray, gray2binary
    from pyphysim.util.misc import count_bit_errors
    r = stable_rng("C15conv")

    def gen():
        specials = [0, 1, 2, 3] + [2**k for k in range(2, 62)] + [2**k - 1 for k in range(2, 63)] + [2**k + 1 for k in range(2, 62)]
        yield np.array(specials, dtype=np.int64)
        for _ in range(20 if quick() else 200):
            yield r.randint(0, 2**62, size=r.randint(1, 50), dtype=np.int64)

    def check(x):
        g = binary2gray(x)
        if not np.array_equal(gray2binary(g), x):
            i = int(np.nonzero(gray2binary(g) != x)[0][0])
            return {"x": int(x[i]), "g2b(b2g(x))": int(gray2binary(g)[i])}
        if not np.array_equal(binary2gray(gray2binary(x)), x):
            return {"b2g(g2b(x)) != x": True}
        if not np.array_equal(g, x ^ (x >> 1)):
            return {"b2g != x^(x>>1)": True}
        for v in x[:5]:
            v = int(v)
            if int(gray2binary(int(binary2gray(v)))) != v or int(gray2binary(binary2gray(np.int64(v)))) != v:
                return {"scalar x": v}
        y = x[::-1].copy()
        want = sum(popcount(int(a) ^ int(b)) for a, b in zip(x, y))
        if int(count_bit_errors(x, y)) != want:
            return {"count_bit_errors": int(count_bit_errors(x, y)), "hamming": want}
        # operands stored in different integer types (transmitted indexes of a small constellation next to wider received words):
        # the count is the Hamming distance of the VALUES, in either argument order, in total and per axis
        for dt in (np.uint8, np.int16, np.int32, np.uint16):
            small = (x % (np.iinfo(dt).max + 1)).astype(dt)
            wide = (y % (2 ** 40)).astype(np.int64)
            want = sum(popcount(int(a) ^ int(b)) for a, b in zip(small, wide))
            for a, b in ((small, wide), (wide, small)):
                got = int(count_bit_errors(a, b))
                if got != want:
                    return {"count_bit_errors with dtypes": [str(a.dtype), str(b.dtype)], "observed": got, "hamming distance": want,
                            "first values": [int(a[0]), int(b[0])]}
            if len(small) >= 4:
                n2 = len(small) // 2 * 2
                A, B = small[:n2].reshape(2, -1), wide[:n2].reshape(2, -1)
                per = np.asarray(count_bit_errors(A, B, axis=0)).ravel()
                wantp = [sum(popcount(int(A[i, j]) ^ int(B[i, j])) for i in range(2)) for j in range(A.shape[1])]
                if [int(v) for v in per] != wantp:
                    return {"count_bit_errors(axis=0) with dtypes": [str(A.dtype), str(B.dtype)], "observed": [int(v) for v in per][:6], "expected": wantp[:6]}
        # every integer type the arrays may use, over its WHOLE non-negative range (uint64 words up to 2^64 - 1 included)
        for dt in (np.uint8, np.int8, np.uint16, np.int16, np.uint32, np.int32, np.uint64, np.int64):
            info = np.iinfo(dt)
            top = int(info.max)
            vals = sorted({0, 1, 2, 3, top, top - 1, top // 2, top // 2 + 1, top // 3} | {int(v) % (top + 1) for v in x[:12]} |
                          {(int(v) * 0x9E3779B97F4A7C15) % (top + 1) for v in x[:12]})
            a = np.array(vals, dtype=dt)
            ga = binary2gray(a)
            wantg = [v ^ (v >> 1) for v in vals]
            if [int(v) for v in ga] != wantg:
                return {"binary2gray on %s array" % np.dtype(dt).name: [int(v) for v in ga][:6], "expected": wantg[:6], "values": vals[:6]}
            if [int(v) for v in gray2binary(ga)] != vals or [int(v) for v in binary2gray(gray2binary(a))] != vals:
                return {"conversions not mutually inverse on %s array" % np.dtype(dt).name: vals[:8],
                        "gray2binary(binary2gray(x))": [int(v) for v in gray2binary(ga)][:8]}
            b = a[::-1].copy()
            wantd = sum(popcount(p ^ q) for p, q in zip(vals, vals[::-1]))
            if int(count_bit_errors(a, b)) != wantd:
                return {"count_bit_errors on %s arrays" % np.dtype(dt).name: int(count_bit_errors(a, b)), "hamming distance": wantd}
        # the count is the Hamming distance of the VALUES whatever the largest value that occurs: frames whose largest index is an exact
        # power of two (a 16-point frame that happens to use only symbols 0..8), scalars, short frames that do not use the whole alphabet
        for k in range(0, 62):
            top = 1 << k
            for a_, b_ in ((top, 0), (top, top - 1 if top > 1 else 0), (np.array([top, 0, 1]), np.array([0, 0, top])),
                           (np.array([[top, 3], [0, top]]), np.array([[0, 3], [top, top]]))):
                want = int(sum(popcount(int(p) ^ int(q)) for p, q in zip(np.ravel(a_), np.ravel(b_))))
                got = int(np.sum(count_bit_errors(a_, b_)))
                if got != want:
                    return {"count_bit_errors": got, "hamming distance": want, "first": np.ravel(a_).tolist(), "second": np.ravel(b_).tolist()}
                if isinstance(a_, np.ndarray) and a_.ndim == 2:
                    per = np.asarray(count_bit_errors(a_, b_, axis=0)).ravel()
                    wantp = [sum(popcount(int(a_[i, j]) ^ int(b_[i, j])) for i in range(2)) for j in range(2)]
                    if [int(v) for v in per] != wantp:
                        return {"count_bit_errors(axis=0)": [int(v) for v in per], "expected": wantp, "largest value": top}
        return None

    def check_long(case):
        # long frames: sizes around and at multiples of 2^16 (1-D and 2-D): total == sum of the per-axis counts == Hamming distance
        rr = np.random.RandomState(case["seed"])
        shape = tuple(case["long"])
        A = rr.randint(0, 1 << 20, size=shape, dtype=np.int64)
        B = rr.randint(0, 1 << 20, size=shape, dtype=np.int64)
        d = (A ^ B).astype(np.uint64).ravel()
        want = int(np.unpackbits(d.view(np.uint8)).sum())
        got = int(count_bit_errors(A, B))
        if got != want:
            return {"count_bit_errors(total) on a frame of shape": list(shape), "observed": got, "hamming distance": want}
        for ax in range(len(shape)):
            per = np.asarray(count_bit_errors(A, B, axis=ax))
            if int(per.sum()) != want or per.shape != tuple(n for i, n in enumerate(shape) if i != ax):
                return {"count_bit_errors(axis=%d) on a frame of shape" % ax: list(shape), "sum": int(per.sum()), "hamming distance": want}
        return None

    def check_any(case):
        if isinstance(case, dict):
            return check_long(case)
        return check(case)

    def gen_all():
        for xx in gen():
            yield xx
        for shp in ((1 << 16,), ((1 << 16) + 1,), (1 << 17,), (3 << 16,), ((3 << 16) - 5,), (256, 512), (2, 1 << 16), (65537, 2)):
            yield {"seed": int(r.randint(1 << 30)), "long": list(shp)}
    return bounded(gen_all(), check_any)
