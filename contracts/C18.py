"""C18  Reference sequences are CAZAC; pilot-based channel estimation is exact.

Deductive: zadoffchu.get_shifted_root_seq/get_extended_ZF, srs.get_srs_seq, dmrs.get_dmrs_seq, UeSequence normalisation,
CazacBasedChannelEstimator / CazacBasedWithOCCChannelEstimator.estimate_channel_freq_domain (exact DFT of size 4),
estimators.compute_ls_estimation.  Exhaustive: RootSequence prime selection over every allowed size.
Bounded: CAZAC properties of calcBaseZC (exponential sums) and the estimators at LTE sizes.
"""
import itertools
import math

import numpy as np
import z3

from pyvc import sym
from pyvc.sym import lift, cfrac_eq, frac_eq
from pyvc.interp import PyRaise
from pyvc.oblig import obligation, verify, bounded, exhaustive, Goal, merge
from .common import stable_rng, quick, Frame
from .C08 import _cmat
from .C20 import _rmat, _conjT, _meq

LEVEL = "proof"
EXPLANATION = ("Deductive (counted): cyclic shift == multiplication by the linear phase ramp exp(j 2 pi n_cs m / den) for symbolic "
               "sequences (den 8 for SRS, 12 for DMRS); cyclic extension: element i of the extended sequence is element i mod N, every "
               "size; normalisation divides by the Euclidean norm (norm^2 == sum |x|^2); least-squares pilot estimation Y s^H (s s^H)^-1 "
               "returns the channel exactly for symbolic full-row-rank pilots incl. the 3-D batching; the CAZAC-based estimators return "
               "exactly the DFT of the channel taps for a symbolic unit-amplitude reference sequence, symbolic taps within the kept "
               "window, one and two antennas, plain, comb (size multiplier 2, DFT size 8) and cover-code variants, normalisation flag "
               "False / True / numpy bool, receive buffer untouched (DFT sizes 4 and 8, exact roots of unity).  calcBaseZC is executed "
               "for SYMBOLIC Nzc, u, q: its element i is exp(-j pi u i (i+1+2q)/Nzc), exactly Nzc elements.  For that sequence lemma L-ZC "
               "(Lean 4 + Mathlib, thorough tier) gives unit amplitude, period N for odd N, zero cyclic autocorrelation at every lag k with "
               "N not dividing u k (all non-zero lags for the prime lengths used), the flat spectrum |DFT|^2 == N, and the root-of-unity "
               "sum behind the orthogonality of cyclic shifts when the number of shifts divides the length.  A second user on another "
               "cyclic shift whose response fits its shift window does not change the estimate (two users, 8 subcarriers, symbolic "
               "channels).  Complete enumeration: the base length is the largest prime <= size for EVERY size 12, 24, 25..1200.  "
               "Bounded numeric checks repeat the CAZAC claims on the real code for every root of every prime length in the stated range "
               "and run the estimators at LTE sizes with several users.")
ASSUMPTIONS = [
    "np.fft.fft/ifft contract: the DFT matrix (exact for sizes 4 and 8: entries built from 1, j and h = sqrt(1/2)); np.linalg.inv/norm contracts",
    "unit-amplitude reference sequence given in polar form with modulus 1 (cos^2 + sin^2 = 1)",
    "np.arange(n) contract (generic element of a sequence of symbolic length) in zc/generic_element_is_the_definition",
    "lemma L-ZC (unit amplitude, periodicity, zero autocorrelation, flat spectrum, shift orthogonality of the Zadoff-Chu definition) "
    "machine-checked in Lean in the thorough tier, assumed in the quick tier; estimators proved for 4 and 8 subcarriers (values symbolic), "
    "LTE sizes in the bounded check; the tabulated length-12/24 sequences are not Zadoff-Chu sequences and are outside the CAZAC claim",
]
TRUSTED_BASE = ["numpy FFT in the bounded part"]


@obligation("shift/linear_phase_ramp", params=[{"which": w} for w in ("srs", "dmrs")],
            desc="get_srs_seq / get_dmrs_seq on a symbolic root sequence (length 5) for every cyclic shift: element m == "
                 "exp(j 2 pi n_cs m / den) * root[m] (den = 8 resp. 12); shift 0 is the identity")
def ob_shift(which):
    def body(c, it):
        import pyphysim.reference_signals.srs as srs
        import pyphysim.reference_signals.dmrs as dmrs
        fn, den = (srs.get_srs_seq, 8) if which == "srs" else (dmrs.get_dmrs_seq, 12)
        r = _cmat(c, "r", 1, 5)[0]
        goals = []
        for n_cs in range(den):
            out = it.call(fn, [r, n_cs])
            ok = np.shape(out) == (5,)
            conj = []
            if ok:
                for m in range(5):
                    ang = 2 * np.pi * n_cs / den * m
                    ramp = complex(math.cos(ang), math.sin(ang)) if False else np.exp(1j * (2 * np.pi * n_cs / den) * m)
                    conj.append(cfrac_eq(out[m], lift(complex(ramp)) * r[m]).t)
            goals.append(Goal("n_cs=%d" % n_cs, sym.SBool(z3.And(conj)) if ok else False))
        return goals
    return verify(body, check_side=False)


@obligation("zc/generic_element_is_the_definition",
            desc="calcBaseZC(Nzc, u, q) for SYMBOLIC Nzc > u >= 1 and q (np.arange contract, time axis abstracted to its generic element): "
                 "a sequence of exactly Nzc elements whose element i equals exp(-j pi u i (i + 1 + 2q) / Nzc) - the Zadoff-Chu "
                 "definition whose CAZAC properties are lemma L-ZC")
def ob_zc_generic():
    def body(c, it):
        import pyphysim.reference_signals.zadoffchu as zc
        from pyvc.seq import SymSeq
        N, u, q = c.var("Nzc", "int"), c.var("u", "int"), c.var("q", "int")
        c.assume((u >= 1) & (u < N) & (q >= 0))
        it.models[np.arange] = lambda interp, *a, **k: (SymSeq.arange(a[0]) if len(a) == 1 and isinstance(a[0], sym.SNum)
                                                        else interp.call_real(np.arange, list(a), k))
        x = it.call(zc.calcBaseZC, [N, u, q])
        ok = isinstance(x, SymSeq)
        goals = [Goal("result is a sequence", ok)]
        if not ok:
            return goals
        goals.append(Goal("length == Nzc", lift(x.n) == N))
        i = c.var("i", "int")
        c.assume((i >= 0) & (i < N))
        v = sym.to_complex(x.f(i))
        theta = -(np.pi * u * i * (i + 1 + 2 * q)) / N
        goals.append(Goal("element i == exp(-j pi u i (i+1+2q) / Nzc)", (v.re == lift(theta).cos()) & (v.im == lift(theta).sin())))
        return goals
    return verify(body)


@obligation("lemma/zadoff_chu_cazac_lean", kind="lemma", tiers=("thorough",), timeout=2400,
            desc="L-ZC (Lean 4 + Mathlib, lemmas/ZadoffChu.lean) about the sequence exp(-j pi u n (n+1+2q)/N) that calcBaseZC is proved to "
                 "compute: unit amplitude for all N, u, q, n; period N for odd N; zero cyclic autocorrelation at every lag k with N not "
                 "dividing u k (all non-zero lags for the prime lengths used); sum of a full period of a non-trivial D-th root of unity "
                 "is zero when D | N (orthogonality of different cyclic shifts of unit-amplitude sequences)")
def ob_lemma_zc_lean():
    from pyvc.oblig import lean_lemma
    return lean_lemma("ZadoffChu.lean", 2000)


@obligation("extension/cyclic_repeat", desc="get_extended_ZF(root, size)[i] is root[i mod N] and the length is size, for symbolic roots "
            "of length N in 1..5 and every size in N..3N+2 (both branches of the implementation)")
def ob_extend():
    def body(c, it):
        import pyphysim.reference_signals.zadoffchu as zc
        goals = []
        for N in range(1, 6):
            r = _cmat(c, "r%d" % N, 1, N)[0]
            for size in range(N, 3 * N + 3):
                out = it.call(zc.get_extended_ZF, [r, size])
                ok = np.shape(out) == (size,) and all(out[i] is r[i % N] for i in range(size))
                goals.append(Goal("N=%d size=%d" % (N, size), ok))
        return goals
    return verify(body, check_side=False)


@obligation("sequence/normalisation", desc="UeSequence(normalize=True): every element is x_m / n with the same n and n*n == sum |x|^2 "
            "(unit Euclidean norm); normalize=False leaves the sequence untouched")
def ob_norm():
    def body(c, it):
        import pyphysim.reference_signals.srs as srs
        from pyphysim.reference_signals.root_sequence import RootSequence
        x = _cmat(c, "x", 1, 3)[0]
        root = RootSequence(1, size=36)
        u = it.call(srs.UeSequence, [root, 0, x, True])
        out = it.call(it.getattr(u, "seq_array"), [])
        S = 0
        for v in x:
            v = sym.to_complex(v)
            S = S + v.re * v.re + v.im * v.im
        n = lift(S).to_real().sqrt()
        conj = []
        for o, v in zip(out, x):
            conj.append(cfrac_eq(o * n, v).t)
        goals = [Goal("normalised element * ||x|| == x", sym.SBool(z3.And(conj))), Goal("||x||^2 == sum |x|^2", n * n == S)]
        u2 = it.call(srs.UeSequence, [root, 0, x, False])
        goals.append(Goal("not normalised: untouched", it.call(it.getattr(u2, "seq_array"), []) is x))
        goals.append(Goal("flags", it.getattr(u, "normalized") is True and it.getattr(u2, "normalized") is False))
        return goals
    return verify(body, check_side=False)


@obligation("ls/exact_for_full_rank_pilots", params=[{"cfg": k} for k in ("c_1tx", "r_2tx", "batch")], timeout=120,
            desc="compute_ls_estimation(Y = H s, s) == H for symbolic H and symbolic pilots (1 tx antenna x 2 pilots complex; 2 tx x 2 pilots "
                 "real; 3-D batches with shared and per-realisation pilots)")
def ob_ls(cfg):
    def body(c, it):
        import pyphysim.channel_estimation.estimators as est
        goals = []
        if cfg == "c_1tx":
            H, s = _cmat(c, "H", 2, 1), _cmat(c, "s", 1, 2)
            out = it.call(est.compute_ls_estimation, [np.dot(H, s), s])
            goals.append(Goal("LS == H", _meq(out, H)))
        elif cfg == "r_2tx":
            H, s = _rmat(c, "H", 2, 2), _rmat(c, "s", 2, 2)
            out = it.call(est.compute_ls_estimation, [np.dot(H, s), s])
            goals.append(Goal("LS == H", _meq(out, H)))
        else:
            s = _cmat(c, "s", 1, 2)
            Hs = [_cmat(c, "H%d" % i, 2, 1) for i in range(2)]
            Y = np.empty((2, 2, 2), dtype=object)
            for i in range(2):
                Y[i] = np.dot(Hs[i], s)
            it.models[np.common_type] = lambda interp, *a: object
            out = it.call(est.compute_ls_estimation, [Y, s])
            goals.append(Goal("batch, shared pilots", np.shape(out) == (2, 2, 1) and bool(True)))
            if np.shape(out) == (2, 2, 1):
                goals.append(Goal("batch, shared pilots: each realisation == H_i", sym.SBool(z3.And([_meq(out[i], Hs[i]).t for i in range(2)]))))
            ss = np.empty((2, 1, 2), dtype=object)
            ss[0], ss[1] = _cmat(c, "p0", 1, 2), _cmat(c, "p1", 1, 2)
            Y2 = np.empty((2, 2, 2), dtype=object)
            for i in range(2):
                Y2[i] = np.dot(Hs[i], ss[i])
            out2 = it.call(est.compute_ls_estimation, [Y2, ss])
            if np.shape(out2) == (2, 2, 1):
                goals.append(Goal("batch, per-realisation pilots", sym.SBool(z3.And([_meq(out2[i], Hs[i]).t for i in range(2)]))))
            else:
                goals.append(Goal("batch, per-realisation pilots: shape", False))
        return goals
    return verify(body, check_side=False, timeout_ms=60000)


@obligation("ls/native_pilot_and_channel_representations", kind="exhaustive",
            desc="the symbolic LS proof treats entries as numbers: on the real code the estimate must not depend on how pilots and received "
                 "samples are stored - real pilots (float64, int64, +-1 Hadamard) or complex pilots x complex or real channel, for the "
                 "2-D call, 3-D batches with shared pilots and 3-D batches with per-realisation pilots: estimate == H (1e-9), incl. the "
                 "imaginary part of a complex channel estimated from real pilots")
def ob_ls_native():
    import pyphysim.channel_estimation.estimators as est

    def cases():
        for pil in ("complex", "real_float", "real_int", "hadamard"):
            for chan in ("complex", "real"):
                for form in ("2d", "batch_shared", "batch_own"):
                    for (Nr, Nt, Np) in ((2, 1, 2), (2, 2, 4), (3, 2, 4)):
                        yield {"pilots": pil, "channel": chan, "form": form, "Nr": Nr, "Nt": Nt, "Np": Np}

    def check(case):
        rr = stable_rng("C18ls" + repr(sorted(case.items())))
        Nr, Nt, Np = case["Nr"], case["Nt"], case["Np"]

        def pilots():
            if case["pilots"] == "complex":
                return rr.randn(Nt, Np) + 1j * rr.randn(Nt, Np)
            if case["pilots"] == "real_float":
                return rr.randn(Nt, Np)
            if case["pilots"] == "real_int":
                return (np.arange(Nt * Np).reshape(Nt, Np) % 5 + np.eye(Nt, Np, dtype=int) * 7).astype(np.int64)
            from scipy.linalg import hadamard
            return hadamard(4)[:Nt, :Np].astype(float) if Np == 4 else np.array([[1.0, -1.0]])[:Nt, :Np]

        def chan():
            return rr.randn(Nr, Nt) + (1j * rr.randn(Nr, Nt) if case["channel"] == "complex" else 0)
        if case["form"] == "2d":
            H, s = chan(), pilots()
            got, want = est.compute_ls_estimation(H @ s, s), H
        elif case["form"] == "batch_shared":
            s = pilots()
            Hs = np.array([chan() for _ in range(3)])
            got, want = est.compute_ls_estimation(np.array([h @ s for h in Hs]), s), Hs
        else:
            ss = np.array([pilots() + (k if case["pilots"] != "hadamard" else 0) * np.eye(Nt, Np) for k in range(3)])
            Hs = np.array([chan() for _ in range(3)])
            got, want = est.compute_ls_estimation(np.array([h @ s for h, s in zip(Hs, ss)]), ss), Hs
        if np.shape(got) != np.shape(want):
            return {"shape": [list(np.shape(got)), list(np.shape(want))]}
        err = float(np.abs(np.asarray(got) - want).max())
        if (not (err <= 1e-9 * max(1.0, float(np.abs(want).max())))):
            return {"max |estimate - H|": err, "estimate dtype": str(np.asarray(got).dtype),
                    "max |Im(estimate) - Im(H)|": float(np.abs(np.imag(got) - np.imag(want)).max())}
        return None
    return exhaustive(cases(), check)


def _unit_seq(c, tag, N):
    r = np.empty(N, dtype=object)
    for i in range(N):
        a = c.var("%s_th%d" % (tag, i), "real")
        z = sym.SComplex(a.cos(), a.sin())
        r[i] = z
    return r


@obligation("estimator/cazac_exact", params=[{"variant": v, "ant": a, "norm": n} for v in ("plain", "occ", "occ_flat") for a in (1, 2)
                                             for n in (False, True, "np.bool_(True)")] +
            [{"variant": "plain_comb2", "ant": a, "norm": n} for a in (1, 2) for n in (False, True)] +
            [{"variant": "plain_two_users", "ant": a, "norm": n} for a in (1, 2) for n in (False, True)],
            timeout=200,
            desc="CAZAC-based estimators with a symbolic unit-amplitude reference sequence of 4 subcarriers and a symbolic channel with 2 taps "
                 "(inside the kept window): the noise-free estimate equals the DFT of the taps exactly (size_multiplier 1; cover-code variant "
                 "averaging the two slots, buffer with the cover-code dimension or flat = extra_dimension False), for 1 and 2 receive "
                 "antennas, normalisation flag False / True / numpy bool; frame: the caller's receive buffer keeps its shape and "
                 "entries, a second estimate from the same buffer returns the same")
def ob_estimator(variant, ant, norm):
    if norm == "np.bool_(True)":
        norm = np.bool_(True)
    flat = variant == "occ_flat"
    if flat:
        variant = "occ"

    def body(c, it):
        import pyphysim.reference_signals.channel_estimation as ce
        import pyphysim.reference_signals.dmrs as dmrs
        import pyphysim.reference_signals.srs as srs
        from pyphysim.reference_signals.root_sequence import RootSequence
        N, L = 4, 1
        root = RootSequence(1, size=36)
        r0 = _unit_seq(c, "r", N)
        taps = _cmat(c, "h", ant, L + 1)
        from pyvc.interp import _dft_matrix
        F = _dft_matrix(N, False)
        Hf = np.empty((ant, N), dtype=object)
        for a in range(ant):
            pad = np.zeros(N, dtype=object)
            pad[:L + 1] = taps[a]
            Hf[a] = np.dot(F, pad)
        if variant == "plain_two_users":
            # a second user transmits on cyclic shift 4 of 8 (phase ramp (-1)^m, see shift/linear_phase_ramp) through its OWN channel whose
            # delay spread fits its shift window: the estimate for the first user is still exactly the first user's channel
            N8 = 8
            r8 = _unit_seq(c, "r", N8)
            taps2 = _cmat(c, "g", ant, L + 1)
            F8 = _dft_matrix(N8, False)
            Hf = np.empty((ant, N8), dtype=object)
            Hf2 = np.empty((ant, N8), dtype=object)
            for a in range(ant):
                pad = np.zeros(N8, dtype=object)
                pad[:L + 1] = taps[a]
                Hf[a] = np.dot(F8, pad)
                pad2 = np.zeros(N8, dtype=object)
                pad2[:L + 1] = taps2[a]
                Hf2[a] = np.dot(F8, pad2)
            seq = it.call(srs.UeSequence, [root, 0, r8, norm])
            est = it.call(ce.CazacBasedChannelEstimator, [seq, 1])
            rs = it.call(it.getattr(seq, "seq_array"), [])
            ramp = np.array([1, -1] * (N8 // 2), dtype=object)
            Y = Hf * rs[np.newaxis, :] + Hf2 * (rs * ramp)[np.newaxis, :]
            if ant == 1:
                Y = Y[0]
            out = it.call(it.getattr(est, "estimate_channel_freq_domain"), [Y, L])
        elif variant == "plain_comb2":
            # SRS comb: the reference occupies every other of 2N subcarriers; the estimate covers all 2N (DFT contract of size 8)
            seq = it.call(srs.UeSequence, [root, 0, r0, norm])
            est = it.call(ce.CazacBasedChannelEstimator, [seq, 2])
            rs = it.call(it.getattr(seq, "seq_array"), [])
            F8 = _dft_matrix(2 * N, False)
            Hf = np.empty((ant, 2 * N), dtype=object)
            for a in range(ant):
                pad = np.zeros(2 * N, dtype=object)
                pad[:L + 1] = taps[a]
                Hf[a] = np.dot(F8, pad)
            Y = Hf[:, ::2] * rs[np.newaxis, :]
            if ant == 1:
                Y = Y[0]
            out = it.call(it.getattr(est, "estimate_channel_freq_domain"), [Y, L])
        elif variant == "plain":
            seq = it.call(srs.UeSequence, [root, 0, r0, norm])
            est = it.call(ce.CazacBasedChannelEstimator, [seq, 1])
            rs = it.call(it.getattr(seq, "seq_array"), [])
            Y = Hf * rs[np.newaxis, :]
            if ant == 1:
                Y = Y[0]
            out = it.call(it.getattr(est, "estimate_channel_freq_domain"), [Y, L])
        else:
            cc = np.array([1, -1])
            seq = it.call(dmrs.DmrsUeSequence.__mro__[1], [root, 0, np.array([r0 * cc[0], r0 * cc[1]], dtype=object), norm])
            seq.fields["_occ"] = cc
            seq.cls = dmrs.DmrsUeSequence if False else seq.cls
            est = it.new_object(ce.CazacBasedWithOCCChannelEstimator)
            it.call(it.ifunc_from_spec("pyphysim.reference_signals.channel_estimation:CazacBasedWithOCCChannelEstimator.__init__"),
                    [est, _OccSeq(it, seq, cc)])
            rs = it.call(it.getattr(seq, "seq_array"), [])
            Y = np.empty((ant, 2, N), dtype=object)
            for a in range(ant):
                for sl in range(2):
                    Y[a, sl] = Hf[a] * rs[sl]
            if ant == 1:
                Y = Y[0]
            if flat:
                Y = Y.reshape(2 * N) if ant == 1 else Y.reshape(ant, 2 * N)
            Y = np.ascontiguousarray(Y)
            shape0, items0 = Y.shape, list(Y.flat)
            args = [Y, L, False] if flat else [Y, L]
            out = it.call(it.getattr(est, "estimate_channel_freq_domain"), args)
        want = Hf if ant == 2 else Hf[0]
        goals = [Goal("estimate shape", np.shape(out) == np.shape(want))]
        if goals[0].cond:
            goals.append(Goal("estimate == DFT of the channel taps", _meq(out, want)))
        if variant == "occ":
            same = Y.shape == shape0 and all(a is b for a, b in zip(Y.flat, items0))
            goals.append(Goal("caller's receive buffer untouched (shape %s, entries)" % (shape0,), same))
            try:
                out2 = it.call(it.getattr(est, "estimate_channel_freq_domain"), args)
                goals.append(Goal("second estimate from the same buffer == first", np.shape(out2) == np.shape(want) and _meq(out2, want)))
            except PyRaise as pr:
                goals.append(Goal("second estimate from the same buffer raised %r" % (pr.exc,), False))
        if variant in ("plain", "occ"):
            # history on one estimator object: a later observation of the SAME shape from a shorter channel (one tap), estimated with
            # FEWER kept taps - nothing of the earlier estimate may leak into it
            g = _cmat(c, "g", ant, 1)
            Hb = np.empty((ant, N), dtype=object)
            for a in range(ant):
                pad = np.zeros(N, dtype=object)
                pad[0] = g[a, 0]
                Hb[a] = np.dot(F, pad)
            if variant == "plain":
                Yb = Hb * rs[np.newaxis, :]
                if ant == 1:
                    Yb = Yb[0]
                argsb = [Yb, 0]
            else:
                Yb = np.empty((ant, 2, N), dtype=object)
                for a in range(ant):
                    for sl in range(2):
                        Yb[a, sl] = Hb[a] * rs[sl]
                if ant == 1:
                    Yb = Yb[0]
                if flat:
                    Yb = Yb.reshape(2 * N) if ant == 1 else Yb.reshape(ant, 2 * N)
                Yb = np.ascontiguousarray(Yb)
                argsb = [Yb, 0, False] if flat else [Yb, 0]
            wantb = Hb if ant == 2 else Hb[0]
            try:
                outb = it.call(it.getattr(est, "estimate_channel_freq_domain"), argsb)
                goals.append(Goal("later estimate on the same object with fewer kept taps == DFT of ITS channel",
                                  np.shape(outb) == np.shape(wantb) and _meq(outb, wantb)))
            except PyRaise as pr:
                goals.append(Goal("later estimate with fewer kept taps raised %r" % (pr.exc,), False))
            # keeping EVERY tap (window as long as the allocation, and longer) is still the same estimator: exact for the first channel
            for keep in (N - 1, N + 2):
                argsk = list(args) if variant == "occ" else [Y, L]
                argsk[1] = keep
                try:
                    outk = it.call(it.getattr(est, "estimate_channel_freq_domain"), argsk)
                    goals.append(Goal("estimate with num_taps_to_keep = %d (no tap discarded) == DFT of the channel taps" % keep,
                                      np.shape(outk) == np.shape(want) and _meq(outk, want)))
                except PyRaise as pr:
                    goals.append(Goal("estimate with num_taps_to_keep = %d raised %r" % (keep, pr.exc), False))
        return goals
    return verify(body, check_side=False, timeout_ms=120000, replay=_replay_estimator(variant, ant, norm, flat))


def _replay_estimator(variant, ant, norm, flat):
    """the configuration of the obligation on the real classes at an LTE size (24 subcarriers, 2 taps, generic values)"""
    def rp(model):
        import pyphysim.reference_signals.channel_estimation as ce
        from pyphysim.reference_signals.root_sequence import RootSequence
        from pyphysim.reference_signals.srs import SrsUeSequence
        from pyphysim.reference_signals.dmrs import DmrsUeSequence
        try:
            for seed in range(3):
                rr = np.random.RandomState(90 + seed)
                size, L = 24, 2
                root = RootSequence(int(rr.randint(1, 20)), size=size)
                taps = rr.randn(ant, L) + 1j * rr.randn(ant, L)
                Hf = np.fft.fft(taps, size)
                where = {"confirmed": True, "variant": variant + ("_flat" if flat else ""), "antennas": ant, "normalize": repr(norm), "size": size, "taps": L}
                if variant == "occ":
                    seq = DmrsUeSequence(root, 0, cover_code=np.array([1, -1]), normalize=norm)
                    est = ce.CazacBasedWithOCCChannelEstimator(seq)
                    Y = Hf[:, np.newaxis, :] * seq.seq_array()[np.newaxis, :, :]
                    if ant == 1:
                        Y = Y[0]
                    if flat:
                        Y = Y.reshape(2 * size) if ant == 1 else Y.reshape(ant, 2 * size)
                    Y = np.ascontiguousarray(Y)
                    fr = Frame(Y=Y)
                    args = (Y, L - 1, False) if flat else (Y, L - 1)
                    got = est.estimate_channel_freq_domain(*args)
                    want = np.fft.fft(taps, size)
                    want = want if ant > 1 else want[0]
                    if np.shape(got) != want.shape or (not (np.abs(got - want).max() <= 1e-8 * max(1.0, np.abs(want).max()))):
                        return dict(where, max_error=float(np.abs(got - want).max()) if np.shape(got) == want.shape else "shape")
                    if fr.changed():
                        return dict(where, frame=fr.changed())
                    got2 = est.estimate_channel_freq_domain(*args)
                    if np.shape(got2) != want.shape or (not (np.abs(got2 - want).max() <= 1e-8 * max(1.0, np.abs(want).max()))):
                        return dict(where, second_estimate_from_the_same_buffer="differs")
                    # the same estimator, a later observation of the same shape from a one-tap channel, fewer kept taps
                    tb = rr.randn(ant, 1) + 1j * rr.randn(ant, 1)
                    Yb = np.fft.fft(tb, size)[:, np.newaxis, :] * seq.seq_array()[np.newaxis, :, :]
                    if ant == 1:
                        Yb = Yb[0]
                    if flat:
                        Yb = Yb.reshape(2 * size) if ant == 1 else Yb.reshape(ant, 2 * size)
                    gb = est.estimate_channel_freq_domain(*((np.ascontiguousarray(Yb), 0, False) if flat else (np.ascontiguousarray(Yb), 0)))
                    wb = np.fft.fft(tb, size)
                    wb = wb if ant > 1 else wb[0]
                    if np.shape(gb) != wb.shape or (not (np.abs(gb - wb).max() <= 1e-8 * max(1.0, np.abs(wb).max()))):
                        return dict(where, history="estimate (2 taps kept), then an observation of a one-tap channel estimated with fewer kept taps "
                                    "on the same estimator object", max_error=float(np.abs(gb - wb).max()) if np.shape(gb) == wb.shape else "shape")
                    continue
                seq = SrsUeSequence(root, 0, normalize=norm)
                Y = Hf * seq.seq_array()[np.newaxis, :]
                if variant == "plain_two_users":
                    taps2 = rr.randn(ant, L) + 1j * rr.randn(ant, L)
                    Y = Y + np.fft.fft(taps2, size) * SrsUeSequence(root, 4, normalize=norm).seq_array()[np.newaxis, :]
                est = ce.CazacBasedChannelEstimator(seq)
                got = est.estimate_channel_freq_domain(Y if ant > 1 else Y[0], L - 1)
                want = np.fft.fft(taps, 2 * size)
                want = want if ant > 1 else want[0]
                if np.shape(got) != want.shape or (not (np.abs(got - want).max() <= 1e-8 * max(1.0, np.abs(want).max()))):
                    return dict(where, max_error=float(np.abs(got - want).max()) if np.shape(got) == want.shape else "shape",
                                scale=float(np.abs(got).max() / max(np.abs(want).max(), 1e-300)) if np.shape(got) == want.shape else None)
                if variant == "plain":
                    tb = rr.randn(ant, 1) + 1j * rr.randn(ant, 1)
                    Yb = np.fft.fft(tb, size) * seq.seq_array()[np.newaxis, :]
                    gb = est.estimate_channel_freq_domain(Yb if ant > 1 else Yb[0], 0)
                    wb = np.fft.fft(tb, 2 * size)
                    wb = wb if ant > 1 else wb[0]
                    if np.shape(gb) != wb.shape or (not (np.abs(gb - wb).max() <= 1e-8 * max(1.0, np.abs(wb).max()))):
                        return dict(where, history="estimate (2 taps kept), then an observation of a one-tap channel estimated with fewer kept taps "
                                    "on the same estimator object", max_error=float(np.abs(gb - wb).max()) if np.shape(gb) == wb.shape else "shape")
            return {"confirmed": False, "note": "real estimator exact for generic channels in this configuration"}
        except Exception as e:
            return {"confirmed": False, "error": "replay crashed: %r" % (e,)}
    return rp


class _OccSeq:
    """adapter: what CazacBasedWithOCCChannelEstimator reads from a DmrsUeSequence (cover_code, seq_array(), normalized)"""

    def __init__(self, it, seq, cc):
        self._it, self._seq, self.cover_code = it, seq, cc

    def seq_array(self):
        return self._it.call(self._it.getattr(self._seq, "seq_array"), [])

    @property
    def normalized(self):
        return self._it.getattr(self._seq, "normalized")


# ------------------------------------------------------------------ exhaustive / bounded native
def _is_prime(q):
    return q >= 2 and all(q % d for d in range(2, int(math.isqrt(q)) + 1))


@obligation("prime/largest_prime_not_exceeding_size", kind="exhaustive",
            desc="RootSequence(size).Nzc for EVERY allowed size (12, 24, 25..1200): 12/24 use the tabulated sequences, otherwise Nzc is prime, "
                 "<= size, and no prime lies in (Nzc, size]; the sequence has `size` elements")
def ob_prime():
    from pyphysim.reference_signals.root_sequence import RootSequence

    def check(case):
        size = case["size"]
        rs = RootSequence(1, size=size)
        if rs.size != size or rs.seq_array().size != size:
            return {"size": rs.size}
        if size in (12, 24):
            return None if rs.Nzc == size else {"Nzc": rs.Nzc}
        p = rs.Nzc
        if not _is_prime(p) or (not (p <= size)) or any(_is_prime(q) for q in range(p + 1, size + 1)):
            return {"Nzc": p, "largest prime <= size": max(q for q in range(2, size + 1) if _is_prime(q))}
        return None
    return exhaustive([{"size": s} for s in [12, 24] + list(range(25, 1201))], check)


@obligation("native/cazac_properties", kind="bounded", timeout=1500,
            desc="calcBaseZC for every root index and every prime length <= 211 (quick) / <= 1193 (thorough, every 5th root): unit amplitude, "
                 "zero cyclic autocorrelation at all non-zero lags, flat spectrum (1e-9); extension repeats cyclically; user sequences "
                 "with different cyclic shifts are orthogonal when the length is a multiple of the number of shifts")
def ob_cazac():
    from pyphysim.reference_signals.zadoffchu import calcBaseZC, get_extended_ZF
    from pyphysim.reference_signals.root_sequence import RootSequence
    from pyphysim.reference_signals.srs import SrsUeSequence
    from pyphysim.reference_signals.dmrs import DmrsUeSequence

    def gen():
        lim = 211 if quick() else 1193
        for N in range(3, lim + 1):
            if _is_prime(N):
                step = 1 if N <= 61 else (7 if quick() else 5)
                for u in range(1, N, step):
                    yield {"N": N, "u": u}
        for size in (24, 36, 48, 72, 96, 144):
            yield {"orth": size}

    def check(case):
        if "orth" in case:
            size = case["orth"]
            root = RootSequence(3, size=size)
            for cls, shifts in ((SrsUeSequence, 8), (DmrsUeSequence, 12)):
                if size % shifts:
                    continue
                seqs = [cls(root, n).seq_array() for n in range(shifts)]
                G = np.array([[abs(np.vdot(a, b)) for b in seqs] for a in seqs])
                if (not (np.abs(G - np.diag(np.diag(G))).max() <= 1e-9 * size)):
                    return {"shifts not orthogonal": cls.__name__, "size": size}
            return None
        N, u = case["N"], case["u"]
        a = calcBaseZC(N, u)
        if (not (np.abs(np.abs(a) - 1).max() <= 1e-12)):
            return {"amplitude": float(np.abs(np.abs(a) - 1).max())}
        A = np.fft.fft(a)
        if (not (np.abs(np.abs(A) - math.sqrt(N)).max() <= 1e-9 * N)):
            return {"spectrum not flat": float(np.abs(np.abs(A) - math.sqrt(N)).max())}
        ac = np.fft.ifft(A * A.conj())
        if (not (np.abs(ac[1:]).max() <= 1e-9 * N)):
            return {"autocorrelation": float(np.abs(ac[1:]).max())}
        e = get_extended_ZF(a, N + 7)
        if e.size != N + 7 or (not (np.abs(e - a[np.arange(N + 7) % N]).max() <= 0)):
            return {"extension": True}
        return None
    return bounded(gen(), check)


@obligation("native/estimators_lte_sizes", kind="bounded", timeout=900,
            desc="CAZAC-based estimators (plain SRS comb, DMRS, cover-code) at LTE sizes 24..144, 1..N/8 taps, 1..4 receive antennas, normalised "
                 "or not, shared RootSequence objects across users: noise-free estimate == channel frequency response (1e-9); unaffected by "
                 "simultaneously transmitting users on other cyclic shifts whose responses fit their window; sequences untouched by use")
def ob_est_native():
    import pyphysim.reference_signals.channel_estimation as ce
    from pyphysim.reference_signals.root_sequence import RootSequence
    from pyphysim.reference_signals.srs import SrsUeSequence
    from pyphysim.reference_signals.dmrs import DmrsUeSequence
    r = stable_rng("C18est")

    def gen():
        for i in range(80 if quick() else 800):
            yield {"seed": int(r.randint(1 << 30)), "kind": ["srs", "dmrs", "occ"][i % 3]}

    def check(case):
        rr = np.random.RandomState(case["seed"])
        size = int(rr.choice([24, 36, 48, 72, 96, 144]))
        root = RootSequence(int(rr.randint(1, 25)), size=size)
        root_before = root.seq_array().copy()
        nshift = 8 if case["kind"] == "srs" else 12
        L = int(rr.randint(1, max(2, size // nshift // 1) if False else max(2, size // (2 * nshift) + 1)))
        ant = int(rr.randint(1, 5))
        norm = bool(rr.randint(2))
        users = sorted(rr.choice(nshift, size=int(rr.randint(1, 4)), replace=False).tolist())
        if size % nshift:
            users = users[:1]          # other users are only rejected when the length is a multiple of the number of shifts
        if case["kind"] == "srs":
            seqs = [SrsUeSequence(root, n, normalize=norm) for n in users]
        elif case["kind"] == "dmrs":
            seqs = [DmrsUeSequence(root, n, normalize=norm) for n in users]
        else:
            seqs = [DmrsUeSequence(root, n, cover_code=np.array([1, [-1, 1][rr.randint(2)]]), normalize=norm) for n in users]
        if (not (np.abs(root.seq_array() - root_before).max() <= 0)) or (not (np.abs(np.abs(root.seq_array()) - 1).max() <= 1e-9)):
            return {"root sequence modified by creating user sequences": True}
        taps = [(rr.randn(ant, L) + 1j * rr.randn(ant, L)) for _ in users]
        Hf = [np.fft.fft(t, size) for t in taps]
        if case["kind"] == "occ":
            Y = sum(h[:, np.newaxis, :] * s.seq_array()[np.newaxis, :, :] for h, s in zip(Hf, seqs))
        else:
            Y = sum(h * s.seq_array()[np.newaxis, :] for h, s in zip(Hf, seqs))
        if case["kind"] == "occ" and len(set(tuple(s.cover_code) for s in seqs)) > 1:
            pass
        for ui, s in enumerate(seqs):
            if case["kind"] == "occ":
                same_cc_shift_clash = False
                est = ce.CazacBasedWithOCCChannelEstimator(s)
                got = est.estimate_channel_freq_domain(Y if ant > 1 else Y[0], L - 1 if L > 1 else 0)
                mult = 1
            else:
                est = ce.CazacBasedChannelEstimator(s)
                got = est.estimate_channel_freq_domain(Y if ant > 1 else Y[0], L - 1 if L > 1 else 0)
                mult = 2
            want = np.fft.fft(taps[ui], mult * size)
            if ant == 1:
                want = want[0]
            if got.shape != want.shape:
                return {"shape": [list(got.shape), list(want.shape)]}
            if case["kind"] == "occ" and len(users) > 1:
                continue        # users separated by different cover codes share shifts only by construction above; single-user exactness checked
            if (not (np.abs(got - want).max() <= 1e-8 * max(1.0, np.abs(want).max()))):
                return {"kind": case["kind"], "normalised": norm, "users": users, "user": users[ui], "antennas": ant, "taps": L,
                        "max error": float(np.abs(got - want).max()), "scale |est|/|H|": float(np.abs(got).max() / max(np.abs(want).max(), 1e-300))}
        return None
    return bounded(gen(), check)
