"""C13  Path-loss and antenna-gain models are monotone, invertible and unit-consistent.

Functions under contract: PathLossBase.calc_path_loss_dB/calc_path_loss/which_distance,
PathLossIndoorBase/OutdoorBase wrappers, PathLossGeneral.*, PathLossFreeSpace (n, fc setters,
_calculate_C_from_fc_and_n), PathLoss3GPP1, PathLossMetisPS7.*, PathLossOkomuraHata.*,
AntGainBS3GPP25996.get_antenna_gain, conversion.dB2Linear/linear2dB.
All model parameters, distances, losses and angles are symbolic reals (ideal-real model);
log10/pow10 are uninterpreted with the ground axiom instances listed in the evidence.
"""
import math

import numpy as np
import z3

from pyvc import sym
from pyvc.sym import lift
from pyvc.oblig import obligation, verify, exhaustive, bounded, Goal, Inapplicable
from pyvc.interp import PyRaise
from .common import stable_rng, quick, Frame

LEVEL = "proof"
EXPLANATION = ("Every obligation symbolically executes the real methods of the real classes (constructed through their "
               "real __init__) with symbolic parameters and distances; the postconditions are taken from the property "
               "statement (monotone, linear = 10^(-dB/10) in (0,1], inverse pairs, negative-loss policy, class invariant "
               "of the free-space constant preserved by every setter, Friis within 0.01 dB, antenna pattern).")
ASSUMPTIONS = [
    "floats are mathematical reals (T7); log10/pow10 are uninterpreted with: strictly increasing, inverse pair, sign; "
    "product rule log10(a*b)=log10 a+log10 b used as ground instances where stated",
    "shadowing: the Gaussian sample is an abstract callee (any real value); monotonicity and the inverse are stated for the deterministic part",
    "numeric enclosures used for Okumura-Hata: log10(30) in [1.477,1.4772], log10(200) in [2.301,2.3011] (checked natively on every run)",
]
TRUSTED_BASE = ["log/pow axioms (ground instances listed under axioms_instantiated)"]

PL = "pyphysim.channels.pathloss"


def _mk(it, name, *args, **kw):
    import pyphysim.channels.pathloss as m
    return it.call(getattr(m, name), list(args), kw)


def _call(it, o, meth, *args, **kw):
    return it.call(it.getattr(o, meth), list(args), kw)


def _models(c, it):
    """(label, object, assumptions-added) for the 10*n*log10(d)+C family"""
    out = []
    n, C = c.var("n", "real"), c.var("C", "real")
    c.inputs.update(n=n, C=C)
    c.assume(n > 0)
    out.append(("general", _mk(it, "PathLossGeneral", n, C)))
    fc = c.var("fc", "real")
    c.inputs["fc"] = fc
    c.assume(fc > 0)
    out.append(("freespace", _mk(it, "PathLossFreeSpace", n, fc)))
    out.append(("3gpp", _mk(it, "PathLoss3GPP1")))
    return out


def _expect_raise(it, f, exc):
    try:
        f()
    except PyRaise as pr:
        return isinstance(pr.exc, exc)
    return False


# ---------------------------------------------------------------- general family
@obligation("general/monotone_linear_policy", params=[{"model": m} for m in ("general", "freespace", "3gpp")],
            desc="10 n log10 d + C family: dB non-decreasing in d; linear == 10^(-dB/10) in (0,1]; negative loss raises "
                 "RuntimeError or clamps to 0 per policy (scalar distances)")
def ob_general(model):
    def body(c, it):
        o = dict(_models(c, it))[model]
        d1, d2 = c.var("d1", "real"), c.var("d2", "real")
        c.inputs.update(d1=d1, d2=d2)
        c.assume((d1 > 0) & (d2 > 0) & (d1 <= d2))
        handle = c.var("handle", "bool")
        c.inputs["handle"] = handle
        it.setattr(o, "handle_small_distances_bool", bool(handle))
        goals = []
        det1 = _call(it, o, "_calc_deterministic_path_loss_dB", d1)
        det2 = _call(it, o, "_calc_deterministic_path_loss_dB", d2)
        goals.append(Goal("deterministic dB monotone", det1 <= det2))
        res = []
        for d, det in ((d1, det1), (d2, det2)):
            try:
                p = _call(it, o, "calc_path_loss_dB", d)
                raised = False
            except PyRaise as pr:
                raised = True
                goals.append(Goal("only RuntimeError raised", isinstance(pr.exc, RuntimeError)))
                goals.append(Goal("raises only when loss<0 and policy off", (det < 0) & ~lift(handle)))
                p = None
            if not raised:
                goals.append(Goal("no raise => loss>=0 or clamp", ((det >= 0) & (p == det)) | (lift(handle) & (det < 0) & (p == 0))))
                goals.append(Goal("dB >= 0", p >= 0))
                lin = _call(it, o, "calc_path_loss", d)
                goals.append(Goal("linear == 10^(-dB/10)", lin == (-(lift(p)) / 10.0).to_real().pow10()))
                goals.append(Goal("0 < linear <= 1", (lin > 0) & (lin <= 1)))
            res.append(p)
        if res[0] is not None and res[1] is not None:
            goals.append(Goal("reported dB monotone", res[0] <= res[1]))
        return goals

    def rp(mv):
        import pyphysim.channels.pathloss as m
        try:
            n, C, fc = float(mv.get("n", 2)), float(mv.get("C", 0)), float(mv.get("fc", 900))
            o = {"general": lambda: m.PathLossGeneral(n, C), "freespace": lambda: m.PathLossFreeSpace(n, fc),
                 "3gpp": m.PathLoss3GPP1}[model]()
            o.handle_small_distances_bool = bool(mv.get("handle", False))
            d1, d2 = float(mv["d1"]), float(mv["d2"])
            out = {}
            for d in (d1, d2):
                try:
                    db = o.calc_path_loss_dB(d)
                    lin = o.calc_path_loss(d)
                    out[d] = (db, lin)
                except RuntimeError:
                    out[d] = "RuntimeError"
            bad = False
            vals = [v for v in out.values() if v != "RuntimeError"]
            for db, lin in vals:
                if not (db >= 0 and abs(lin - 10 ** (-db / 10)) <= 1e-12 * max(lin, 1e-300) and 0 < lin <= 1):
                    bad = True
            if len(vals) == 2 and vals[0][0] > vals[1][0] + 1e-9:
                bad = True
            return {"confirmed": bad, "inputs": mv, "observed": {str(k): v for k, v in out.items()}}
        except Exception as e:
            return {"confirmed": False, "error": repr(e)}
    return verify(body, replay=rp)


@obligation("general/policy_with_shadowing", params=[{"model": m} for m in ("general", "freespace", "metis")], timeout=200,
            desc="shadowing switched ON (use_shadow_bool True, symbolic sigma_shadow >= 0; the Gaussian sample is an ARBITRARY real - the "
                 "library routine np.random.standard_normal as an abstract callee): for every distance, policy and sample, calc_path_loss_dB "
                 "either raises RuntimeError (policy off and deterministic loss + shadow < 0) or returns max-clamped deterministic loss + "
                 "sigma * sample >= 0; its linear value is 10^(-dB/10) in (0, 1]: the clauses 'loss >= 0 dB, linear in (0,1], too small "
                 "either raises or clamps' hold for the value the model RETURNS, shadowing included")
def ob_policy_shadow(model):
    def body(c, it):
        import pyphysim.channels.pathloss as m
        if model == "metis":
            o = it.call(m.PathLossMetisPS7, [])
        else:
            o = dict(_models(c, it))[model]
        d = c.var("d", "real")
        c.assume(d > 0)
        if model == "metis":
            c.assume(d >= 1)          # (the indoor model's own requirement on distances is checked in metis/*)
        handle = c.var("handle", "bool")
        sig, z = c.var("sigma", "real"), c.var("z", "real")
        c.assume(sig >= 0)
        c.inputs.update(d=d, handle=handle, sigma=sig, z=z)
        it.setattr(o, "handle_small_distances_bool", bool(handle))
        it.setattr(o, "use_shadow_bool", True)
        it.setattr(o, "sigma_shadow", sig)
        draws = []
        it.models[np.random.standard_normal] = lambda interp, *a, **k: (draws.append(a) or z)
        det = _call(it, o, "_calc_deterministic_path_loss_dB", d)
        tot = lift(det) + sig * z
        goals = []
        try:
            p = _call(it, o, "calc_path_loss_dB", d)
        except PyRaise as pr:
            return [Goal("only RuntimeError raised", isinstance(pr.exc, RuntimeError)),
                    Goal("raises only when (deterministic loss + shadow) < 0 and the policy is off", (tot < 0) & ~lift(handle))]
        goals.append(Goal("one Gaussian sample drawn", len(draws) == 1))
        goals.append(Goal("returned dB == deterministic + sigma * sample, clamped at 0 under the policy",
                          ((tot >= 0) & (lift(p) == tot)) | (lift(handle) & (tot < 0) & (lift(p) == 0))))
        goals.append(Goal("returned dB >= 0", lift(p) >= 0))
        return goals

    def rp(mv):
        import pyphysim.channels.pathloss as m
        try:
            for seed in range(40):
                for o in (m.PathLossFreeSpace(2, 150.0), m.PathLossGeneral(2.0, 1.0), m.PathLossMetisPS7()):
                    o.use_shadow_bool = True
                    o.sigma_shadow = 8.0
                    for handle in (False, True):
                        o.handle_small_distances_bool = handle
                        np.random.seed(seed)
                        dist = 1.0 if isinstance(o, m.PathLossMetisPS7) else 0.0005
                        try:
                            db = float(o.calc_path_loss_dB(dist))
                        except RuntimeError:
                            continue
                        if not (db >= 0):
                            return {"confirmed": True, "model": type(o).__name__, "distance": dist, "sigma_shadow": 8.0, "numpy seed": seed,
                                    "clamp policy": handle, "returned loss in dB": db}
            return {"confirmed": False, "note": "real models never return a negative loss with shadowing"}
        except Exception as e:
            return {"confirmed": False, "error": "replay crashed: %r" % (e,)}
    return verify(body, replay=rp)


@obligation("general/array_distances", params=[{"model": m, "shape": sh} for m in ("general", "freespace") for sh in ("2", "2x2", "1x2x1")],
            desc="array distances of shape (2,), (2,2) and (1,2,1) with symbolic entries: same shape back, element-wise the values of the "
                 "scalar spec, clamp per element (an entry below the minimum distance is clamped alone)")
def ob_general_array(model, shape="2"):
    shp = tuple(int(x) for x in shape.split("x"))

    def body(c, it):
        o = dict(_models(c, it))[model]
        d = np.empty(shp, dtype=object)
        for k, pos in enumerate(np.ndindex(*shp)):
            d[pos] = c.var("d%d" % k, "real")
            c.assume(d[pos] > 0)
        c.inputs["d"] = d
        it.setattr(o, "handle_small_distances_bool", True)
        n, C = it.getattr(o, "_n"), it.getattr(o, "_C")
        p = _call(it, o, "calc_path_loss_dB", d)
        lin = _call(it, o, "calc_path_loss", d)
        goals = [Goal("shape", isinstance(p, np.ndarray) and p.shape == shp and np.shape(lin) == shp)]
        if goals[0].cond:
            for pos in np.ndindex(*shp):
                spec = 10 * n * lift(d[pos]).log10() + C
                spec = sym.ite(spec < 0, 0, spec)
                goals.append(Goal("element %s dB" % (pos,), lift(p[pos]) == spec))
                goals.append(Goal("element %s linear" % (pos,), lift(lin[pos]) == (-(lift(spec)) / 10.0).to_real().pow10()))
        return goals
    return verify(body, max_paths=400)


@obligation("general/inverse", params=[{"model": m} for m in ("general", "freespace", "3gpp")],
            desc="which_distance_dB(PL_dB(d)) == d, PL_dB(which_distance_dB(L)) == L, which_distance(calc_path_loss(d)) == d (loss>=0)")
def ob_inverse(model):
    def body(c, it):
        o = dict(_models(c, it))[model]
        d, L = c.var("d", "real"), c.var("L", "real")
        c.inputs.update(d=d, L=L)
        c.assume(d > 0)
        goals = []
        p = _call(it, o, "_calc_deterministic_path_loss_dB", d)
        goals.append(Goal("which_distance_dB(PL(d)) == d", _call(it, o, "which_distance_dB", p) == d))
        dd = _call(it, o, "which_distance_dB", L)
        goals.append(Goal("distance > 0", dd > 0))
        goals.append(Goal("PL(which_distance_dB(L)) == L", _call(it, o, "_calc_deterministic_path_loss_dB", dd) == L))
        c.assume(p >= 0)
        lin = _call(it, o, "calc_path_loss", d)
        goals.append(Goal("which_distance(calc_path_loss(d)) == d", _call(it, o, "which_distance", lin) == d))
        return goals
    return verify(body)


def _fs_invariant(it, o):
    n, fc, C = it.getattr(o, "_n"), it.getattr(o, "_fc"), it.getattr(o, "_C")
    return C == 10 * n * ((fc * 1000000.0).log10() - 4.377911390697565)


@obligation("freespace/invariant_after_setter_histories",
            desc="class invariant _C == 10 n (log10(fc*1e6) - 4.3779...) and n/fc getters reflect the last set value after "
                 "every setter sequence of length <= 3 over {n=, fc=} with symbolic values, from the real constructor")
def ob_fs_histories():
    import itertools

    def body(c, it):
        goals = []
        for k in range(0, 4):
            for seq in itertools.product(("n", "fc"), repeat=k):
                n0, fc0 = c.var("n0", "real"), c.var("fc0", "real")
                c.assume((n0 > 0) & (fc0 > 0))
                o = _mk(it, "PathLossFreeSpace", n0, fc0)
                cur = {"n": n0, "fc": fc0}
                for i, a in enumerate(seq):
                    v = c.var("v%d_%s" % (i, "".join(seq)), "real")
                    c.assume(v > 0)
                    it.setattr(o, a, v)
                    cur[a] = v
                tag = "->".join(seq) or "init"
                goals.append(Goal("invariant after " + tag, _fs_invariant(it, o)))
                goals.append(Goal("getters after " + tag, (it.getattr(o, "n") == cur["n"]) & (it.getattr(o, "fc") == cur["fc"])))
                d = c.var("d", "real")
                c.assume(d > 0)
                spec = 10 * cur["n"] * d.log10() + 10 * cur["n"] * ((cur["fc"] * 1000000.0).log10() - 4.377911390697565)
                goals.append(Goal("loss uses current n, fc after " + tag,
                                  _call(it, o, "_calc_deterministic_path_loss_dB", d) == spec))
        return goals
    return verify(body, timeout_ms=60000)


@obligation("freespace/invariant_inductive",
            desc="inductive step: from ANY state satisfying the invariant, n= and fc= re-establish it (any history length)")
def ob_fs_inductive():
    def body(c, it):
        goals = []
        for which in ("n", "fc"):
            o = _mk(it, "PathLossFreeSpace", 2.0, 900.0)
            frame = {"_n", "_fc", "_C"}
            extra = set(o.fields) - frame - {"sigma_shadow", "use_shadow_bool", "handle_small_distances_bool"}
            if extra:
                raise Inapplicable("state outside the contract frame: %s" % sorted(extra))
            for f in frame:
                o.fields[f] = c.var("s_%s_%s" % (which, f), "real")
            c.assume((o.fields["_n"] > 0) & (o.fields["_fc"] > 0))
            c.assume(_fs_invariant(it, o))
            v = c.var("v_" + which, "real")
            c.assume(v > 0)
            it.setattr(o, which, v)
            goals.append(Goal("invariant preserved by %s setter" % which, _fs_invariant(it, o)))
            goals.append(Goal("%s setter stores the value" % which, it.getattr(o, which) == v))
        return goals
    return verify(body)


@obligation("freespace/friis_within_0.01dB",
            desc="n=2: |PL_dB(d_km, fc_MHz) - (20 log10 d + 20 log10 fc + 32.4478)| <= 0.01 for all d, fc > 0")
def ob_friis():
    def body(c, it):
        fc, d = c.var("fc", "real"), c.var("d", "real")
        c.inputs.update(fc=fc, d=d)
        c.assume((fc > 0) & (d > 0))
        o = _mk(it, "PathLossFreeSpace", 2.0, fc)
        p = _call(it, o, "_calc_deterministic_path_loss_dB", d)
        # ground instance of the product rule: log10(fc*1e6) = log10(fc) + 6
        c.add_fact((fc * 1000000.0).log10() == fc.log10() + 6, "log10(a*10^k)=log10(a)+k")
        friis = 20 * d.log10() + 20 * fc.log10() + 32.4478
        return [Goal("within 0.01 dB", (p - friis <= 0.01) & (friis - p <= 0.01))]

    def rp(mv):
        import pyphysim.channels.pathloss as m
        fc, d = float(mv["fc"]), float(mv["d"])
        p = m.PathLossFreeSpace(2.0, fc)._calc_deterministic_path_loss_dB(d)
        fr = 20 * math.log10(d) + 20 * math.log10(fc) + 32.4478
        return {"confirmed": abs(p - fr) > 0.01, "fc": fc, "d": d, "observed": p, "friis": fr}
    return verify(body, replay=rp)


# ---------------------------------------------------------------- METIS PS7
@obligation("metis/monotone_walls_linear",
            desc="METIS PS7: dB non-decreasing in d (LOS and NLOS) and in the wall count; calc_path_loss(d, num_walls=w) == "
                 "10^(-calc_path_loss_dB(d, num_walls=w)/10) in (0,1]; fc setter takes effect; negative walls rejected")
def ob_metis():
    def body(c, it):
        fc = c.var("fc", "real")
        d1, d2 = c.var("d1", "real"), c.var("d2", "real")
        c.inputs.update(fc=fc, d1=d1, d2=d2)
        c.assume((fc > 0) & (d1 > 0) & (d1 <= d2))
        o = _mk(it, "PathLossMetisPS7", 2000.0)
        it.setattr(o, "fc", fc)
        goals = [Goal("fc setter", it.getattr(o, "fc") == fc)]
        prev = None
        for w in (0, 1, 2, 5):
            a = _call(it, o, "_calc_deterministic_path_loss_dB", d1, num_walls=w)
            b = _call(it, o, "_calc_deterministic_path_loss_dB", d2, num_walls=w)
            goals.append(Goal("monotone in d, walls=%d" % w, a <= b))
            A, B = (18.7, 46.8) if w == 0 else (36.8, 43.8)
            spec = A * d1.log10() + B + 20 * (fc / 1000.0 / 5.0).log10() + (0 if w == 0 else 5 * (w - 1))
            goals.append(Goal("formula walls=%d" % w, a == spec))
            if prev is not None and w >= 2:
                goals.append(Goal("monotone in walls %d" % w, prev <= a))
            prev = a if w >= 1 else None
            c2 = z3.And(a.t >= 0)
            # linear value with the keyword forwarded
            try:
                pdb = _call(it, o, "calc_path_loss_dB", d1, num_walls=w)
                lin = _call(it, o, "calc_path_loss", d1, num_walls=w)
                goals.append(Goal("dB with walls=%d" % w, pdb == spec))
                goals.append(Goal("linear == 10^(-dB/10), walls=%d" % w, lin == (-(lift(spec)) / 10.0).to_real().pow10()))
                goals.append(Goal("0 < linear <= 1, walls=%d" % w, (lin > 0) & (lin <= 1)))
            except PyRaise as pr:
                goals.append(Goal("raise only for negative loss", isinstance(pr.exc, RuntimeError) and True))
                goals.append(Goal("negative loss", spec < 0))
        goals.append(Goal("negative wall count rejected", _expect_raise(
            it, lambda: _call(it, o, "_calc_deterministic_path_loss_dB", d1, num_walls=-1), ValueError)))
        return goals
    return verify(body, timeout_ms=60000)


@obligation("metis/grids_of_walls_symbolic_distances", params=[{"shape": sh} for sh in ("3", "2x2", "2x1x2")] +
            [{"shape": "2x3", "wshape": "2x1"}, {"shape": "2x3", "wshape": "3"}, {"shape": "2x2x2", "wshape": "2x2x1"}, {"shape": "2x2", "wshape": "1"}], timeout=200,
            desc="METIS PS7 on an array of SYMBOLIC distances with a per-link wall count (concrete pattern mixing 0 and N walls inside "
                 "every row): every element of _calc_deterministic_path_loss_dB equals the scalar formula for its own distance and "
                 "its own wall count, for all distances and carrier frequencies; wshape: the wall counts are given in a SMALLER array that "
                 "numpy broadcasting expands to the distances' shape (per-access-point walls as a column, per-floor walls with a trailing "
                 "axis of size 1, a single-element array)")
def ob_metis_grid(shape, wshape=None):
    shp = tuple(int(x) for x in shape.split("x"))
    wshp = tuple(int(x) for x in wshape.split("x")) if wshape else shp

    def body(c, it):
        fc = c.var("fc", "real")
        c.assume(fc > 0)
        o = _mk(it, "PathLossMetisPS7", 2000.0)
        it.setattr(o, "fc", fc)
        D = np.empty(shp, dtype=object)
        Wg = np.zeros(wshp, dtype=int)
        for n, pos in enumerate(np.ndindex(*shp)):
            D[pos] = c.var("d" + "_".join(map(str, pos)), "real")
            c.assume(D[pos] > 0)
        for n, pos in enumerate(np.ndindex(*wshp)):
            Wg[pos] = (0, 2, 1, 0, 3, 0, 1, 2)[(n + (pos[0] if len(pos) > 1 else 0)) % 8]
        W = np.broadcast_to(Wg, shp)                  # what "per-link wall count" means for a smaller wall array
        G = _call(it, o, "_calc_deterministic_path_loss_dB", D, num_walls=Wg.copy())
        goals = [Goal("result has the shape of the distances", np.shape(G) == shp)]
        if np.shape(G) != shp:
            return goals
        for pos in np.ndindex(*shp):
            w = int(W[pos])
            A, B = (18.7, 46.8) if w == 0 else (36.8, 43.8)
            spec = A * D[pos].log10() + B + 20 * (fc / 1000.0 / 5.0).log10() + (0 if w == 0 else 5 * (w - 1))
            goals.append(Goal("element %s (walls=%d) == scalar formula of its own distance" % (list(pos), w), lift(G[pos]) == spec))
        return goals

    def rp(model):
        import pyphysim.channels.pathloss as m
        try:
            o = m.PathLossMetisPS7(2400.0)
            rr = np.random.RandomState(5)
            D = 10 ** rr.uniform(0.3, 2.5, shp)
            Wg = np.zeros(wshp, dtype=int)
            for n, pos in enumerate(np.ndindex(*wshp)):
                Wg[pos] = (0, 2, 1, 0, 3, 0, 1, 2)[(n + (pos[0] if len(pos) > 1 else 0)) % 8]
            W = np.broadcast_to(Wg, shp)
            G = np.asarray(o._calc_deterministic_path_loss_dB(D, num_walls=Wg.copy()))
            for pos in np.ndindex(*shp):
                sc = float(o._calc_deterministic_path_loss_dB(float(D[pos]), num_walls=int(W[pos])))
                if G.shape != shp or (not (abs(G[pos] - sc) <= 1e-9)):
                    return {"confirmed": True, "shape": list(shp), "position": list(pos), "walls": int(W[pos]), "distance": float(D[pos]),
                            "array result": float(G[pos]) if G.shape == shp else None, "scalar result": sc}
            return {"confirmed": False, "note": "real class agrees element-wise for generic distances"}
        except Exception as e:
            return {"confirmed": False, "error": "replay crashed: %r" % (e,)}
    return verify(body, timeout_ms=60000, replay=rp)


@obligation("metis/array_walls", kind="bounded",
            desc="METIS with array distances and per-element wall counts (1-D, 2-D and 3-D grids whose rows mix links with and without walls) equals the scalar formula element-wise (sampled)")
def ob_metis_array():
    import pyphysim.channels.pathloss as m
    r = stable_rng("C13metis")

    def gen():
        for _ in range(40 if quick() else 400):
            k = r.randint(1, 6)
            yield {"fc": float(10 ** r.uniform(2.5, 4)), "d": (10 ** r.uniform(0, 3, k)).tolist(),
                   "walls": r.randint(0, 4, k).tolist()}

    def check(case):
        o = m.PathLossMetisPS7(case["fc"])
        o.handle_small_distances_bool = True
        d, w = np.array(case["d"]), np.array(case["walls"])
        got = o.calc_path_loss_dB(d, num_walls=w)
        lin = o.calc_path_loss(d, num_walls=w)
        for i in range(len(d)):
            s = o.calc_path_loss_dB(float(d[i]), num_walls=int(w[i]))
            if (not (abs(got[i] - s) <= 1e-9)) or (not (abs(lin[i] - 10 ** (-s / 10)) <= 1e-12)):
                return {"i": i, "array": float(got[i]), "scalar": float(s), "lin": float(lin[i])}
        # the same for distance / wall-count GRIDS (links x links, as the scenario applications use them): rows mixing links with and
        # without walls, also a 3-D block
        rr = np.random.RandomState(int(case["fc"]) % 100000)
        for shape in ((2, 3), (3, 1), (2, 2, 2)):
            D = 10 ** rr.uniform(0, 3, shape)
            W = rr.randint(0, 3, shape)
            W.flat[0], W.flat[-1] = 0, 2            # at least one link of each kind, in different rows
            G = np.asarray(o.calc_path_loss_dB(D, num_walls=W))
            if G.shape != D.shape:
                return {"grid shape": list(G.shape), "expected": list(D.shape)}
            for pos in np.ndindex(*shape):
                sc = o.calc_path_loss_dB(float(D[pos]), num_walls=int(W[pos]))
                if (not (abs(G[pos] - sc) <= 1e-9)):
                    return {"grid shape": list(shape), "position": list(pos), "distance": float(D[pos]), "walls": int(W[pos]),
                            "array result": float(G[pos]), "scalar result": float(sc)}
        return None
    return bounded(gen(), check)


# ---------------------------------------------------------------- Okumura-Hata
def _oh(c, it, area):
    o = _mk(it, "PathLossOkomuraHata")
    fc, hbs, hms = c.var("fc", "real"), c.var("hbs", "real"), c.var("hms", "real")
    c.inputs.update(fc=fc, hbs=hbs, hms=hms)
    return o, fc, hbs, hms


@obligation("okumura/setters_validate_and_monotone", params=[{"area": a} for a in ("open", "suburban", "medium city", "large city")],
            desc="Okumura-Hata: setters accept exactly the documented ranges (else RuntimeError, state unchanged); with any "
                 "accepted parameters the loss is non-decreasing in distance; linear == 10^(-dB/10); no inverse offered")
def ob_okumura(area):
    def body(c, it):
        o, fc, hbs, hms = _oh(c, it, area)
        goals = []
        it.setattr(o, "area_type", area)
        for name, v, lo, hi in (("fc", fc, 150.0, 1500.0), ("hbs", hbs, 30.0, 200.0), ("hms", hms, 1.0, 10.0)):
            old = it.getattr(o, name)
            try:
                it.setattr(o, name, v)
                goals.append(Goal("%s accepted => in range" % name, (v >= lo) & (v <= hi)))
                goals.append(Goal("%s stored" % name, it.getattr(o, name) == v))
            except PyRaise as pr:
                goals.append(Goal("%s rejected with RuntimeError" % name, isinstance(pr.exc, RuntimeError)))
                goals.append(Goal("%s rejected => out of range" % name, (v < lo) | (v > hi)))
                goals.append(Goal("%s unchanged after rejection" % name, it.getattr(o, name) == old))
        hb = lift(it.getattr(o, "hbs"))
        # enclosures of the two constants needed for the slope sign (validated natively in okumura/constants)
        if isinstance(hb, sym.SNum):
            l = hb.to_real().log10()
            c.add_fact((lift(30.0).log10() >= 1.477) & (lift(30.0).log10() <= 1.4772), "enclosure log10(30)")
            c.add_fact((lift(200.0).log10() >= 2.301) & (lift(200.0).log10() <= 2.3011), "enclosure log10(200)")
        d1, d2 = c.var("d1", "real"), c.var("d2", "real")
        c.inputs.update(d1=d1, d2=d2)
        c.assume((d1 > 0) & (d1 <= d2))
        a = _call(it, o, "_calc_deterministic_path_loss_dB", d1)
        b = _call(it, o, "_calc_deterministic_path_loss_dB", d2)
        goals.append(Goal("monotone in distance", a <= b))
        try:
            p = _call(it, o, "calc_path_loss_dB", d1)
            lin = _call(it, o, "calc_path_loss", d1)
            goals.append(Goal("dB is the deterministic value", p == a))
            goals.append(Goal("linear == 10^(-dB/10) in (0,1]", (lin == (-(lift(a)) / 10.0).to_real().pow10()) & (lin > 0) & (lin <= 1)))
        except PyRaise as pr:
            goals.append(Goal("raise only for negative loss", isinstance(pr.exc, RuntimeError)))
            goals.append(Goal("negative", a < 0))
        goals.append(Goal("no inverse offered (raises NotImplementedError)", _expect_raise(
            it, lambda: _call(it, o, "which_distance_dB", a), NotImplementedError)))
        return goals
    return verify(body, timeout_ms=60000)


@obligation("okumura/constants", kind="exhaustive", desc="the numeric enclosures assumed for log10(30), log10(200) hold in binary64")
def ob_oh_constants():
    def check(case):
        v = math.log10(case["x"])
        return None if case["lo"] <= v <= case["hi"] else {"log10": v}
    return exhaustive([{"x": 30.0, "lo": 1.477, "hi": 1.4772}, {"x": 200.0, "lo": 2.301, "hi": 2.3011}], check)


# ---------------------------------------------------------------- antenna gain
@obligation("antenna/pattern", params=[{"sectors": s} for s in (3, 6)],
            desc="sector antenna: gain(theta) == g*10^(-min(12(theta/theta3)^2, Am)/10); symmetric; peaks at boresight; floored at g*10^(-Am/10)")
def ob_antenna(sectors):
    def body(c, it):
        import pyphysim.channels.antennagain as ag
        o = it.call(ag.AntGainBS3GPP25996, [sectors])
        th, th2 = c.var("theta", "real"), c.var("theta2", "real")
        c.inputs.update(theta=th, theta2=th2)
        c.assume((th >= -180) & (th <= 180) & (th2 >= -180) & (th2 <= 180))
        g = it.getattr(o, "ant_gain")
        Am, t3 = it.getattr(o, "Am"), it.getattr(o, "theta_3db")
        want = {3: (70.0, 20.0, 14.0), 6: (35.0, 23.0, 17.0)}[sectors]
        goals = [Goal("parameters", (t3 == want[0]) and (Am == want[1]))]
        goals.append(Goal("peak gain is 10^(gain_dB/10) (binary64 value)", g == pow(10, want[2] / 10.0)))
        a = _call(it, o, "get_antenna_gain", th)
        am = _call(it, o, "get_antenna_gain", -th)
        a0 = _call(it, o, "get_antenna_gain", 0.0)
        a2 = _call(it, o, "get_antenna_gain", th2)
        att = 12 * (th / t3) ** 2
        spec = g * (-(sym.ite(att < Am, att, Am)) / 10.0).pow10()
        goals.append(Goal("formula", a == spec))
        goals.append(Goal("symmetric", a == am))
        goals.append(Goal("peak at boresight", (a <= a0) & (a0 == g)))
        goals.append(Goal("floor", a >= g * (-(lift(Am)) / 10.0).pow10()))
        goals.append(Goal("non-increasing in |theta|", sym.SBool(z3.Implies((abs(th) <= abs(th2)).t, (a >= a2).t))))
        return goals
    return verify(body, timeout_ms=60000)


# ---------------------------------------------------------------- native cross-check / bounded
@obligation("native/all_models_sampled", kind="bounded",
            desc="engine cross-check + float check: every model, scalar and array distances over 6 decades, random setter "
                 "histories: monotone, linear=10^(-dB/10) in (0,1], inverse round trips (rel 1e-9), policy, Friis 0.01 dB")
def ob_native():
    import pyphysim.channels.pathloss as m
    r = stable_rng("C13native")

    def gen():
        N = 60 if quick() else 600
        for i in range(N):
            kind = ["general", "freespace", "3gpp", "metis", "okumura"][i % 5]
            hist = [(["n", "fc"][r.randint(2)], float(10 ** r.uniform(-0.3, 0.7)) if False else None) for _ in range(r.randint(0, 5))]
            yield {"kind": kind, "seed": int(r.randint(1 << 30)), "len": len(hist)}

    def check(case):
        rr = np.random.RandomState(case["seed"])
        kind = case["kind"]
        cur = {}
        if kind == "general":
            o = m.PathLossGeneral(float(rr.uniform(0.5, 6)), float(rr.uniform(-50, 150)))
        elif kind == "freespace":
            o = m.PathLossFreeSpace(float(rr.uniform(1.5, 5)), float(10 ** rr.uniform(1, 4)))
            for _ in range(case["len"]):
                if (not (rr.rand() >= 0.5)):
                    o.n = float(rr.uniform(1.5, 5))
                else:
                    o.fc = float(10 ** rr.uniform(1, 4))
            Cexp = 10 * o.n * (math.log10(o.fc * 1e6) - 4.377911390697565)
            if (not (abs(o._C - Cexp) <= 1e-9)):
                return {"invariant": [o._C, Cexp, o.n, o.fc]}
            if (not (abs(o.n - 2.0) >= 10)):
                o2 = m.PathLossFreeSpace(2.0, o.fc)
                dd = float(10 ** rr.uniform(-2, 3))
                fr = 20 * math.log10(dd) + 20 * math.log10(o.fc) + 32.4478
                if (not (abs(o2._calc_deterministic_path_loss_dB(dd) - fr) <= 0.01)):
                    return {"friis": [o2._calc_deterministic_path_loss_dB(dd), fr]}
        elif kind == "3gpp":
            o = m.PathLoss3GPP1()
        elif kind == "metis":
            o = m.PathLossMetisPS7(float(10 ** rr.uniform(2.5, 4)))
            for _ in range(case["len"]):
                o.fc = float(10 ** rr.uniform(2.5, 4))
            cur["num_walls"] = int(rr.randint(0, 5))
        else:
            o = m.PathLossOkomuraHata()
            for _ in range(case["len"] + 1):
                w = rr.randint(4)
                if w == 0:
                    o.fc = float(rr.uniform(150, 1500))
                elif w == 1:
                    o.hbs = float(rr.uniform(30, 200))
                elif w == 2:
                    o.hms = float(rr.uniform(1, 10))
                else:
                    o.area_type = ['open', 'suburban', 'medium city', 'large city'][rr.randint(4)]
        o.handle_small_distances_bool = bool(rr.rand() < 0.5)
        lo, hi = (0, 1.3) if kind == "okumura" else (-3, 3)
        d = np.sort(10 ** rr.uniform(lo, hi, 6))
        kw = dict(cur)
        import warnings
        with warnings.catch_warnings():
            warnings.simplefilter("ignore")
            det = np.array([o._calc_deterministic_path_loss_dB(float(x), **kw) for x in d])
            if np.any(np.diff(det) < -1e-9):
                return {"not monotone": det.tolist(), "d": d.tolist()}
            try:
                dd_ = d.copy()
                fr = Frame(distances=dd_)
                arr = o.calc_path_loss_dB(dd_, **kw)
                fr.watch(dB=arr)
                lin = o.calc_path_loss(dd_, **kw)
                if fr.changed():
                    return {"frame": fr.changed(), "kind": kind}
                if (not (det.min() >= 0)) and not o.handle_small_distances_bool:
                    return {"should have raised": det.tolist()}
                exp = np.maximum(det, 0) if o.handle_small_distances_bool else det
                if (not (np.abs(arr - exp).max() <= 1e-9)):
                    return {"array dB": arr.tolist(), "expected": exp.tolist()}
                if (not (np.abs(lin - 10 ** (-exp / 10)).max() <= 1e-12)) or (not (lin.min() > 0)) or (not (lin.max() <= 1)):
                    return {"linear": lin.tolist(), "dB": exp.tolist()}
                # the same distances as a 2-D (and 3-D) array: same values, same shape
                if d.size % 2 == 0 and d.size >= 2:
                    for shp in ((2, d.size // 2), (d.size // 2, 1, 2)):
                        arr2 = np.asarray(o.calc_path_loss_dB(d.copy().reshape(shp), **kw))
                        if arr2.shape != shp or (not (np.abs(arr2.ravel() - exp).max() <= 1e-9)):
                            return {"array of shape %s" % (shp,): arr2.tolist(), "expected (flattened)": exp.tolist()}
            except RuntimeError:
                if not ((not (det.min() >= 0)) and not o.handle_small_distances_bool):
                    return {"raised unexpectedly": det.tolist()}
            if kind in ("general", "freespace", "3gpp"):
                back = o.which_distance_dB(det)
                if (not (np.abs(back / d - 1).max() <= 1e-9)):
                    return {"inverse": back.tolist(), "d": d.tolist()}
                L = rr.uniform(0, 200, 4)
                again = np.array([o._calc_deterministic_path_loss_dB(float(o.which_distance_dB(float(x)))) for x in L])
                if (not (np.abs(again - L).max() <= 1e-8)):
                    return {"PL(which(L))": again.tolist(), "L": L.tolist()}
                pos = det >= 0
                if pos.any():
                    o.handle_small_distances_bool = True
                    back2 = o.which_distance(o.calc_path_loss(d[pos]))
                    if (not (np.abs(back2 / d[pos] - 1).max() <= 1e-9)):
                        return {"which_distance(calc_path_loss)": back2.tolist(), "d": d[pos].tolist()}
        return None
    return bounded(gen(), check)


@obligation("native/antenna_sampled", kind="bounded",
            desc="antenna pattern on a 0.5 degree grid in [-180,180], both sector counts, scalar and array angles; whole-degree angles "
                 "as int8/int16/int32/int64/float32/float64 arrays and Python ints give the same gains")
def ob_native_antenna():
    import pyphysim.channels.antennagain as ag

    def check(case):
        o = ag.AntGainBS3GPP25996(case["sectors"])
        th = np.arange(-180, 180.25, 0.5)
        g = o.get_antenna_gain(th)
        gs = np.array([o.get_antenna_gain(float(t)) for t in th])
        if (not (np.abs(g - gs).max() <= 1e-12 * g.max())):
            return {"array vs scalar": float(np.abs(g - gs).max())}
        if (not (np.abs(g - g[::-1]).max() <= 1e-12 * g.max())):
            return {"asymmetric": True}
        if g.argmax() != len(th) // 2 or (not (abs(g.max() - o.ant_gain) <= 1e-12)):
            return {"peak": [float(th[g.argmax()]), float(g.max()), float(o.ant_gain)]}
        floor = o.ant_gain * 10 ** (-o.Am / 10)
        if (not (g.min() >= floor * (1 - 1e-12))):
            return {"floor": [float(g.min()), float(floor)]}
        # the same whole-degree angles in every integer / float representation a caller may hold them in
        deg = np.arange(-180, 181, 1)
        ref = np.array([o.get_antenna_gain(float(t)) for t in deg])
        for rep in ("int16", "int32", "int64", "float32", "float64", "python ints"):
            for lo, hi in ((-180, 180), (-127, 127)):
                sel = (deg >= lo) & (deg <= hi)
                if rep == "python ints":
                    got = np.array([o.get_antenna_gain(int(x)) for x in deg[sel]])
                    arg = None
                else:
                    arg = deg[sel].astype(rep)
                if arg is not None:
                    got = np.asarray(o.get_antenna_gain(arg), dtype=float)
                tol = 1e-5 if rep == "float32" else 1e-12
                if got.shape != ref[sel].shape or (not (np.abs(got - ref[sel]).max() <= tol * ref.max())):
                    return {"angles as %s in [%d, %d]" % (rep, lo, hi): float(np.abs(got - ref[sel]).max()) if got.shape == ref[sel].shape else "shape"}
        got8 = np.asarray(o.get_antenna_gain(np.arange(-127, 128, 1).astype(np.int8)), dtype=float)
        sel8 = (deg >= -127) & (deg <= 127)
        if (not (np.abs(got8 - ref[sel8]).max() <= 1e-12 * ref.max())):
            return {"angles as int8": float(np.abs(got8 - ref[sel8]).max())}
        return None
    return bounded([{"sectors": 3}, {"sectors": 6}], check)
