"""C11  Reported SINRs equal first-principles signal over interference-plus-noise.

Functions under contract: MultiUserChannelMatrix._calc_Bkl_cov_matrix_first_part/_second_part/_all_l/_calc_SINR_k/
calc_SINR/_calc_Q_impl/calc_Q and the JP and ExtInt variants, calc_cov_matrix_extint_(without|plus)_noise;
IASolverBaseClass._calc_Bkl_*/_calc_SINR_k/calc_SINR/calc_SINR_in_dB/calc_sum_capacity/calc_Q.
Spec (from the statement):  SINR_kl = |u^H H_kk f_l|^2 / ( sum_{(j,d)!=(k,l)} |u^H H_kj f_jd|^2 + u^H R_e u ),
R_e = pe * sum_e H_ke H_ke^H + sigma^2 I.
Structure is configuration-concrete; every channel / precoder / filter entry, path loss, noise and power is symbolic.
"""
import numpy as np
import z3

from pyvc import sym
from pyvc.sym import lift, SComplex
from pyvc.interp import PyRaise
from pyvc.oblig import obligation, verify, bounded, Goal, merge
from .common import stable_rng, quick, Frame, arr, num
from .C08 import _cmat, _pmat, _install_models, _ceq

LEVEL = "proof"
EXPLANATION = ("For each configuration (user count, antennas, streams, plain / external interference / joint processing) the real "
               "SINR and covariance methods are symbolically executed with fully symbolic complex precoders, filters and channels, "
               "symbolic path loss, noise (incl. None and 0) and interference power; the resulting rational expressions are proved "
               "equal to the first-principles spec written from the property statement (polynomial identities, z3).  Also discharged: "
               "scale invariance in the receive filter, non-negativity, Q_k Hermitian, PSD (v^H Q v is exhibited as a sum of squares) "
               "and equal to the sum of the interfering links' covariances, agreement of the IA-solver implementation with the channel "
               "object, sum capacity = sum log2(1+SINR).")
ASSUMPTIONS = [
    "configuration-concrete structure: K in {2,3}, antennas 1..2, streams 1..2 (values fully symbolic); larger sizes in the bounded check",
    "ideal-real arithmetic; sqrt/log2 uninterpreted; denominators assumed positive (requires) where a ratio is formed",
    "H (the per-link view) is taken from the channel object itself - its coherence with big_H and the path loss is property C08",
]
TRUSTED_BASE = ["numpy dot/slicing/hstack executed natively on object arrays"]
BOUNDS = {"configs": "K=2: Nr [2,2] Nt [2,2] Ns [2,1];  K=3: Nr [1,2,1] Nt [2,1,1] Ns [1,1,1];  ext-int: K=2 + 1 source"}


def _conjT(m):
    return np.frompyfunc(lambda v: v.conjugate() if hasattr(v, "conjugate") else v, 1, 1)(m).T


def _abs2(z):
    z = sym.to_complex(z)
    return z.re * z.re + z.im * z.im


CONFIGS = {
    "K2": dict(K=2, Nr=[2, 2], Nt=[2, 2], Ns=[2, 1], ext=0),
    "K3": dict(K=3, Nr=[1, 2, 1], Nt=[2, 1, 1], Ns=[1, 1, 1], ext=0),
    "EXT": dict(K=2, Nr=[2, 1], Nt=[1, 2], Ns=[1, 1], ext=1),
}


def _setup(c, it, cfg, noise="sym", pathloss=True, rerandomize=False):
    import pyphysim.channels.multiuser as mu
    draws = []
    _install_models(c, it, draws)
    K, ext = cfg["K"], cfg["ext"]
    # rerandomize == "split": the first realisation has the same TOTAL antenna counts but another per-user split
    Nr0 = np.roll(np.array(cfg["Nr"]), 1) if rerandomize == "split" else np.array(cfg["Nr"])
    Nt0 = np.roll(np.array(cfg["Nt"]), 1) if rerandomize == "split" else np.array(cfg["Nt"])
    if ext:
        o = it.call(mu.MultiUserChannelMatrixExtInt, [])
        it.call(it.getattr(o, "randomize"), [Nr0, Nt0, K, 1])
        if pathloss:
            it.call(it.getattr(o, "set_pathloss"), [_pmat(c, "PL", K, K), _pmat(c, "PLe", K, 1)])
        if rerandomize:          # a new realisation drawn AFTER the path loss was set
            it.getattr(o, "big_H")
            it.call(it.getattr(o, "randomize"), [np.array(cfg["Nr"]), np.array(cfg["Nt"]), K, 1])
    else:
        o = it.call(mu.MultiUserChannelMatrix, [])
        it.call(it.getattr(o, "randomize"), [Nr0, Nt0, K])
        if pathloss:
            it.call(it.getattr(o, "set_pathloss"), [_pmat(c, "PL", K, K)])
        if rerandomize:
            it.getattr(o, "big_H")
            it.call(it.getattr(o, "randomize"), [np.array(cfg["Nr"]), np.array(cfg["Nt"]), K])
    if noise == "sym":
        nv = c.var("nv", "real")
        c.assume(nv >= 0)
    elif noise == "symint":           # an integer-typed noise variance (e.g. noise_var = 1): a number like any other
        nv = c.var("nvi", "int")
        c.assume(nv >= 0)
    elif noise == "none":
        nv = None
    else:
        nv = 0.0
    it.setattr(o, "noise_var", nv)
    F = np.empty(K, dtype=object)
    U = np.empty(K, dtype=object)
    for k in range(K):
        F[k] = _cmat(c, "F%d" % k, cfg["Nt"][k], cfg["Ns"][k])
        U[k] = _cmat(c, "U%d" % k, cfg["Nr"][k], cfg["Ns"][k])
    # everything a native replay needs to rebuild the same situation on the real classes
    c.inputs.update({"F": [F[k] for k in range(K)], "U": [U[k] for k in range(K)], "noise_var": nv,
                     "channel": o.fields.get("_big_H_no_pathloss"), "pathloss": o.fields.get("_pathloss_matrix")})
    return o, F, U, nv


def _spec_terms(c, it, o, cfg, F, U, k, l, nv, pe=None):
    """(numerator, denominator) of the first-principles SINR of stream l of user k"""
    H = it.getattr(o, "H")
    u = U[k][:, l:l + 1]
    uH = _conjT(u)
    num = _abs2(np.dot(uH, np.dot(H[k, k], F[k][:, l:l + 1]))[0, 0])
    den = 0
    for j in range(cfg["K"]):
        for d in range(cfg["Ns"][j]):
            if (j, d) == (k, l):
                continue
            den = den + _abs2(np.dot(uH, np.dot(H[k, j], F[j][:, d:d + 1]))[0, 0])
    uu = sum(_abs2(x) for x in u.flat)
    if nv is not None:
        den = den + nv * uu
    if cfg["ext"]:
        for e in range(cfg["K"], cfg["K"] + cfg["ext"]):
            v = np.dot(uH, H[k, e])              # 1 x NtE
            den = den + pe * sum(_abs2(x) for x in v.flat)
    return num, den


def _ratio_goals(label, r, num, den):
    """value == num/den, stated without division: the engine records the exact numerator n and denominator d of the
    value it computed (|n/d| = |n|/|d|); the goals are the polynomial identities n == num, d == den (den > 0 assumed)."""
    r = lift(r)
    fr = getattr(r, "frac", None)
    if fr is None:
        return [Goal(label + ": value is a ratio numerator/denominator", False)]
    n, d = fr
    # value = |n|/|d| is non-negative by construction once d == den > 0
    return [Goal(label + ": numerator == |u^H H f|^2", n == num), Goal(label + ": denominator == interference+noise", d == den)]


def _replay_channel_sinr(cf, noise, rerand):
    """rebuild the counter-model on the real classes: same channel, path loss, noise, precoders and filters; compare calc_SINR with
    the independent first-principles evaluator"""
    def rp(mv):
        import pyphysim.channels.multiuser as mu
        try:
            K, ext = cf["K"], cf["ext"]
            Nr, Nt = np.array(cf["Nr"]), np.array(cf["Nt"])
            big = arr(mv["channel"])
            F = np.empty(K, dtype=object)
            U = np.empty(K, dtype=object)
            for k in range(K):
                F[k], U[k] = arr(mv["F"][k]).reshape(cf["Nt"][k], cf["Ns"][k]), arr(mv["U"][k]).reshape(cf["Nr"][k], cf["Ns"][k])
            nv = None if noise == "none" else (0.0 if noise == "zero" else num(mv.get("noise_var")))
            if noise == "symint":
                nv = int(nv)
            pe = float(num(mv.get("pe"), 0.0)) if ext else 0.0
            o = mu.MultiUserChannelMatrixExtInt() if ext else mu.MultiUserChannelMatrix()
            args = (big, Nr, Nt, K, 1) if ext else (big, Nr, Nt, K)
            if rerand:          # an earlier realisation, the path loss, then the realisation of the counter-model
                if rerand == "split":
                    o.randomize(*((np.roll(Nr, 1), np.roll(Nt, 1)) + args[3:]))
                else:
                    o.randomize(*args[1:])
            else:
                o.init_from_channel_matrix(*args)
            pl = arr(mv["pathloss"], float) if mv.get("pathloss") is not None else None
            if pl is not None:
                if ext:         # stored as one K x (K + sources) matrix
                    o.set_pathloss(pl[:, :K].copy(), pl[:, K:].copy())
                else:
                    o.set_pathloss(pl)
            if rerand:
                o.big_H
                o.init_from_channel_matrix(*args)
            o.noise_var = nv
            S = o.calc_SINR(F, U, pe) if ext else o.calc_SINR(F, U)
            bigp = o.big_H
            cumr, cumt = np.hstack([0, np.cumsum(Nr)]), np.hstack([0, np.cumsum(list(Nt) + ([1] if ext else []))])
            Hb = [[bigp[cumr[k]:cumr[k + 1], cumt[j]:cumt[j + 1]] for j in range(K + (1 if ext else 0))] for k in range(K)]
            worst = None
            for k in range(K):
                for l in range(cf["Ns"][k]):
                    want = _fp_sinr(Hb, F, U, k, l, nv, pe, [K] if ext else [])
                    if np.isfinite(want) and (not (abs(S[k][l] - want) <= 1e-9 * max(abs(want), 1e-300))):
                        worst = {"user": k, "stream": l, "calc_SINR": float(S[k][l]), "first_principles": float(want)}
            if worst is None:
                return {"confirmed": False, "note": "real classes agree with first principles at the counter-model"}
            worst.update({"confirmed": True, "noise_var": nv, "max_abs_receive_filter_entry": float(max(np.abs(U[k]).max() for k in range(K)))})
            return worst
        except Exception as e:
            return {"confirmed": False, "error": "replay crashed: %r" % (e,)}
    return rp


@obligation("channel/calc_SINR_first_principles", params=[{"cfg": n, "noise": nz, "rerand": rr} for n in CONFIGS for nz in ("sym", "none", "zero")
                                                          for rr in (False, True) if not (rr and nz != "sym")] +
            [{"cfg": "K3", "noise": "symint", "rerand": False}, {"cfg": "EXT", "noise": "symint", "rerand": False}] +
            [{"cfg": n, "noise": "sym", "rerand": "split"} for n in ("K3", "EXT")],
            timeout=120,
            desc="calc_SINR(F,U) (plain and ext-int classes): every stream's value equals |u^H H_kk f_l|^2 / (all other streams of all users "
                 "+ external interference + filtered noise); non-negative; noise None/0/symbolic; current path loss")
def ob_channel_sinr(cfg, noise, rerand):
    cf = CONFIGS[cfg]

    def body(c, it):
        o, F, U, nv = _setup(c, it, cf, noise, True, rerand)
        pe = None
        if cf["ext"]:
            pe = c.var("pe", "real")
            c.assume(pe >= 0)
            c.inputs["pe"] = pe
            S = it.call(it.getattr(o, "calc_SINR"), [F, U, pe])
        else:
            S = it.call(it.getattr(o, "calc_SINR"), [F, U])
        goals = []
        for k in range(cf["K"]):
            ok = np.shape(S[k]) == (cf["Ns"][k],)
            goals.append(Goal("user %d: one SINR per stream" % k, ok))
            if not ok:
                continue
            for l in range(cf["Ns"][k]):
                num, den = _spec_terms(c, it, o, cf, F, U, k, l, nv, pe)
                goals += _ratio_goals("SINR[%d][%d]" % (k, l), S[k][l], num, den)
        return goals
    return verify(body, timeout_ms=30000, check_side=False, replay=_replay_channel_sinr(cf, noise, rerand))


@obligation("channel/scale_invariance", params=[{"cfg": n} for n in ("K2", "EXT")], timeout=120,
            desc="calc_SINR(F, U) == calc_SINR(F, U with every filter column rescaled by a non-zero complex factor)")
def ob_scale(cfg):
    cf = CONFIGS[cfg]

    def body(c, it):
        o, F, U, nv = _setup(c, it, cf, "sym")
        args = []
        if cf["ext"]:
            pe = c.var("pe", "real")
            c.assume(pe >= 0)
            args = [pe]
        else:
            pe = None
        S1 = it.call(it.getattr(o, "calc_SINR"), [F, U] + args)
        U2 = np.empty(cf["K"], dtype=object)
        scales = {}
        for k in range(cf["K"]):
            U2[k] = U[k].copy()
            for l in range(cf["Ns"][k]):
                s = c.var("s%d_%d" % (k, l), "complex")
                scales[(k, l)] = s
                for i in range(U2[k].shape[0]):
                    U2[k][i, l] = U[k][i, l] * s
        S2 = it.call(it.getattr(o, "calc_SINR"), [F, U2] + args)
        goals = []
        for k in range(cf["K"]):
            for l in range(cf["Ns"][k]):
                num, den = _spec_terms(c, it, o, cf, F, U, k, l, nv, pe)
                # both values satisfy value*den == num for the SAME spec (den2 = |s|^2 den, num2 = |s|^2 num)
                f1, f2 = getattr(lift(S1[k][l]), "frac", None), getattr(lift(S2[k][l]), "frac", None)
                if f1 is None or f2 is None:
                    goals.append(Goal("values are ratios", False))
                    continue
                # n2/d2 == n1/d1  <=>  n2*d1 == n1*d2 (denominators positive)
                goals.append(Goal("rescaled SINR[%d][%d] == unscaled (cross-multiplied)" % (k, l), f2[0] * f1[1] == f1[0] * f2[1]))
                # the rescaled denominator is |s|^2 times the unscaled one (so it is positive whenever that one is, s != 0)
                goals.append(Goal("denominators: d1 == spec, d2 == |s|^2 d1 [%d][%d]" % (k, l),
                                  (f1[1] == den) & (f2[1] == _abs2(scales[(k, l)]) * f1[1])))
        return goals
    return verify(body, timeout_ms=30000, check_side=False)


@obligation("channel/JP_SINR_first_principles", params=[{"cfg": n} for n in ("K2", "EXT")], timeout=240,
            desc="calc_JP_SINR(F,U) (joint processing: every precoder spans all USERS' transmit antennas): value == |u^H H_k f_kl|^2 / (sum "
                 "other streams |u^H H_k f_jd|^2 + noise |u|^2 [+ pe |u^H H_ke|^2 for the ext-int class, symbolic pe]); calc_JP_Q(k, F) == "
                 "sum over the other users of (H_k F_l)(H_k F_l)^H + noise I [+ pe H_ke H_ke^H]")
def ob_jp(cfg):
    cf = CONFIGS[cfg]

    def body(c, it):
        o, F0, U, nv = _setup(c, it, cf, "sym")
        K = cf["K"]
        tot = sum(cf["Nt"])                      # the users' transmit antennas (the external interferer is not precoded)
        F = np.empty(K, dtype=object)
        for k in range(K):
            F[k] = _cmat(c, "G%d" % k, tot, cf["Ns"][k])
        pe = None
        if cf["ext"]:
            pe = c.var("pe", "real")
            c.assume(pe >= 0)
            S = it.call(it.getattr(o, "calc_JP_SINR"), [F, U, pe])
        else:
            S = it.call(it.getattr(o, "calc_JP_SINR"), [F, U])
        H = it.getattr(o, "H")
        goals = []
        for k in range(K):
            Hk_full = np.asarray(it.call(it.getattr(o, "get_Hk"), [k]), dtype=object)
            Hk = Hk_full[:, :tot]
            n = cf["Nr"][k]
            for l in range(cf["Ns"][k]):
                u = U[k][:, l:l + 1]
                uH = _conjT(u)
                num = _abs2(np.dot(uH, np.dot(Hk, F[k][:, l:l + 1]))[0, 0])
                den = nv * sum(_abs2(x) for x in u.flat)
                for j in range(K):
                    for d in range(cf["Ns"][j]):
                        if (j, d) != (k, l):
                            den = den + _abs2(np.dot(uH, np.dot(Hk, F[j][:, d:d + 1]))[0, 0])
                if cf["ext"]:
                    den = den + pe * sum(_abs2(x) for x in np.dot(uH, H[k, K]).flat)
                goals += _ratio_goals("JP SINR[%d][%d]" % (k, l), S[k][l], num, den)
            Q = it.call(it.getattr(o, "calc_JP_Q"), [k, F] + ([pe] if cf["ext"] else []))
            spec = np.zeros((n, n), dtype=object)
            for j in range(K):
                if j != k:
                    A = np.dot(Hk, F[j])
                    spec = spec + np.dot(A, _conjT(A))
            spec = spec + np.eye(n, dtype=object) * nv
            if cf["ext"]:
                spec = spec + pe * np.dot(H[k, K], _conjT(H[k, K]))
            goals.append(Goal("JP Q_%d == sum of the other users' covariances + noise (+ ext)" % k,
                              np.shape(Q) == (n, n) and sym.SBool(z3.And([_ceq(Q[i, j], spec[i, j]) for i in range(n) for j in range(n)]))))
        return goals
    return verify(body, timeout_ms=60000, check_side=False)


@obligation("channel/Q_hermitian_psd_sum_of_links", params=[{"cfg": n, "noise": nz} for n in CONFIGS for nz in ("sym", "none")], timeout=120,
            desc="calc_Q(k,F): equals sum over interfering users of (H_kl F_l)(H_kl F_l)^H (+ noise I) (+ pe H_e H_e^H); Hermitian; "
                 "v^H Q v equals a sum of squared moduli (hence PSD) for a symbolic v")
def ob_Q(cfg, noise):
    cf = CONFIGS[cfg]

    def body(c, it):
        o, F, U, nv = _setup(c, it, cf, noise)
        H = it.getattr(o, "H")
        goals = []
        pe = None
        for k in range(cf["K"]):
            if cf["ext"]:
                pe = c.var("pe", "real")
                c.assume(pe >= 0)
                Q = it.call(it.getattr(o, "calc_Q"), [k, F, pe])
            else:
                Q = it.call(it.getattr(o, "calc_Q"), [k, F])
            n = cf["Nr"][k]
            ok = np.shape(Q) == (n, n)
            goals.append(Goal("Q_%d shape" % k, ok))
            if not ok:
                continue
            spec = np.zeros((n, n), dtype=object)
            for l in range(cf["K"]):
                if l != k:
                    A = np.dot(H[k, l], F[l])
                    spec = spec + np.dot(A, _conjT(A))
            if nv is not None:
                spec = spec + np.eye(n, dtype=object) * nv
            if cf["ext"]:
                for e in range(cf["K"], cf["K"] + 1):
                    spec = spec + pe * np.dot(H[k, e], _conjT(H[k, e]))
            goals.append(Goal("Q_%d == sum of interfering link covariances (+noise, +ext)" % k, sym.SBool(z3.And(
                [_ceq(Q[i, j], spec[i, j]) for i in range(n) for j in range(n)]))))
            goals.append(Goal("Q_%d Hermitian" % k, sym.SBool(z3.And(
                [_ceq(Q[i, j], sym.to_complex(Q[j, i]).conjugate()) for i in range(n) for j in range(n)]))))
            v = _cmat(c, "v%d" % k, n, 1)
            q = sym.to_complex(np.dot(_conjT(v), np.dot(Q, v))[0, 0])
            sos = 0
            for l in range(cf["K"]):
                if l != k:
                    w = np.dot(_conjT(np.dot(H[k, l], F[l])), v)
                    sos = sos + sum(_abs2(x) for x in w.flat)
            weighted = []
            if nv is not None:
                weighted.append((nv, sum(_abs2(x) for x in v.flat)))
            if cf["ext"]:
                w = np.dot(_conjT(H[k, cf["K"]]), v)
                weighted.append((pe, sum(_abs2(x) for x in w.flat)))
            tot = sos
            for wgt, sq in weighted:
                tot = tot + wgt * sq
            # PSD: v^H Q v == (sum of squared moduli) + sum_i w_i * (sum of squared moduli) with weights w_i >= 0 (noise, pe)
            goals.append(Goal("v^H Q_%d v == sum of squares with non-negative weights (PSD)" % k, (q.re == tot) & (q.im == 0)))
        return goals
    return verify(body, timeout_ms=30000, check_side=False)


@obligation("solver/agrees_with_channel_and_first_principles", params=[{"cfg": n, "noise": nz} for n in ("K2", "K3") for nz in ("sym", "none")] +
            [{"cfg": "K3", "noise": nz, "prec": "explicit_full_F"} for nz in ("sym", "none")] +
            [{"cfg": "K2", "noise": "sym", "then": "channel_changes"}],
            timeout=240,
            desc="IASolverBaseClass.calc_SINR after set_precoders / set_receive_filters with symbolic matrices and powers, and again after the "
                 "power is CHANGED through the P setter: equals the first-principles value for precoders F*sqrt(P_current) and filters "
                 "(W^H H_kk F sqrt(P_current))^-1 W^H - i.e. agrees with the channel object; sum capacity == sum log2(1+SINR); dB == 10 log10; "
                 "prec=explicit_full_F: set_precoders(F, full_F, P) with an INDEPENDENT symbolic full_F (a precoder that uses only part of "
                 "the power, as the MMSE / stream-reduction solvers set it): the transmitted precoder is full_F; then=channel_changes: the "
                 "channel object gets another path loss and then a new realisation while the precoders stay (receivers adapt): the reported "
                 "SINRs are those of the CURRENT channel")
def ob_solver(cfg, noise, prec="F_and_P", then=None):
    cf = CONFIGS[cfg]

    def body(c, it):
        import pyphysim.ia.algorithms as alg
        from pyvc.interp import _det_inv
        # the equivalent-channel inverse appears identically (same division atoms) in the code's value and in the spec:
        # compare structurally, only the outermost ratio is cross-multiplied
        c.frac_propagation = False
        o, F, U, nv = _setup(c, it, cf, noise, pathloss=True)
        K = cf["K"]
        Hbox = [it.getattr(o, "H")]
        s = it.call(alg.ClosedFormIASolver, [o])
        goals = []

        def check(P, tag, explicit=None):
            H = Hbox[0]
            S = it.call(it.getattr(s, "calc_SINR"), [])
            fullF = np.empty(K, dtype=object)
            Ueff = np.empty(K, dtype=object)
            for k in range(K):
                fullF[k] = explicit[k] if explicit is not None else F[k] * lift(P[k]).sqrt()
                WH = _conjT(U[k])
                Heq = np.dot(WH, np.dot(H[k, k], fullF[k]))
                adj, det = _det_inv(Heq)
                fW = np.frompyfunc(lambda x: x / det, 1, 1)(np.dot(adj, WH))
                Ueff[k] = _conjT(fW)
            allv = []
            for k in range(K):
                for l in range(cf["Ns"][k]):
                    num, den = _spec_terms(c, it, o, cf, fullF, Ueff, k, l, nv)
                    r = lift(S[k][l])
                    fr = getattr(r, "frac", None)
                    if fr is None:
                        goals.append(Goal("[%s] solver SINR[%d][%d] is a ratio" % (tag, k, l), False))
                        continue
                    # spec num/den themselves contain divisions (the equivalent-channel inverse): compare cross-multiplied
                    goals.append(Goal("[%s] solver SINR[%d][%d] == first principles (cross-multiplied)" % (tag, k, l),
                                      fr[0] * den == num * fr[1]))
                    allv.append(r)
            return allv

        P = np.empty(K, dtype=object)
        for k in range(K):
            P[k] = c.var("P%d" % k, "real")
            c.assume(P[k] > 0)
        G = None
        if prec == "explicit_full_F":
            G = np.empty(K, dtype=object)
            for k in range(K):
                G[k] = _cmat(c, "G%d" % k, *np.shape(F[k]))
        it.call(it.getattr(s, "set_precoders"), [F, G, P])
        it.call(it.getattr(s, "set_receive_filters"), [None, U])
        allv = check(P, "initial power", G)
        if then == "channel_changes":
            # the channel OBJECT changes under the solver (new path loss, then a new realisation) while the precoders are kept and only
            # the receivers adapt: every reported SINR is about the CURRENT channel
            it.call(it.getattr(o, "set_pathloss"), [_pmat(c, "PLb", K, K)])
            Hbox[0] = it.getattr(o, "H")
            it.call(it.getattr(s, "set_receive_filters"), [None, U])
            check(P, "after the channel's path loss changed", G)
            it.call(it.getattr(o, "randomize"), [np.array(cf["Nr"]), np.array(cf["Nt"]), K])
            Hbox[0] = it.getattr(o, "H")
            it.call(it.getattr(s, "set_receive_filters"), [None, U])
            check(P, "after a new channel realisation", G)
            return goals
        cap = it.call(it.getattr(s, "calc_sum_capacity"), [])
        spec = 0
        for v in allv:
            spec = spec + (1 + v).log2()
        goals.append(Goal("sum capacity == sum log2(1+SINR)", lift(cap) == spec))
        dB = it.call(it.getattr(s, "calc_SINR_in_dB"), [])
        i = 0
        conj = []
        for k in range(K):
            for l in range(cf["Ns"][k]):
                conj.append((lift(dB[k][l]) == 10.0 * allv[i].log10()).t)
                i += 1
        goals.append(Goal("SINR in dB == 10 log10(SINR)", sym.SBool(z3.And(conj))))
        # power sweep through the public setter, precoders untouched
        P2 = np.empty(K, dtype=object)
        for k in range(K):
            P2[k] = c.var("Q%d" % k, "real")
            c.assume(P2[k] > 0)
        it.setattr(s, "P", list(P2))
        check(P2, "after P setter")
        return goals

    def rp_channel_changes(mv):
        # history replay on the real classes: precoders kept, the channel object changes, receivers adapt
        import pyphysim.channels.multiuser as mu
        import pyphysim.ia.algorithms as alg
        try:
            rr = np.random.RandomState(11)
            K = cf["K"]
            ch = mu.MultiUserChannelMatrix()
            ch.randomize(np.array(cf["Nr"]), np.array(cf["Nt"]), K)
            ch.set_pathloss(rr.rand(K, K))
            ch.noise_var = 0.05
            s_ = alg.ClosedFormIASolver(ch)
            F = np.empty(K, dtype=object)
            U = np.empty(K, dtype=object)
            for k in range(K):
                F[k] = rr.randn(cf["Nt"][k], cf["Ns"][k]) + 1j * rr.randn(cf["Nt"][k], cf["Ns"][k])
                F[k] = F[k] / np.linalg.norm(F[k], 'fro')
                U[k] = rr.randn(cf["Nr"][k], cf["Ns"][k]) + 1j * rr.randn(cf["Nr"][k], cf["Ns"][k])
            s_.set_precoders(F, None, np.array([1.5, 0.7, 2.0][:K]))
            s_.set_receive_filters(None, U)
            steps = [("initial", lambda: None), ("set_pathloss on the channel", lambda: ch.set_pathloss(rr.rand(K, K))),
                     ("randomize on the channel", lambda: ch.randomize(np.array(cf["Nr"]), np.array(cf["Nt"]), K))]
            for label, act in steps:
                act()
                s_.set_receive_filters(None, U)
                got = s_.calc_SINR()
                Hb = [[ch.get_Hkl(k, j) for j in range(K)] for k in range(K)]
                fF, fW = s_.full_F, s_.full_W
                for k in range(K):
                    for l in range(cf["Ns"][k]):
                        want = _fp_sinr(Hb, fF, fW, k, l, 0.05)
                        if not (abs(got[k][l] - want) <= 1e-8 * abs(want)):
                            return {"confirmed": True, "history": "set_precoders, set_receive_filters, calc_SINR; then %s, set_receive_filters, "
                                    "calc_SINR" % label, "user": k, "stream": l, "solver.calc_SINR": float(got[k][l]), "first principles": float(want)}
            return {"confirmed": False, "note": "real solver follows the current channel"}
        except Exception as e:
            return {"confirmed": False, "error": "replay crashed: %r" % (e,)}
    return verify(body, timeout_ms=60000, check_side=False, replay=rp_channel_changes if then == "channel_changes" else None)


# ------------------------------------------------------------------ bounded native
def _fp_sinr(Hblocks, F, U, k, l, nv, pe=0.0, ext=()):
    u = U[k][:, l]
    num = abs(u.conj() @ Hblocks[k][k] @ F[k][:, l]) ** 2
    den = 0.0
    for j in range(len(F)):
        for d in range(F[j].shape[1]):
            if (j, d) != (k, l):
                den += abs(u.conj() @ Hblocks[k][j] @ F[j][:, d]) ** 2
    den += (nv or 0.0) * np.linalg.norm(u) ** 2
    for e in ext:
        den += pe * np.linalg.norm(u.conj() @ Hblocks[k][e]) ** 2
    return num / den


@obligation("native/sum_capacity_large_and_small", kind="bounded",
            desc="calc_sum_capacity() == sum over streams of log2(1 + SINR) also where the total is far from 1: interference-free links "
                 "(block-diagonal channel, K 2..4, 1..3 streams each) at noise variances 1e-3 .. 1e-80 (totals up to several thousand "
                 "bit) and at SINRs around 1e-12 (total ~ 1e-11 bit), relative 1e-9")
def ob_sum_capacity():
    import pyphysim.channels.multiuser as mu
    import pyphysim.ia.algorithms as alg
    r = stable_rng("C11cap")

    def gen():
        for i in range(40 if quick() else 300):
            yield {"seed": int(r.randint(1 << 30)), "K": int(2 + i % 3), "ns": int(1 + (i // 3) % 3),
                   "noise": [1e-3, 1e-20, 1e-60, 1e-80, 1e12][(i // 9) % 5]}

    def check(case):
        rr = np.random.RandomState(case["seed"])
        K, ns, nv = case["K"], case["ns"], case["noise"]
        n = ns + int(rr.randint(0, 2))
        big = np.zeros((K * n, K * n), dtype=complex)
        for k in range(K):
            big[k * n:(k + 1) * n, k * n:(k + 1) * n] = rr.randn(n, n) + 1j * rr.randn(n, n)
        o = mu.MultiUserChannelMatrix()
        o.init_from_channel_matrix(big, np.full(K, n), np.full(K, n), K)
        o.noise_var = nv
        s = alg.ClosedFormIASolver(o)
        F = np.empty(K, dtype=object)
        U = np.empty(K, dtype=object)
        for k in range(K):
            A = rr.randn(n, ns) + 1j * rr.randn(n, ns)
            F[k] = A / np.linalg.norm(A, 'fro')
            U[k] = np.linalg.qr(rr.randn(n, ns) + 1j * rr.randn(n, ns))[0]
        s.set_precoders(F, None, rr.rand(K) + 0.5)
        s.set_receive_filters(None, U)
        try:
            S = s.calc_SINR()
        except np.linalg.LinAlgError:
            return None
        vals = np.hstack([np.asarray(x, dtype=float) for x in S])
        if not np.all(np.isfinite(vals)) or (not (vals.min() >= 0)):
            return None
        want = float(np.sum(np.log1p(vals)) / np.log(2)) if vals.max() < 1e-6 else float(np.sum(np.log2(1 + vals)))
        got = float(s.calc_sum_capacity())
        # binary64 of the stated formula itself: each log2(1 + x) carries the rounding of 1 + x (1.1e-16 / ln 2), plus the summation
        if (not (abs(got - want) <= 1e-9 * max(want, 1e-300) + (5e-16 * len(vals) if vals.max() < 1e-6 else 0.0))):
            return {"calc_sum_capacity": got, "sum of log2(1+SINR) over the streams": want, "streams": int(len(vals)), "noise_var": nv}
        return None
    return bounded(gen(), check)


@obligation("native/random_configurations", kind="bounded", timeout=900,
            desc="complex128: K 2..4, antennas 1..4, streams 1..min, random (non-aligned) precoders/filters, path loss, noise None/0/>0 "
                 "(given as float, int, numpy int64/float32/float64), "
                 "ext-int sources and powers: channel calc_SINR, IA-solver calc_SINR, JP SINR, Q matrices vs an independent first-principles "
                 "evaluator (rel 1e-9); scale invariance; Hermitian/PSD; sum capacity")
def ob_native():
    import pyphysim.channels.multiuser as mu
    import pyphysim.ia.algorithms as alg
    r = stable_rng("C11native")

    def gen():
        for i in range(120 if quick() else 1500):
            yield {"seed": int(r.randint(1 << 30)), "K": int(2 + i % 3), "ext": bool((i // 3) % 2)}

    def cm(rr, a, b):
        return rr.randn(a, b) + 1j * rr.randn(a, b)

    def check(case):
        rr = np.random.RandomState(case["seed"])
        K, ext = case["K"], case["ext"]
        Nr, Nt = rr.randint(1, 5, K), rr.randint(1, 5, K)
        Ns = np.array([rr.randint(1, min(a, b) + 1) for a, b in zip(Nr, Nt)])
        NtE = [int(rr.randint(1, 3))] if ext else []
        o = mu.MultiUserChannelMatrixExtInt() if ext else mu.MultiUserChannelMatrix()
        # when a second realisation is drawn later (below), the first one has the same totals but a rotated per-user split
        rerand = bool(case["seed"] % 2)
        Nr0, Nt0 = (np.roll(Nr, 1), np.roll(Nt, 1)) if rerand else (Nr, Nt)
        if ext:
            o.randomize(Nr0, Nt0, K, list(NtE))
        else:
            o.randomize(Nr0, Nt0, K)
        if (not (rr.rand() >= 0.7)):
            if ext:
                o.set_pathloss(rr.rand(K, K) + 0.01, rr.rand(K, len(NtE)) + 0.01)
            else:
                o.set_pathloss(rr.rand(K, K) + 0.01)
        # the noise variance in every representation a caller may hold it in: the value, not its type, decides
        nv_given = [None, 0.0, float(rr.rand() + 0.01), 0, 1, np.int64(2), np.float32(0.5), np.float64(rr.rand() + 0.01)][rr.randint(8)]
        nv = None if nv_given is None else float(nv_given)
        o.noise_var = nv_given
        pe = float(rr.rand() + 0.1) if ext else 0.0
        F = np.empty(K, dtype=object)
        U = np.empty(K, dtype=object)
        for k in range(K):
            F[k], U[k] = cm(rr, Nt[k], Ns[k]), cm(rr, Nr[k], Ns[k])
        H = o.H
        Hb = [[H[k, j] for j in range(H.shape[1])] for k in range(K)]
        extidx = list(range(K, K + len(NtE)))
        if rerand:
            # a new channel realisation after the path loss was set (first principles uses big_H blocks of the NEW state)
            o.big_H
            if ext:
                o.randomize(Nr, Nt, K, list(NtE))
            else:
                o.randomize(Nr, Nt, K)
            H = o.H
        big = o.big_H
        cumr, cumt = np.hstack([0, np.cumsum(Nr)]), np.hstack([0, np.cumsum(list(Nt) + list(NtE))])
        Hb = [[big[cumr[k]:cumr[k + 1], cumt[j]:cumt[j + 1]] for j in range(K + len(NtE))] for k in range(K)]
        fr = Frame(F=F, U=U, big_H=big)
        S = o.calc_SINR(F, U, pe) if ext else o.calc_SINR(F, U)
        if fr.changed():
            return {"calc_SINR frame": fr.changed()}
        for k in range(K):
            for l in range(Ns[k]):
                want = _fp_sinr(Hb, F, U, k, l, nv, pe, extidx)
                if not np.isfinite(want):
                    continue
                if (not (abs(S[k][l] - want) <= 1e-9 * max(1.0, abs(want)))) or (not (S[k][l] >= 0)):
                    return {"calc_SINR": [k, l, float(S[k][l]), float(want)]}
        U2 = np.empty(K, dtype=object)
        for k in range(K):
            U2[k] = U[k] * (rr.randn(1, Ns[k]) + 1j * rr.randn(1, Ns[k]))
        S2 = o.calc_SINR(F, U2, pe) if ext else o.calc_SINR(F, U2)
        for k in range(K):
            if (not (np.abs(S2[k] - S[k]).max() <= 1e-8 * max(1.0, np.abs(S[k]).max()))):
                return {"not scale invariant": k}
        # the same across orders of magnitude of the receive filters: the SINR is a ratio, no absolute level enters
        if all(np.all(np.isfinite(np.asarray(S[k], dtype=float))) for k in range(K)):
            for mag in (1e-9, 1e-12, 1e7):
                U3 = np.empty(K, dtype=object)
                for k in range(K):
                    U3[k] = U[k] * mag
                S3 = o.calc_SINR(F, U3, pe) if ext else o.calc_SINR(F, U3)
                for k in range(K):
                    if (not (np.abs(S3[k] - S[k]).max() <= 1e-8 * max(1.0, np.abs(S[k]).max()))):
                        return {"SINR changes when every receive filter is multiplied by": mag, "user": k,
                                "observed": [float(x) for x in S3[k]], "expected": [float(x) for x in S[k]]}
        for k in range(K):
            Q = o.calc_Q(k, F, pe) if ext else o.calc_Q(k, F)
            spec = sum((H[k, j] @ F[j]) @ (H[k, j] @ F[j]).conj().T for j in range(K) if j != k) if K > 1 else 0
            spec = spec + (nv or 0.0) * np.eye(Nr[k])
            for e in extidx:
                spec = spec + pe * H[k, e] @ H[k, e].conj().T
            if (not (np.abs(Q - spec).max() <= 1e-9 * max(1.0, np.abs(spec).max()))):
                return {"Q != sum of link covariances": k}
            if (not (np.abs(Q - Q.conj().T).max() <= 1e-10 * max(1.0, np.abs(Q).max()))) or (not (np.linalg.eigvalsh((Q + Q.conj().T) / 2).min() >= -1e-9 * max(1.0, np.abs(Q).max()))):
                return {"Q not Hermitian PSD": k}
        if not ext:
            s = alg.ClosedFormIASolver(o)
            P = rr.rand(K) + 0.2
            Fn = np.empty(K, dtype=object)
            for k in range(K):
                Fn[k] = F[k] / np.linalg.norm(F[k], 'fro')
            s.set_precoders(Fn, None, rr.rand(K) + 0.2)
            s.set_receive_filters(None, U)
            try:
                s.calc_SINR()          # materialise the derived quantities at the first power
            except np.linalg.LinAlgError:
                pass
            s.P = P                    # power sweep through the setter
            ok = True
            try:
                Ss = s.calc_SINR()
            except np.linalg.LinAlgError:
                ok = False
            if ok:
                fullF = np.empty(K, dtype=object)
                Ue = np.empty(K, dtype=object)
                for k in range(K):
                    fullF[k] = Fn[k] * np.sqrt(P[k])
                    Heq = U[k].conj().T @ Hb[k][k] @ fullF[k]
                    Ue[k] = (np.linalg.solve(Heq, U[k].conj().T)).conj().T
                Sc = o.calc_SINR(fullF, Ue)
                tot = 0.0
                for k in range(K):
                    for l in range(Ns[k]):
                        want = _fp_sinr(Hb, fullF, Ue, k, l, nv)
                        if np.isfinite(want) and ((not (abs(Ss[k][l] - want) <= 1e-8 * max(1.0, abs(want)))) or (not (abs(Sc[k][l] - Ss[k][l]) <= 1e-8 * max(1.0, abs(want))))):
                            return {"solver vs channel vs first principles": [k, l, float(Ss[k][l]), float(Sc[k][l]), float(want)]}
                        tot += np.log2(1 + Ss[k][l])
                if np.isfinite(tot) and (not (abs(s.calc_sum_capacity() - tot) <= 1e-9 * max(1.0, tot))):
                    return {"sum capacity": [float(s.calc_sum_capacity()), float(tot)]}
            # an explicitly given full_F that uses only part of the power (as the MMSE / stream-reduction solvers set it)
            s2 = alg.ClosedFormIASolver(o)
            part = np.empty(K, dtype=object)
            for k in range(K):
                part[k] = Fn[k] * np.sqrt(P[k]) * float(rr.uniform(0.3, 0.9))
            s2.set_precoders(Fn, part, P)
            s2.set_receive_filters(None, U)
            try:
                S2 = s2.calc_SINR()
            except np.linalg.LinAlgError:
                S2 = None
            if S2 is not None:
                Ue2 = np.empty(K, dtype=object)
                for k in range(K):
                    Heq = U[k].conj().T @ Hb[k][k] @ part[k]
                    Ue2[k] = (np.linalg.solve(Heq, U[k].conj().T)).conj().T
                for k in range(K):
                    for l in range(Ns[k]):
                        want = _fp_sinr(Hb, part, Ue2, k, l, nv)
                        if np.isfinite(want) and (not (abs(S2[k][l] - want) <= 1e-8 * max(1.0, abs(want)))):
                            return {"solver with an explicit full_F vs first principles": [k, l, float(S2[k][l]), float(want)]}
            # joint processing
            tot_t = int(Nt.sum())
            G = np.empty(K, dtype=object)
            for k in range(K):
                G[k] = cm(rr, tot_t, Ns[k])
            Sj = o.calc_JP_SINR(G, U)
            for k in range(K):
                Hk = o.get_Hk(k)
                for l in range(Ns[k]):
                    u = U[k][:, l]
                    num = abs(u.conj() @ Hk @ G[k][:, l]) ** 2
                    den = (nv or 0.0) * np.linalg.norm(u) ** 2
                    for j in range(K):
                        for d in range(Ns[j]):
                            if (j, d) != (k, l):
                                den += abs(u.conj() @ Hk @ G[j][:, d]) ** 2
                    if den > 0 and (not (abs(Sj[k][l] - num / den) <= 1e-9 * max(1.0, num / den))):
                        return {"JP SINR": [k, l, float(Sj[k][l]), float(num / den)]}
        return None
    return bounded(gen(), check)
