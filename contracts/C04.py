"""C04  MIMO schemes recover data over any full-rank channel within the power budget.

Deductive (symbolic entries, configuration-concrete sizes): MimoBase._calcZeroForceFilter/_calcMMSEFilter, Blast.*, MRC,
MRT.*, Alamouti._encode/_decode/encode/decode.  Bounded: SVDMimo, GMDMimo (+ misc.gmd), larger sizes, MMSE -> ZF limit.
"""
import math

import numpy as np
import z3

from pyvc import sym
from pyvc.sym import lift, cfrac_eq, frac_eq
from pyvc.interp import PyRaise
from pyvc.oblig import obligation, verify, bounded, Goal, merge
from .common import stable_rng, quick, Frame, num
from .C08 import _cmat
from .C20 import _rmat, _conjT, _meq

LEVEL = "proof"
EXPLANATION = ("With fully symbolic channel matrices and data symbols the real encode/decode methods are executed and "
               "decode(H encode(x)) == x is proved entry-wise (exact rational-function identities): BLAST/ZF for 2x2 complex and 3x2 "
               "real channels (pinv through its full-column-rank contract), MRC (n x 1), MRT (1 x n, polar-form contract of np.angle), "
               "Alamouti for 1 and 2 receive antennas.  Defining equations: ZF W H = I, MMSE (H^H H + s^2 I) W = H^H, MMSE at s^2 = 0 is "
               "the ZF filter.  Power: the energy of the encoded block equals the data energy divided as the scheme states.  Histories: "
               "after set_noise_var(s) / decode / set_noise_var(None) the decoder is zero-forcing again.  SVD and GMD schemes: np.linalg.svd "
               "under its library contract - H := U diag(S) V^H with every orthogonal / unitary U, V (angle atoms, reduced modulo cos^2 + "
               "sin^2 = 1) and positive descending S - SVDMimo round trip / precoder / filter shape for 2x2 real (both determinant signs), "
               "3x2 real, 2x2 complex; GMDMimo with the real misc.gmd executed on the symbolic factors for 2x2 and 3x2 real channels "
               "(distinct and repeated singular values).  Larger sizes and ill-conditioned channels: bounded native checks.")
ASSUMPTIONS = [
    "np.linalg.pinv / solve contracts (full column rank: det(H^H H) != 0 as requires); np.angle polar-form contract",
    "sizes configuration-concrete (entries symbolic); ideal reals; binary64 constants 1/sqrt(Nt) carried exactly as rationals",
    "svd library contract: LAPACK returns some valid factorisation H = U S V^H (U, V unitary, S descending), the same for the full and the economy call",
    "larger SVDMimo / GMDMimo sizes and the MMSE -> ZF limit for vanishing noise: bounded native (condition number up to 1e10, tolerances scaled with it)",
]
TRUSTED_BASE = ["numpy reshape(order='F') / dot executed natively on object arrays", "LAPACK svd in the bounded part"]


def _mkH(c, kind):
    if kind == "c2x2":
        return _cmat(c, "H", 2, 2)
    if kind == "r3x2":
        return _rmat(c, "H", 3, 2)
    if kind == "c2x1":
        return _cmat(c, "H", 2, 1)
    if kind == "c3x1":
        return _cmat(c, "H", 3, 1)
    raise KeyError(kind)


def _energy(A):
    tot = 0
    for v in np.asarray(A, dtype=object).flat:
        v = sym.to_complex(v)
        tot = tot + v.re * v.re + v.im * v.im
    return tot


def _native_H(kind, rr):
    r, k = {"c2x2": (2, 2), "r3x2": (3, 2), "c2x1": (2, 1), "c3x1": (3, 1)}[kind]
    return rr.randn(r, k) + (0 if kind.startswith("r") else 1j * rr.randn(r, k))


def _replay_blast(kind):
    def rp(model):
        from pyphysim.mimo import mimo
        try:
            for seed in range(3):
                rr = np.random.RandomState(40 + seed)
                H = _native_H(kind, rr)
                Nt = H.shape[1]
                x = rr.randn(2 * Nt) + 1j * rr.randn(2 * Nt)
                b = mimo.Blast(H)
                enc = b.encode(x)
                dec = b.decode(H @ enc)
                where = {"confirmed": True, "channel": kind}
                if np.shape(enc) != (Nt, 2):
                    return dict(where, encoded_shape=list(np.shape(enc)))
                if (not (np.abs(dec - x).max() <= 1e-9)):
                    return dict(where, what="decode(H encode(x)) != x", max_abs_error=float(np.abs(dec - x).max()))
                W = mimo.MimoBase._calcZeroForceFilter(H)
                if (not (np.abs(W @ H - np.eye(Nt)).max() <= 1e-9)):
                    return dict(where, what="zero-forcing filter: W H != I", max_abs_error=float(np.abs(W @ H - np.eye(Nt)).max()))
                if (not (abs(np.sum(np.abs(enc) ** 2) * Nt - np.sum(np.abs(x) ** 2)) <= 1e-9 * np.sum(np.abs(x) ** 2))):
                    return dict(where, what="encoded energy * Nt != data energy", encoded=float(np.sum(np.abs(enc) ** 2)), data=float(np.sum(np.abs(x) ** 2)))
            # a full-column-rank but ill-conditioned channel (condition number 1e8)
            rr = np.random.RandomState(99)
            H = _native_H(kind, rr)
            if H.shape[1] >= 2:
                U, _, Vh = np.linalg.svd(H, full_matrices=False)
                H = U @ np.diag(np.geomspace(1.0, 1e-8, H.shape[1])) @ Vh
                x = rr.randn(2 * H.shape[1]) + 1j * rr.randn(2 * H.shape[1])
                b = mimo.Blast(H)
                dec = b.decode(H @ b.encode(x))
                if (not (np.abs(dec - x).max() <= 1e-4)):
                    return {"confirmed": True, "channel": kind, "what": "decode(H encode(x)) != x for a full-rank channel with condition number 1e8",
                            "singular values": np.linalg.svd(H, compute_uv=False).tolist(), "max_abs_error": float(np.abs(dec - x).max())}
            return {"confirmed": False, "note": "real Blast round-trips generic data"}
        except Exception as e:
            return {"confirmed": False, "error": "replay crashed: %r" % (e,)}
    return rp


def _replay_mmse(kind):
    def rp(model):
        from pyphysim.mimo import mimo
        try:
            s2m = num(model.get("s2"), 0.0) if isinstance(model, dict) else 0.0
            for seed, s2 in enumerate([float(s2m) if s2m and s2m > 0 else 0.3, 0.3, 1e-6, 25.0]):
                rr = np.random.RandomState(50 + seed)
                H = _native_H(kind, rr)
                Nt = H.shape[1]
                W = mimo.MimoBase._calcMMSEFilter(H, s2)
                HH = H.conj().T
                err = float(np.abs((HH @ H + s2 * np.eye(Nt)) @ W - HH).max())
                where = {"confirmed": True, "channel": kind, "noise_var": s2}
                if (not (err <= 1e-9 * max(1.0, float(np.abs(HH).max())))):
                    return dict(where, what="(H^H H + s2 I) W != H^H", max_abs_error=err)
                Wz = mimo.MimoBase._calcZeroForceFilter(H)
                try:
                    with np.errstate(all="ignore"):
                        W0 = mimo.MimoBase._calcMMSEFilter(H, 0.0)
                    bad0 = (not np.all(np.isfinite(W0))) or (not (np.abs(W0 - Wz).max() <= 1e-8 * max(1.0, float(np.abs(Wz).max()))))
                    if bad0:
                        return dict(where, what="MMSE filter at noise variance 0 is not the zero-forcing filter",
                                    max_abs_difference=float(np.abs(W0 - Wz).max()) if np.all(np.isfinite(W0)) else "non-finite")
                except np.linalg.LinAlgError as e:
                    return dict(where, what="MMSE filter at noise variance 0 raised %r (zero-forcing filter expected)" % (e,))
                k = math.sqrt(Nt)
                for nv, want, lab in ((None, Wz * k, "None -> ZF"), (0.0, Wz * k, "0 -> ZF"), (s2, W * k, "s2 -> MMSE")):
                    got = mimo.Blast._calc_receive_filter(H, nv)
                    if (not (np.abs(got - want).max() <= 1e-9 * max(1.0, float(np.abs(want).max())))):
                        return dict(where, what="receive filter for noise " + lab, max_abs_error=float(np.abs(got - want).max()))
            return {"confirmed": False, "note": "real MMSE filter satisfies its defining equation for generic channels"}
        except Exception as e:
            return {"confirmed": False, "error": "replay crashed: %r" % (e,)}
    return rp


def _replay_noise_history(model):
    from pyphysim.mimo import mimo
    try:
        rr = np.random.RandomState(60)
        H = rr.randn(2, 2) + 1j * rr.randn(2, 2)
        x = rr.randn(2) + 1j * rr.randn(2)
        s2 = 0.4
        b = mimo.Blast(H)
        rx = H @ b.encode(x)
        b.set_noise_var(s2)
        d1 = b.decode(rx)
        Wm = mimo.MimoBase._calcMMSEFilter(H, s2) * math.sqrt(2)
        if (not (np.abs(d1 - (Wm @ rx).reshape(-1, order='F')).max() <= 1e-9)):
            return {"confirmed": True, "step": "set_noise_var(s2) -> decode", "what": "not the MMSE decode"}
        b.set_noise_var(None)
        if (not (np.abs(b.decode(rx) - x).max() <= 1e-9)):
            return {"confirmed": True, "step": "set_noise_var(s2), decode, set_noise_var(None), decode", "max_abs_error": float(np.abs(b.decode(rx) - x).max())}
        b.set_noise_var(s2)
        b.decode(rx)
        b.set_noise_var(0.0)
        if (not (np.abs(b.decode(rx) - x).max() <= 1e-9)):
            return {"confirmed": True, "step": "set_noise_var(s2), decode, set_noise_var(0.0), decode", "max_abs_error": float(np.abs(b.decode(rx) - x).max())}
        G = rr.randn(2, 2) + 1j * rr.randn(2, 2)
        b.set_channel_matrix(G)
        if (not (np.abs(b.decode(G @ b.encode(x)) - x).max() <= 1e-9)):
            return {"confirmed": True, "step": "set_channel_matrix, decode", "what": "does not decode with the new channel"}
        try:
            b.set_noise_var(-1.0)
            return {"confirmed": True, "step": "set_noise_var(-1.0)", "what": "accepted"}
        except ValueError:
            pass
        return {"confirmed": False, "note": "real Blast follows the noise-variance history for generic values"}
    except Exception as e:
        return {"confirmed": False, "error": "replay crashed: %r" % (e,)}


@obligation("blast/zf_round_trip_and_power", params=[{"H": k} for k in ("c2x2", "r3x2")], timeout=120,
            desc="Blast with a symbolic full-column-rank channel and symbolic data (two channel uses): decode(H encode(x)) == x; ZF filter "
                 "W H == I; encoded block energy * Nt == data energy (1/Nt power split)")
def ob_blast(H):
    def body(c, it):
        from pyphysim.mimo import mimo
        Hm = _mkH(c, H)
        Nt = Hm.shape[1]
        x = np.empty(2 * Nt, dtype=object)
        for i in range(2 * Nt):
            x[i] = c.var("x%d" % i, "complex")
        b = it.call(mimo.Blast, [Hm])
        enc = it.call(it.getattr(b, "encode"), [x])
        goals = [Goal("encoded shape (Nt, uses)", np.shape(enc) == (Nt, 2))]
        rx = np.dot(Hm, enc)
        dec = it.call(it.getattr(b, "decode"), [rx])
        goals.append(Goal("decode(H encode(x)) == x", _meq(dec, x)))
        W = it.call(mimo.MimoBase._calcZeroForceFilter, [Hm])
        goals.append(Goal("ZF: W H == I", _meq(np.dot(W, Hm), np.eye(Nt, dtype=object))))
        k = lift(math.sqrt(Nt))          # the binary64 constant the code divides by
        goals.append(Goal("energy(encoded) * sqrt(Nt)^2 == energy(data) (1/Nt power split)", frac_eq(_energy(enc) * k * k, _energy(x))))
        try:
            it.call(it.getattr(b, "encode"), [x[:-1]])
            goals.append(Goal("length not a multiple of the layers rejected", False))
        except PyRaise as pr:
            goals.append(Goal("length not a multiple of the layers -> ValueError", isinstance(pr.exc, ValueError)))
        return goals
    return verify(body, check_side=False, timeout_ms=120000, replay=_replay_blast(H))


@obligation("mmse/defining_equation", params=[{"H": k} for k in ("c2x2", "r3x2", "c2x1")], timeout=120,
            desc="_calcMMSEFilter(H, s2): (H^H H + s2 I) W == H^H for symbolic H and s2; at s2 == 0 it equals the zero-forcing filter; "
                 "Blast._calc_receive_filter picks ZF for None/0 and MMSE for s2 > 0, scaled by sqrt(Nt)")
def ob_mmse(H):
    def body(c, it):
        from pyphysim.mimo import mimo
        Hm = _mkH(c, H)
        Nt = Hm.shape[1]
        s2 = c.var("s2", "real")
        c.assume(s2 > 0)
        c.inputs["s2"] = s2
        W = it.call(mimo.MimoBase._calcMMSEFilter, [Hm, s2])
        HH = _conjT(Hm)
        lhs = np.dot(np.dot(HH, Hm) + np.eye(Nt, dtype=object) * s2, W)
        goals = [Goal("(H^H H + s2 I) W == H^H", _meq(lhs, HH))]
        W0 = it.call(mimo.MimoBase._calcMMSEFilter, [Hm, 0.0])
        Wz = it.call(mimo.MimoBase._calcZeroForceFilter, [Hm])
        goals.append(Goal("MMSE at s2 = 0 == ZF", _meq(W0, Wz)))
        k = math.sqrt(Nt)
        goals.append(Goal("receive filter (noise None) == sqrt(Nt) ZF", _meq(it.call(mimo.Blast._calc_receive_filter, [Hm, None]), Wz * k)))
        goals.append(Goal("receive filter (noise 0) == sqrt(Nt) ZF", _meq(it.call(mimo.Blast._calc_receive_filter, [Hm, 0.0]), Wz * k)))
        goals.append(Goal("receive filter (noise s2>0) == sqrt(Nt) MMSE", _meq(it.call(mimo.Blast._calc_receive_filter, [Hm, s2]), W * k)))
        return goals
    return verify(body, check_side=False, timeout_ms=120000, replay=_replay_mmse(H))


@obligation("blast/noise_var_history", timeout=120,
            desc="history on one Blast object: set_noise_var(s2>0) -> decode -> set_noise_var(None) -> decode: the second decode is zero-forcing "
                 "(recovers the data exactly); then set_noise_var(0.0) likewise; negative variance rejected")
def ob_history():
    def body(c, it):
        from pyphysim.mimo import mimo
        Hm = _cmat(c, "H", 2, 2)
        x = np.empty(2, dtype=object)
        x[0], x[1] = c.var("x0", "complex"), c.var("x1", "complex")
        s2 = c.var("s2", "real")
        c.assume(s2 > 0)
        b = it.call(mimo.Blast, [Hm])
        rx = np.dot(Hm, it.call(it.getattr(b, "encode"), [x]))
        it.call(it.getattr(b, "set_noise_var"), [s2])
        d1 = it.call(it.getattr(b, "decode"), [rx])
        Wm = it.call(mimo.MimoBase._calcMMSEFilter, [Hm, s2]) * math.sqrt(2)
        goals = [Goal("with noise: MMSE decode", _meq(d1, np.dot(Wm, rx).reshape(-1, order='F')))]
        it.call(it.getattr(b, "set_noise_var"), [None])
        goals.append(Goal("after set_noise_var(None): data recovered exactly", _meq(it.call(it.getattr(b, "decode"), [rx]), x)))
        it.call(it.getattr(b, "set_noise_var"), [s2])
        it.call(it.getattr(b, "decode"), [rx])
        it.call(it.getattr(b, "set_noise_var"), [0.0])
        goals.append(Goal("after set_noise_var(0.0): data recovered exactly", _meq(it.call(it.getattr(b, "decode"), [rx]), x)))
        H2 = _cmat(c, "G", 2, 2)
        it.call(it.getattr(b, "set_channel_matrix"), [H2])
        rx2 = np.dot(H2, it.call(it.getattr(b, "encode"), [x]))
        goals.append(Goal("after set_channel_matrix: decodes with the new channel", _meq(it.call(it.getattr(b, "decode"), [rx2]), x)))
        try:
            it.call(it.getattr(b, "set_noise_var"), [-1.0])
            goals.append(Goal("negative noise variance rejected", False))
        except PyRaise as pr:
            goals.append(Goal("negative noise variance -> ValueError", isinstance(pr.exc, ValueError)))
        return goals
    return verify(body, check_side=False, timeout_ms=120000, replay=_replay_noise_history)


@obligation("mrc/round_trip", params=[{"H": k} for k in ("c2x1", "c3x1")], timeout=120,
            desc="MRC (one transmit antenna, symbolic n x 1 channel, also given as a 1-D array): decode(h encode(x)) == x")
def ob_mrc(H):
    def body(c, it):
        from pyphysim.mimo import mimo
        Hm = _mkH(c, H)
        x = np.empty(2, dtype=object)
        x[0], x[1] = c.var("x0", "complex"), c.var("x1", "complex")
        goals = []
        for chan in (Hm, Hm[:, 0]):
            m = it.call(mimo.MRC, [chan])
            enc = it.call(it.getattr(m, "encode"), [x])
            dec = it.call(it.getattr(m, "decode"), [np.dot(Hm, enc)])
            goals.append(Goal("decode(h encode(x)) == x (%d-D channel)" % chan.ndim, _meq(dec, x)))
            goals.append(Goal("energy preserved (Nt = 1)", frac_eq(_energy(enc), _energy(x))))
        return goals
    return verify(body, check_side=False, timeout_ms=120000)


@obligation("mrt/round_trip_and_power", params=[{"Nt": n} for n in (1, 2, 3)], timeout=120,
            desc="MRT (one receive antenna, symbolic 1 x Nt channel): g (h w) x == x with w = e^{-j angle(h)}/sqrt(Nt), g = sqrt(Nt)/sum|h|; "
                 "|w_i|^2 == 1/Nt so the encoded energy equals the data energy; Nr != 1 rejected")
def ob_mrt(Nt):
    def body(c, it):
        from pyphysim.mimo import mimo
        h = np.empty((1, Nt), dtype=object)
        for i in range(Nt):
            h[0, i] = sym.polar(c, "h%d" % i)          # polar form: |h_i| and angle(h_i) by their library contracts
        x = np.empty(2, dtype=object)
        x[0], x[1] = c.var("x0", "complex"), c.var("x1", "complex")
        m = it.call(mimo.MRT, [h])
        enc = it.call(it.getattr(m, "encode"), [x])
        goals = [Goal("encoded shape (Nt, uses)", np.shape(enc) == (Nt, 2))]
        rx = np.dot(h, enc)
        dec = it.call(it.getattr(m, "decode"), [rx])
        goals.append(Goal("decode(h encode(x)) == x", _meq(dec, x)))
        k = lift(math.sqrt(Nt))
        goals.append(Goal("encoded energy * sqrt(Nt)^2 == Nt * data energy (|w_i|^2 = 1/Nt)", frac_eq(_energy(enc) * k * k, Nt * _energy(x))))
        try:
            it.call(mimo.MRT, [_cmat(c, "bad", 2, 2)])
            goals.append(Goal("Nr != 1 rejected", False))
        except PyRaise as pr:
            goals.append(Goal("Nr != 1 -> ValueError", isinstance(pr.exc, ValueError)))
        return goals
    return verify(body, check_side=False, timeout_ms=120000)


@obligation("alamouti/round_trip_and_power", params=[{"Nr": n} for n in (1, 2)], timeout=120,
            desc="Alamouti with a symbolic Nr x 2 channel and symbolic symbols (2 and 4): decode(H encode(s)) == s; encoded energy == data "
                 "energy (2 antennas x 1/sqrt 2); Nt != 2 rejected")
def ob_alamouti(Nr):
    def body(c, it):
        from pyphysim.mimo import mimo
        Hm = _cmat(c, "H", Nr, 2)
        s = np.empty(4, dtype=object)
        for i in range(4):
            s[i] = c.var("s%d" % i, "complex")
        a = it.call(mimo.Alamouti, [Hm])
        enc = it.call(it.getattr(a, "encode"), [s])
        goals = [Goal("encoded shape (2, Ns)", np.shape(enc) == (2, 4))]
        dec = it.call(it.getattr(a, "decode"), [np.dot(Hm, enc)])
        goals.append(Goal("decode(H encode(s)) == s", _meq(dec, s)))
        k = lift(math.sqrt(2))
        goals.append(Goal("encoded energy * sqrt(2)^2 == 2 * data energy (every symbol sent twice at half power)",
                          frac_eq(_energy(enc) * k * k, 2 * _energy(s))))
        try:
            it.call(mimo.Alamouti, [_cmat(c, "bad", 2, 3)])
            goals.append(Goal("Nt != 2 rejected", False))
        except PyRaise as pr:
            goals.append(Goal("Nt != 2 -> ValueError", isinstance(pr.exc, ValueError)))
        return goals
    return verify(body, check_side=False, timeout_ms=120000)


@obligation("schemes/rejected_channel_leaves_the_object_unchanged", params=[{"scheme": s} for s in ("Alamouti", "MRT", "Blast", "MRC")], timeout=200,
            desc="exceptional postcondition of set_channel_matrix / set_noise_var on a USED object: a call that is rejected (Alamouti: Nt != 2 "
                 "given as a 2-D array; MRT: more than one receive antenna; Blast/MRC: negative noise variance) raises ValueError and the object keeps working with the channel it had: decode(H encode(x)) == x "
                 "still holds for the symbolic channel set before")
def ob_rejected(scheme):
    def body(c, it):
        from pyphysim.mimo import mimo
        x = np.empty(2, dtype=object)
        x[0], x[1] = c.var("x0", "complex"), c.var("x1", "complex")
        if scheme == "Alamouti":
            H = _cmat(c, "H", 2, 2)
            bads = [("set_channel_matrix", _cmat(c, "B", 2, 3)), ("set_channel_matrix", _cmat(c, "b1", 2, 1)),
                    ("set_channel_matrix", _cmat(c, "b4", 1, 4))]
        elif scheme == "MRT":
            H = np.empty((1, 2), dtype=object)
            H[0, 0], H[0, 1] = sym.polar(c, "h0"), sym.polar(c, "h1")
            bads = [("set_channel_matrix", _cmat(c, "B", 2, 2)), ("set_channel_matrix", _cmat(c, "B3", 3, 1))]
        elif scheme == "Blast":
            H = _cmat(c, "H", 2, 2)
            bads = [("set_noise_var", -1.0), ("set_noise_var", -1e-9)]
        else:
            H = _cmat(c, "H", 2, 1)
            bads = [("set_noise_var", -0.5)]
        o = it.call(getattr(mimo, scheme), [H])
        goals = []
        rx0 = np.dot(H, it.call(it.getattr(o, "encode"), [x]))
        goals.append(Goal("before: decode(H encode(x)) == x", _meq(it.call(it.getattr(o, "decode"), [rx0]), x)))
        for meth, arg in bads:
            label = "%s(%s)" % (meth, "array of shape %s" % (np.shape(arg),) if isinstance(arg, np.ndarray) else arg)
            try:
                it.call(it.getattr(o, meth), [arg])
                goals.append(Goal("%s is rejected" % label, False))
                continue
            except PyRaise as pr:
                goals.append(Goal("%s raises ValueError" % label, isinstance(pr.exc, ValueError)))
            enc = it.call(it.getattr(o, "encode"), [x])
            dec = it.call(it.getattr(o, "decode"), [np.dot(H, enc)])
            goals.append(Goal("after the rejected %s: decode(H encode(x)) == x with the channel set before" % label, _meq(dec, x)))
        return goals

    def rp(mv):
        from pyphysim.mimo import mimo
        try:
            rr = np.random.RandomState(31)
            shapes = {"Alamouti": (2, 2), "MRT": (1, 3), "Blast": (3, 2), "MRC": (3, 1)}
            H = rr.randn(*shapes[scheme]) + 1j * rr.randn(*shapes[scheme])
            o = getattr(mimo, scheme)(H)
            n = 2 if scheme in ("Alamouti", "Blast") else 2
            x = rr.randn(n) + 1j * rr.randn(n)
            bads = {"Alamouti": [("set_channel_matrix", rr.randn(2, 3) + 0j), ("set_channel_matrix", rr.randn(1, 4) + 0j)],
                    "MRT": [("set_channel_matrix", rr.randn(2, 2) + 0j)], "Blast": [("set_noise_var", -1.0)],
                    "MRC": [("set_noise_var", -0.5)]}[scheme]
            for meth, arg in bads:
                try:
                    getattr(o, meth)(arg)
                    return {"confirmed": True, "scheme": scheme, "call": meth, "argument": repr(arg)[:100], "observed": "accepted"}
                except ValueError:
                    pass
                dec = o.decode(H @ o.encode(x))
                if not (np.shape(dec) == x.shape and np.abs(dec - x).max() <= 1e-9):
                    return {"confirmed": True, "scheme": scheme, "history": "valid channel, rejected %s (ValueError caught), encode, channel, decode" % meth,
                            "max_abs_error": float(np.abs(np.ravel(dec)[:x.size] - x).max())}
            return {"confirmed": False, "note": "real objects are unchanged by rejected calls"}
        except Exception as e:
            return {"confirmed": False, "error": "replay crashed: %r" % (e,)}
    return verify(body, check_side=False, timeout_ms=120000, replay=rp)


# ------------------------------------------------------------------ SVD / GMD schemes through the svd contract
def _unitary(c, tag, n, kind):
    """every orthogonal (kind 'r') / unitary (kind 'c') n x n matrix for n in {2, 3}, written with angle atoms (cos/sin of symbolic
    angles, reduced modulo cos^2 + sin^2 = 1 by the ring normaliser): real n = 2: rotation times an optional reflection; real n = 3:
    product of three Givens rotations times an optional reflection; complex n = 2: diag(e^{ja}, e^{jb}) G(t) diag(1, e^{jd})."""
    def cs(name):
        a = c.var("%s_%s" % (tag, name), "real")
        return lift(a).cos(), lift(a).sin()

    def giv(n, i, j, name):
        co, si = cs(name)
        G = np.eye(n, dtype=object)
        G[i, i], G[i, j], G[j, i], G[j, j] = co, -si, si, co
        return G
    if kind.startswith("r"):
        if n == 2:
            M = giv(2, 0, 1, "t")
        else:
            M = giv(3, 0, 1, "t").dot(giv(3, 0, 2, "u")).dot(giv(3, 1, 2, "v"))
        if kind == "rflip":          # determinant -1: last column negated
            M = M.copy()
            M[:, n - 1] = -M[:, n - 1]
        return M
    assert n == 2
    ca, sa = cs("a")
    cb, sb = cs("b")
    cd, sd = cs("d")
    ea, eb, ed = sym.SComplex(ca, sa), sym.SComplex(cb, sb), sym.SComplex(cd, sd)
    ct, st = cs("t")
    M = np.empty((2, 2), dtype=object)
    M[0, 0], M[0, 1] = ea * ct, ea * (0 - st) * ed
    M[1, 0], M[1, 1] = eb * st, eb * ct * ed
    return M


def _svd_of(c, kind, family="generic"):
    """H := U diag(S) V^H from arbitrary orthogonal/unitary factors and positive singular values (every full-column-rank H of that
    shape is of this form); the library contract of np.linalg.svd applied to exactly this H returns these factors (economy form: the
    first Nt columns of U)."""
    nr, nt = int(kind[1]), int(kind[3])
    fam = "c" if kind[0] == "c" else kind.split("_")[1] if "_" in kind else "r"
    U = _unitary(c, "U", nr, fam if fam != "c" else "c")
    V = _unitary(c, "V", nt, "r" if fam != "c" else "c")
    S = np.empty(nt, dtype=object)
    if nt == 3 and family != "any":
        from .C20 import _gmd_inputs
        S = _gmd_inputs(c, 3, "generic" if family == "strict" else family)
    elif family == "all_equal":
        s = c.var("s", "real")
        c.assume(s > 0)
        for i in range(nt):
            S[i] = s
    else:
        for i in range(nt):
            S[i] = c.var("s%d" % i, "real")
            c.assume(S[i] > 0)
        for i in range(nt - 1):
            c.assume((S[i] > S[i + 1]) if family == "strict" else (S[i] >= S[i + 1]))
    D = np.zeros((nr, nt), dtype=object)
    for i in range(nt):
        D[i, i] = S[i]
    Vh = _conjT(V)
    H = U.dot(D).dot(Vh)
    calls = []

    def m_svd(interp, A, full_matrices=True, **k):
        A = np.asarray(A, dtype=object)
        same = A.shape == H.shape and all(a is b or bool(z3.is_true(z3.simplify(cfrac_eq(a, b).t))) for a, b in zip(A.flat, H.flat))
        calls.append((same, full_matrices))
        if not same:
            raise AssertionError("svd contract instantiated for the channel matrix only")
        return (U.copy() if full_matrices else U[:, :nt].copy()), S.copy(), Vh.copy()
    return H, U, S, Vh, m_svd, calls


def _replay_svd_gmd(cls_name, kind):
    def rp(model):
        from pyphysim.mimo import mimo
        try:
            nr, nt = int(kind[1]), int(kind[3])
            for seed in range(4):
                rr = np.random.RandomState(70 + seed)
                H = rr.randn(nr, nt) + (1j * rr.randn(nr, nt) if kind[0] == "c" else 0)
                if seed == 3:          # exactly repeated singular values
                    Q, _ = np.linalg.qr(rr.randn(nr, nr)); H = Q[:, :nt] * 1.5
                if seed == 2 and nt >= 2:          # full rank, condition number 1e8
                    U_, _, Vh_ = np.linalg.svd(H, full_matrices=False)
                    H = U_ @ np.diag(np.geomspace(1.0, 1e-8, nt)) @ Vh_
                x = rr.randn(2 * nt) + 1j * rr.randn(2 * nt)
                where = {"confirmed": True, "scheme": cls_name, "channel": H.tolist() if kind[0] != "c" else [[str(v) for v in r] for r in H]}
                try:
                    m = getattr(mimo, cls_name)(H)
                    enc = m.encode(x)
                    dec = m.decode(H @ enc)
                except Exception as e:
                    return dict(where, what="raised %r" % (e,))
                if np.shape(enc) != (nt, 2):
                    return dict(where, encoded_shape=list(np.shape(enc)))
                if (not (np.shape(dec) == x.shape and np.abs(dec - x).max() <= (1e-8 if seed != 2 else 1e-4))):
                    return dict(where, what="decode(H encode(x)) != x", max_abs_error=float(np.abs(np.ravel(dec)[:x.size] - x).max()))
                if (not (abs(np.sum(np.abs(enc) ** 2) * nt - np.sum(np.abs(x) ** 2)) <= 1e-9 * np.sum(np.abs(x) ** 2))):
                    return dict(where, what="encoded energy * Nt != data energy")
            return {"confirmed": False, "note": "real %s round-trips generic data" % cls_name}
        except Exception as e:
            return {"confirmed": False, "error": "replay crashed: %r" % (e,)}
    return rp


@obligation("svd/round_trip_and_power", params=[{"H": k} for k in ("r2x2", "r2x2_rflip", "r3x2", "c2x2")], timeout=300,
            desc="SVDMimo with np.linalg.svd under its library contract (H == U diag(S) V^H, U and V orthogonal/unitary - written with angle "
                 "atoms - S positive descending; every full-column-rank H of the shape): decode(H encode(x)) == x for symbolic data over two "
                 "channel uses, the precoder is V/sqrt(Nt) (so the encoded energy * Nt == data energy), the receive filter is "
                 "sqrt(Nt) diag(1/S) U_econ^H and has shape Nt x Nr (Nr > Nt included); a length that is no multiple of Nt is rejected")
def ob_svd(H):
    def body(c, it):
        from pyphysim.mimo import mimo
        Hm, U, S, Vh, m_svd, calls = _svd_of(c, H)
        it.models[np.linalg.svd] = m_svd
        nr, nt = Hm.shape
        x = np.empty(2 * nt, dtype=object)
        for i in range(2 * nt):
            x[i] = c.var("x%d" % i, "complex")
        m = it.call(mimo.SVDMimo, [Hm])
        enc = it.call(it.getattr(m, "encode"), [x])
        goals = [Goal("encoded shape (Nt, uses)", np.shape(enc) == (nt, 2))]
        dec = it.call(it.getattr(m, "decode"), [np.dot(Hm, enc)])
        goals.append(Goal("decode(H encode(x)) == x", _meq(dec, x)))
        k = lift(math.sqrt(nt))
        W = it.call(mimo.SVDMimo._calc_precoder, [Hm])
        goals.append(Goal("precoder * sqrt(Nt) == V", _meq(np.asarray(W, dtype=object) * k, _conjT(Vh))))
        goals.append(Goal("energy(encoded) * sqrt(Nt)^2 == energy(data)", frac_eq(_energy(enc) * k * k, _energy(x))))
        G = np.asarray(it.call(mimo.SVDMimo._calc_receive_filter, [Hm]), dtype=object)
        goals.append(Goal("receive filter shape Nt x Nr", G.shape == (nt, nr)))
        if G.shape == (nt, nr):
            goals.append(Goal("receive filter * precoder-side: G H W == I", _meq(G.dot(Hm).dot(W), np.eye(nt, dtype=object))))
        goals.append(Goal("svd asked for the channel matrix only", all(s for s, _ in calls) and len(calls) >= 2))
        try:
            it.call(it.getattr(m, "encode"), [x[:-1]])
            goals.append(Goal("length not a multiple of the layers rejected", False))
        except PyRaise as pr:
            goals.append(Goal("length not a multiple of the layers -> ValueError", isinstance(pr.exc, ValueError)))
        return goals
    return verify(body, check_side=False, timeout_ms=120000, replay=_replay_svd_gmd("SVDMimo", H))


@obligation("gmd/round_trip_and_power", params=[{"H": k, "family": f} for k in ("r2x2", "r3x2") for f in ("generic", "all_equal")], timeout=300,
            desc="GMDMimo with np.linalg.svd under its library contract (as in svd/round_trip_and_power) and the REAL misc.gmd executed on the "
                 "symbolic factors (two singular values: strictly decreasing, and exactly repeated): decode(H encode(x)) == x, the precoder "
                 "* sqrt(Nt) has orthonormal columns (encoded energy * Nt == data energy), the equivalent channel the receive filter is "
                 "built from satisfies (Q R) == H P")
def ob_gmd_mimo(H, family):
    def body(c, it):
        from pyphysim.mimo import mimo
        Hm, U, S, Vh, m_svd, calls = _svd_of(c, H, "strict" if family == "generic" else family)
        it.models[np.linalg.svd] = m_svd
        nr, nt = Hm.shape
        x = np.empty(2 * nt, dtype=object)
        for i in range(2 * nt):
            x[i] = c.var("x%d" % i, "complex")
        m = it.call(mimo.GMDMimo, [Hm])
        enc = it.call(it.getattr(m, "encode"), [x])
        goals = [Goal("encoded shape (Nt, uses)", np.shape(enc) == (nt, 2))]
        dec = it.call(it.getattr(m, "decode"), [np.dot(Hm, enc)])
        goals.append(Goal("decode(H encode(x)) == x", _meq(dec, x)))
        k = lift(math.sqrt(nt))
        W = np.asarray(it.call(mimo.GMDMimo._calc_precoder, [Hm]), dtype=object) * k
        goals.append(Goal("(precoder sqrt(Nt))^H (precoder sqrt(Nt)) == I", _meq(_conjT(W).dot(W), np.eye(nt, dtype=object))))
        goals.append(Goal("energy(encoded) * sqrt(Nt)^2 == energy(data)", frac_eq(_energy(enc) * k * k, _energy(x))))
        return goals
    return verify(body, check_side=False, timeout_ms=120000, max_paths=60, replay=_replay_svd_gmd("GMDMimo", H))


# ------------------------------------------------------------------ bounded native
@obligation("native/all_schemes", kind="bounded", timeout=900,
            desc="complex128: every scheme (Blast, MRC, MRT, SVD, GMD, Alamouti) x antenna configurations Nr >= Nt up to 6 (rectangular incl.) x "
                 "random channels, channels with singular values in geometric progression and ill-conditioned full-rank channels (condition number 1e6, 1e8, 1e10; tolerances scaled) x data blocks: "
                 "noise-free decode(H encode(x)) == x (1e-8), energy per channel use == mean symbol energy, ZF/MMSE equations, MMSE -> ZF as "
                 "noise -> 0, noise-variance histories on one object")
def ob_native():
    from pyphysim.mimo import mimo
    r = stable_rng("C04native")

    def gen():
        for i in range(150 if quick() else 2000):
            yield {"seed": int(r.randint(1 << 30)), "scheme": ["Blast", "MRC", "MRT", "SVDMimo", "GMDMimo", "Alamouti"][i % 6],
                   "geo": bool((i // 6) % 3 == 0), "kappa": [None, None, 1e6, None, 1e8, 1e10][(i // 12) % 6]}

    def cm(rr, a, b):
        return rr.randn(a, b) + 1j * rr.randn(a, b)

    def check(case):
        rr = np.random.RandomState(case["seed"])
        sch = case["scheme"]
        if sch == "MRT":
            Nr, Nt = 1, int(rr.randint(1, 7))
        elif sch == "MRC":
            Nr, Nt = int(rr.randint(1, 7)), 1
        elif sch == "Alamouti":
            Nr, Nt = int(rr.randint(1, 5)), 2
        else:
            Nt = int(rr.randint(1, 7))
            Nr = int(rr.randint(Nt, 7))
        H = cm(rr, Nr, Nt)
        if case["geo"] and sch in ("SVDMimo", "GMDMimo", "Blast") and Nt >= 2:
            sv = 2.0 ** np.arange(Nt, 0, -1)
            H = np.linalg.qr(cm(rr, Nr, Nr))[0][:, :Nt] @ np.diag(sv) @ np.linalg.qr(cm(rr, Nt, Nt))[0]
        if case.get("kappa") and sch in ("SVDMimo", "GMDMimo", "Blast") and Nt >= 2:
            # full column rank but ill conditioned (e.g. one strongly attenuated path): still "any full-rank channel"
            sv = np.geomspace(1.0, 1.0 / case["kappa"], Nt)
            H = np.linalg.qr(cm(rr, Nr, Nr))[0][:, :Nt] @ np.diag(sv) @ np.linalg.qr(cm(rr, Nt, Nt))[0]
        kap = float(np.linalg.cond(H))
        if (not (kap <= 1e11)):
            return None
        slack = max(1.0, kap / 1e4)          # attainable accuracy in binary64 degrades with the condition number
        o = getattr(mimo, sch)(H)
        layers = o.getNumberOfLayers() if sch != "MRT" else 1
        n = layers * int(rr.randint(1, 5))
        if sch == "Alamouti":
            n = 2 * int(rr.randint(1, 4))
        x = rr.randn(n) + 1j * rr.randn(n)
        fr = Frame(x=x, H=H)
        enc = o.encode(x)
        fr.watch(enc=enc)
        rxs = H @ enc
        fr.watch(received=rxs)
        dec = o.decode(rxs)
        if fr.changed():
            return {"scheme": sch, "frame": fr.changed()}
        if dec.shape != x.shape or (not (np.abs(dec - x).max() <= 1e-8 * slack * max(1, np.abs(x).max()))):
            return {"scheme": sch, "Nr": Nr, "Nt": Nt, "condition number": kap, "max error": float(np.abs(dec - x).max()) if dec.shape == x.shape else "shape"}
        uses = enc.shape[1] if enc.ndim == 2 else 1
        per_use = np.sum(np.abs(enc) ** 2) / uses
        want = np.mean(np.abs(x) ** 2) * (1 if sch in ("MRT", "MRC") else 1)
        if sch in ("Blast", "SVDMimo", "GMDMimo"):
            want = np.mean(np.abs(x) ** 2)              # Nt streams, each 1/Nt of the power
        if sch == "Alamouti":
            want = np.mean(np.abs(x) ** 2)
        if (not (abs(per_use - want) <= 1e-9 * max(1, want))):
            return {"scheme": sch, "energy per channel use": float(per_use), "mean symbol energy": float(want)}
        if sch in ("Blast", "MRC", "GMDMimo"):
            W = mimo.MimoBase._calcZeroForceFilter(H)
            if (not (np.abs(W @ H - np.eye(Nt)).max() <= 1e-8 * slack)):
                return {"ZF equation W H == I violated by": float(np.abs(W @ H - np.eye(Nt)).max()), "condition number": kap}
            s2 = float(rr.rand() + 0.01)
            Wm = mimo.MimoBase._calcMMSEFilter(H, s2)
            if (not (np.abs((H.conj().T @ H + s2 * np.eye(Nt)) @ Wm - H.conj().T).max() <= 1e-8 * max(1, np.abs(H).max() ** 2))):
                return {"MMSE equation": True}
            # the same channel stored as an integer array (e.g. a test channel typed by hand): the filters see the numbers, not the dtype
            Hi = rr.randint(-3, 4, size=(Nr, Nt))
            if np.linalg.matrix_rank(Hi) == Nt and np.linalg.cond(Hi.astype(float)) < 1e4:
                for s2i in (s2, 0.25, 2.0):
                    Wi = mimo.MimoBase._calcMMSEFilter(Hi.astype(np.int64), s2i)
                    Wf = mimo.MimoBase._calcMMSEFilter(Hi.astype(float), s2i)
                    if (not (np.abs(np.asarray(Wi) - Wf).max() <= 1e-12 * max(1.0, np.abs(Wf).max()))):
                        return {"MMSE filter depends on the dtype of the channel array": float(np.abs(np.asarray(Wi) - Wf).max()), "noise_var": s2i}
                Zi = mimo.MimoBase._calcZeroForceFilter(Hi.astype(np.int64))
                Zf = mimo.MimoBase._calcZeroForceFilter(Hi.astype(float))
                if (not (np.abs(np.asarray(Zi) - Zf).max() <= 1e-12 * max(1.0, np.abs(Zf).max()))):
                    return {"ZF filter depends on the dtype of the channel array": True}
                oi, of = getattr(mimo, sch)(Hi.astype(np.int64)), getattr(mimo, sch)(Hi.astype(float))
                xi = rr.randn(n) + 1j * rr.randn(n)
                for ob_ in (oi, of):
                    ob_.set_noise_var(0.5)
                di, df = oi.decode(Hi @ oi.encode(xi)), of.decode(Hi.astype(float) @ of.encode(xi))
                if (not (np.abs(np.asarray(di) - np.asarray(df)).max() <= 1e-9 * max(1.0, np.abs(df).max()))):
                    return {"scheme": sch, "decode with an MMSE filter depends on the dtype of the channel array": float(np.abs(np.asarray(di) - np.asarray(df)).max())}
            Wt = mimo.MimoBase._calcMMSEFilter(H, 1e-12)
            if kap <= 1e4 and (not (np.abs(Wt - W).max() <= 1e-4 * max(1, np.abs(W).max()))):
                return {"MMSE does not tend to ZF": float(np.abs(Wt - W).max())}
            # histories on one object
            o.set_noise_var(0.5)
            o.decode(H @ enc)
            o.set_noise_var(None)
            d2 = o.decode(H @ enc)
            if (not (np.abs(d2 - x).max() <= 1e-8 * slack * max(1, np.abs(x).max()))):
                return {"scheme": sch, "after set_noise_var(0.5), decode, set_noise_var(None)": float(np.abs(d2 - x).max())}
            o.set_noise_var(0.3)
            o.decode(H @ enc)
            o.set_noise_var(0.0)
            d3 = o.decode(H @ enc)
            if (not (np.abs(d3 - x).max() <= 1e-8 * slack * max(1, np.abs(x).max()))):
                return {"scheme": sch, "after set_noise_var(0.0)": float(np.abs(d3 - x).max())}
        return None
    return bounded(gen(), check)
