"""C14  Jakes fading samples do not depend on how generation was chunked.

Functions under contract: JakesSampleGenerator.__init__/_generate_time_samples/generate_more_samples/
skip_samples_for_next_generation/shape(setter)/_set_phi_and_psi_according_to_shape, FadingSampleGenerator.*,
generate_jakes_samples.
"""
import itertools
import math

import numpy as np
import z3

from pyvc import sym
from pyvc.sym import lift
from pyvc.oblig import obligation, verify, bounded, Goal, Inapplicable
from pyvc.interp import PyRaise
from .common import stable_rng, quick, num
from pyvc.seq import SymSeq

LEVEL = "proof"
EXPLANATION = ("Ghost position pos = number of samples consumed.  (1) _generate_time_samples is executed with a SYMBOLIC request "
               "size n through an affine-sequence contract of np.arange (element i is i, length n): t_i = t0 + i*Ts, exactly n "
               "samples, new time t0 + n*Ts, shape (1,..,1,n); generate_more_samples(n) for symbolic n with the time axis abstracted to "
               "its generic element: per shape entry a sequence of length n whose element i equals the Jakes model at t0 + i*Ts.  (2) inductive step of the class invariant "
               "_current_time == pos*Ts for generate(n) and skip(m), any history length.  (3) representation-independent "
               "histories: every sequence of <= 3 requests over {generate(1|2), skip(m)} after an arbitrary symbolic head start, "
               "observed only through get_samples(): each returned sample equals the Jakes sum-of-sinusoids at (pos)*Ts for the "
               "phases drawn at construction.  (4) |h|<=sqrt(L) via lemma L-UNIT (Lean/Mathlib, all L), Fd=0 => time invariant.  Floats are ideal reals; binary64 "
               "drift over 1e10 samples is a bounded native check with a stated phase tolerance.")
ASSUMPTIONS = [
    "ideal-real arithmetic: _current_time accumulates n*Ts exactly (binary64 accumulation error is bounded natively: phase error "
    "<= 2 pi Fd * 1e-6*Ts*... see float/long_histories)",
    "numpy.arange(int n) contract: length n, element i equals i (affine-sequence model, conformance-checked natively)",
    "cos/sin uninterpreted (congruence, cos^2+sin^2=1); random phases are uninterpreted draws in [0, 2 pi)",
    "lemma L-UNIT (|sum of L unit vectors| <= L): z3 for L<=2 in every run, Lean 4 + Mathlib for all L in the thorough tier; in the quick tier it is an assumed lemma for L>2",
]
TRUSTED_BASE = ["numpy broadcasting/sum executed natively on object arrays"]
BOUNDS = {"history_length": 3, "L_values": [1, 2, 3], "shapes": [None, 2, (2, 1)]}

JK = "pyphysim.channels.fading_generators"


class AffineSeq:
    """library contract of np.arange(int n) for a symbolic n: element i is a*i+b, length n"""

    def __init__(self, n, a=1, b=0):
        self.n, self.a, self.b = n, a, b
        self._shape = None

    def __mul__(self, k):
        return AffineSeq(self.n, self.a * k, self.b * k)
    __rmul__ = __mul__

    def __add__(self, k):
        return AffineSeq(self.n, self.a, self.b + k)
    __radd__ = __add__

    def __getitem__(self, i):
        if i == -1:
            return self.a * (self.n - 1) + self.b
        raise IndexError("AffineSeq: only [-1] is modelled")

    @property
    def shape(self):
        return self._shape if self._shape is not None else (self.n,)

    @shape.setter
    def shape(self, v):
        self._shape = tuple(v) if not isinstance(v, tuple) else v


class SymRS:
    """uninterpreted random phases: fresh reals in [0,1)"""

    def __init__(self, c):
        self.c = c
        self.draws = []

    def rand(self, *shape):
        out = np.empty(shape, dtype=object)
        for pos in np.ndindex(*shape):
            v = self.c.fresh_var("u", "real")
            self.c.assume((v >= 0) & (v < 1))
            out[pos] = v
        self.draws.append(out)
        return out


def _new(c, it, L=2, shape=None):
    import pyphysim.channels.fading_generators as fg
    Fd, Ts = c.var("Fd", "real"), c.var("Ts", "real")
    c.assume((Fd >= 0) & (Ts > 0))
    c.inputs.update(Fd=Fd, Ts=Ts)
    rs = SymRS(c)
    o = it.call(fg.JakesSampleGenerator, [Fd, Ts, L, shape, rs])
    return o, Fd, Ts, rs


def _spec_sample(c, o_phi, o_psi, Fd, L, t, idx):
    """Jakes model value at time t for the generator's phases; idx = index into the shape dims"""
    re, im = 0, 0
    for l in range(L):
        phi = o_phi[(l,) + idx + (0,)]
        psi = o_psi[(l,) + idx + (0,)]
        ang = 2 * np.pi * Fd * lift(phi).cos() * t + psi
        re = re + lift(ang).cos()
        im = im + lift(ang).sin()
    k = math.sqrt(1.0 / L)
    return k * re, k * im


@obligation("time/generate_time_samples_symbolic_n",
            desc="_generate_time_samples(n) for SYMBOLIC n>=1 (np.arange contract): exactly n samples, t_i = t0 + i*Ts, new "
                 "_current_time = t0 + n*Ts, shape (1,...,1,n) for shapes None/(2,)/(2,3)")
def ob_time_symbolic():
    def body(c, it):
        goals = []
        for shape in (None, 2, (2, 3)):
            o, Fd, Ts, rs = _new(c, it, 2, shape)
            t0 = c.var("t0", "real")
            n = c.var("n", "int")
            c.assume((n >= 1) & (t0 >= 0))
            o.fields["_current_time"] = t0
            it.models[np.arange] = lambda interp, *a, **k: (AffineSeq(a[0]) if len(a) == 1 and isinstance(a[0], sym.SNum)
                                                            else interp.call_real(np.arange, list(a), k))
            t = it.call(it.getattr(o, "_generate_time_samples"), [n])
            ok = isinstance(t, AffineSeq)
            goals.append(Goal("affine time vector shape=%s" % (shape,), ok))
            if not ok:
                continue
            goals.append(Goal("length == n", t.n == n))
            goals.append(Goal("t_i == t0 + i*Ts", (lift(t.a) == Ts) & (lift(t.b) == t0)))
            goals.append(Goal("new time == t0 + n*Ts", it.getattr(o, "_current_time") == t0 + n * Ts))
            nd = 0 if shape is None else (1 if isinstance(shape, int) else len(shape))
            shp = t.shape
            goals.append(Goal("shape (1,)*%d + (n,)" % (nd + 1), len(shp) == nd + 2 and all(x == 1 for x in shp[:-1])
                              and bool(lift(shp[-1]) == n) if not isinstance(shp[-1], int) else False))
        return goals
    return verify(body)


@obligation("samples/generate_more_samples_symbolic_n", params=[{"L": L, "shape": sh} for L, sh in ((1, None), (2, None), (2, 2), (2, (2, 1)))],
            desc="generate_more_samples(n) for SYMBOLIC n >= 1 from any position t0 (time axis abstracted to its generic element, np.arange "
                 "contract): the result holds, per entry of the configured shape, a sequence of length exactly n whose element i (any "
                 "0 <= i < n) equals the Jakes sum-of-sinusoids at t0 + i*Ts for the object's phases; new time t0 + n*Ts; phases untouched")
def ob_samples_symbolic(L, shape):
    def body(c, it):
        o, Fd, Ts, rs = _new(c, it, L, shape)
        t0 = c.var("t0", "real")
        n = c.var("n", "int")
        c.assume((n >= 1) & (t0 >= 0))
        c.inputs.update(t0=t0, n=n)
        o.fields["_current_time"] = t0
        phi, psi = o.fields["_phi_l"], o.fields["_psi_l"]
        it.models[np.arange] = lambda interp, *a, **k: (SymSeq.arange(a[0]) if len(a) == 1 and isinstance(a[0], sym.SNum)
                                                        else interp.call_real(np.arange, list(a), k))
        it.call(it.getattr(o, "generate_more_samples"), [n])
        h = it.call(it.getattr(o, "get_samples"), [])
        shp = () if shape is None else ((shape,) if isinstance(shape, int) else tuple(shape))
        goals = [Goal("result: one sequence per entry of the shape", isinstance(h, np.ndarray) and h.shape == shp + (1,)
                      and all(isinstance(x, SymSeq) for x in h.flat))]
        if not goals[0].cond:
            return goals
        goals.append(Goal("new time == t0 + n*Ts", it.getattr(o, "_current_time") == t0 + n * Ts))
        goals.append(Goal("phases untouched", o.fields["_phi_l"] is phi and o.fields["_psi_l"] is psi))
        i = c.var("i", "int")
        c.assume((i >= 0) & (i < n))
        for idx in np.ndindex(*shp):
            seq = h[idx + (0,)]
            goals.append(Goal("entry %s: length == n" % (idx,), lift(seq.n) == n))
            v = sym.to_complex(seq.f(i))
            re, im = _spec_sample(c, phi, psi, Fd, L, t0 + i * Ts, idx)
            goals.append(Goal("entry %s: element i == Jakes model at t0 + i*Ts" % (idx,), (v.re == re) & (v.im == im)))
        return goals
    return verify(body)


@obligation("time/inductive_invariant",
            desc="inductive step of `_current_time == pos*Ts`: generate(n) (n in {1,2,3}, times checked per sample) and skip(m) "
                 "(symbolic m) advance the position by exactly n resp. m from ANY state")
def ob_inductive():
    def body(c, it):
        goals = []
        for n in (1, 2, 3):
            o, Fd, Ts, rs = _new(c, it, 2, None)
            frame = {"_shape", "_samples", "_Fd", "_Ts", "_L", "_phi_l", "_psi_l", "RS", "_current_time"}
            if set(o.fields) - frame:
                raise Inapplicable("fields %s" % sorted(set(o.fields) - frame))
            pos = c.var("pos%d" % n, "int")
            c.assume(pos >= 0)
            o.fields["_current_time"] = pos * Ts
            t = it.call(it.getattr(o, "_generate_time_samples"), [n])
            ok = isinstance(t, np.ndarray) and t.shape == (1, n)
            goals.append(Goal("n=%d: exactly n time samples" % n, ok))
            if ok:
                goals.append(Goal("n=%d: t_i == (pos+i)*Ts" % n,
                                  sym.SBool(z3.And([(lift(t[0, i]) == (pos + i) * Ts).t for i in range(n)]))))
            goals.append(Goal("n=%d: invariant re-established at pos+n" % n, it.getattr(o, "_current_time") == (pos + n) * Ts))
        o, Fd, Ts, rs = _new(c, it, 2, None)
        pos, m = c.var("pos", "int"), c.var("m", "int")
        c.assume((pos >= 0) & (m >= 0))
        o.fields["_current_time"] = pos * Ts
        it.call(it.getattr(o, "skip_samples_for_next_generation"), [m])
        goals.append(Goal("skip(m): invariant re-established at pos+m", it.getattr(o, "_current_time") == (pos + m) * Ts))
        return goals
    return verify(body)


def _histories():
    ops = [("gen", 1), ("gen", 2), ("skip", None)]
    out = []
    for k in range(0, 4):
        for seq in itertools.product(ops, repeat=k):
            out.append(seq)
    return out


@obligation("history/samples_are_model_at_pos_Ts", params=[{"L": L, "shape": sh} for L, sh in ((1, None), (2, None), (3, None), (2, 2), (2, (2, 1)))],
            timeout=300,
            desc="for every request sequence of length <=3 over {generate(1), generate(2), skip(m)} after construction and an arbitrary "
                 "symbolic head start skip(m0): every sample returned by get_samples() equals the Jakes model at (its position)*Ts with "
                 "the phases drawn at construction; request size and shape as configured; |h|^2 <= L; Fd=0 => equal to the first sample")
def ob_history(L, shape):
    from pyvc.oblig import merge
    return merge([_history_one(L, shape, seq) for seq in _histories()])


def _native_request_history(L, shape, seq, skips, Fd=40.0, Ts=1e-3, seed=5):
    """the request history on a real generator: every block == closed form at (position)*Ts with the generator's own phases, blocks
    handed out earlier keep their values.  skips: the skip counts (head start first).  -> first disagreement or None"""
    import pyphysim.channels.fading_generators as fg
    g = fg.JakesSampleGenerator(Fd, Ts, L, shape, np.random.RandomState(seed))
    phi, psi = g._phi_l.copy(), g._psi_l.copy()
    shp = () if shape is None else ((shape,) if isinstance(shape, int) else tuple(shape))
    skips = list(skips)
    pos = 1
    m0 = skips.pop(0) if skips else 0
    g.skip_samples_for_next_generation(m0)
    pos += m0
    kept = []
    done = ["skip(%d)" % m0]
    for (op, n) in seq:
        if op == "skip":
            m = skips.pop(0) if skips else 3
            g.skip_samples_for_next_generation(m)
            pos += m
            done.append("skip(%d)" % m)
            continue
        g.generate_more_samples(n)
        h = g.get_samples()
        done.append("generate(%d)" % n)
        where = {"confirmed": True, "history": " ".join(done), "L": L, "shape": repr(shape), "Fd": Fd, "Ts": Ts}
        if h.shape != shp + (n,):
            return dict(where, observed_shape=list(h.shape), expected_shape=list(shp + (n,)))
        k = pos + np.arange(n)
        ref = _model(phi, psi, Fd, L, (k * Ts).reshape((1,) * (len(shp) + 1) + (n,)))
        if (not (np.abs(h - ref).max() <= 1e-9)):
            return dict(where, first_position=int(pos), max_abs_error_vs_model=float(np.abs(h - ref).max()))
        for (blk, snap, at) in kept:
            if blk is not h and (blk.shape != snap.shape or not np.array_equal(blk, snap)):
                return dict(where, overwritten_block_from_position=int(at))
        kept.append((h, h.copy(), pos))
        pos += n
    return None


def _replay_request_history(L, shape, seq):
    def rp(model):
        try:
            names = ["m0"] + ["m%d_%s" % (j, ">".join("%s%s" % (a, b or "") for a, b in seq) or "init") for j, (op, n) in enumerate(seq) if op == "skip"]
            from_model = [max(0, int(num(model.get(nm), 0))) for nm in names] if isinstance(model, dict) else []
            for skips in ([from_model] if any(from_model) else []) + [[0] * len(names), [3, 5, 2, 7][:len(names)], [2 ** 20 + 1, 17, 4, 9][:len(names)]]:
                bad = _native_request_history(L, shape, seq, skips)
                if bad:
                    return bad
            return {"confirmed": False, "note": "real generator follows the model along this request history for generic parameters"}
        except Exception as e:
            return {"confirmed": False, "error": "replay crashed: %r" % (e,)}
    return rp


def _history_one(L, shape, seq):
    def body(c, it):
        goals = []
        c.axioms_on = False
        for _ in (0,):
            o, Fd, Ts, rs = _new(c, it, L, shape)
            shp = () if shape is None else ((shape,) if isinstance(shape, int) else tuple(shape))
            phi, psi = 2 * np.pi * rs.draws[0], 2 * np.pi * rs.draws[1]
            pos = 1                                  # the constructor generates one sample
            m0 = c.var("m0", "int")
            c.assume(m0 >= 0)
            c.inputs["m0"] = m0
            it.call(it.getattr(o, "skip_samples_for_next_generation"), [m0])
            pos = pos + m0
            tag = ">".join("%s%s" % (a, b or "") for a, b in seq) or "init"
            kept = []
            # first sample (position 0) from the constructor is checked in the 'init' case with m0 before: check directly
            for j, (op, n) in enumerate(seq):
                if op == "skip":
                    m = c.var("m%d_%s" % (j, tag), "int")
                    c.assume(m >= 0)
                    c.inputs["m%d_%s" % (j, tag)] = m
                    it.call(it.getattr(o, "skip_samples_for_next_generation"), [m])
                    pos = pos + m
                    continue
                it.call(it.getattr(o, "generate_more_samples"), [n])
                h = it.call(it.getattr(o, "get_samples"), [])
                ok = isinstance(h, np.ndarray) and h.shape == shp + (n,)
                goals.append(Goal("[%s] step %d: shape %s" % (tag, j, shp + (n,)), ok))
                if not ok:
                    continue
                conj = []
                for idx in np.ndindex(*shp):
                    for i in range(n):
                        re, im = _spec_sample(c, phi, psi, Fd, L, (pos + i) * Ts, idx)
                        v = sym.to_complex(h[idx + (i,)])
                        conj.append((v.re == re).t)
                        conj.append((v.im == im).t)
                goals.append(Goal("[%s] step %d: samples == model at pos*Ts" % (tag, j), sym.SBool(z3.And(conj))))
                # frame: the blocks handed out by earlier requests are still the arrays they were
                for (blk, items, jj) in kept:
                    goals.append(Goal("[%s] step %d: the block returned at step %d is untouched" % (tag, j, jj),
                                      blk is not h and blk.shape == np.shape(items) and all(a is b for a, b in zip(blk.flat, np.asarray(items, dtype=object).flat))))
                kept.append((h, np.array(h, dtype=object, copy=True), j))
                pos = pos + n
        return goals
    return verify(body, check_side=False, timeout_ms=120000, replay=_replay_request_history(L, shape, seq))


@obligation("lemma/unit_vector_sum_bound_small_L", kind="lemma", params=[{"L": L} for L in (1, 2)],
            desc="pure lemma (no code), z3: c_l^2+s_l^2=1 for l<L  =>  (sum c_l)^2 + (sum s_l)^2 <= L^2")
def ob_lemma(L):
    def body(c, it):
        cs = [c.var("c%d" % l, "real") for l in range(L)]
        ss = [c.var("s%d" % l, "real") for l in range(L)]
        for a, b in zip(cs, ss):
            c.assume(a * a + b * b == 1)
        S, T = sum(cs[1:], cs[0]), sum(ss[1:], ss[0])
        return [Goal("(sum c)^2+(sum s)^2 <= L^2", S * S + T * T <= L * L)]
    return verify(body, timeout_ms=20000)


@obligation("lemma/unit_vector_sum_bound_all_L_lean", kind="lemma", tiers=("thorough",), timeout=2400,
            desc="L-UNIT for every L (Lean 4 + Mathlib, lemmas/UnitVectorSum.lean): |sum of L unit complex numbers| <= L")
def ob_lemma_lean():
    from pyvc.oblig import lean_lemma
    return lean_lemma("UnitVectorSum.lean", 2000)


@obligation("value/bound_and_static", params=[{"L": L} for L in (1, 2, 3, 4, 8)], timeout=300,
            desc="|h| <= sqrt(L) for every sample: h == k*(S + jT) with S,T the sums of the code's own cos/sin terms, then the "
                 "instance S^2+T^2<=L^2 of lemma L-UNIT; and Fd == 0 => all samples of all requests equal")
def ob_bound(L):
    def body(c, it):
        c.axioms_on = False
        o, Fd, Ts, rs = _new(c, it, L, None)
        phi, psi = 2 * np.pi * rs.draws[0], 2 * np.pi * rs.draws[1]
        it.call(it.getattr(o, "generate_more_samples"), [2])
        h = it.call(it.getattr(o, "get_samples"), [])
        goals = []
        k = math.sqrt(1.0 / L)
        for i in range(2):
            v = sym.to_complex(h[i])
            t = (1 + i) * Ts
            S, T = 0, 0
            for l in range(L):
                ang = 2 * np.pi * Fd * lift(phi[l, 0]).cos() * t + psi[l, 0]
                S, T = S + lift(ang).cos(), T + lift(ang).sin()
            Sv, Tv = c.var("S%d" % i, "real"), c.var("T%d" % i, "real")      # names for the two sums
            c.assume((Sv == S) & (Tv == T))
            c.add_fact(Sv * Sv + Tv * Tv <= L * L,
                       "lemma L-UNIT instance (z3 for L<=2: lemma/unit_vector_sum_bound_small_L; all L: Lean, thorough tier)")
            goals.append(Goal("h_%d == k*(sum cos + j sum sin)" % i, (v.re == k * Sv) & (v.im == k * Tv)))
            # the code multiplies by the binary64 value of sqrt(1/L): bound stated with that constant
            c.axioms_on = True
            kk = lift(k)                     # exact rational value of the binary64 constant
            goals.append(Goal("|h_%d|^2 <= (k*L)^2" % i, (kk * Sv) * (kk * Sv) + (kk * Tv) * (kk * Tv) <= (kk * L) * (kk * L)))
        v0, v1 = sym.to_complex(h[0]), sym.to_complex(h[1])
        goals.append(Goal("Fd == 0 => static", sym.SBool(z3.Implies((Fd == 0).t, ((v0.re == v1.re) & (v0.im == v1.im)).t))))
        return goals
    return verify(body, check_side=False, timeout_ms=60000)


@obligation("shape/redraw_only_on_shape_change",
            desc="frame: generate/skip never touch the phases; the shape setter redraws phases with L x shape x 1 entries")
def ob_shape():
    def body(c, it):
        o, Fd, Ts, rs = _new(c, it, 2, None)
        p0, q0 = o.fields["_phi_l"], o.fields["_psi_l"]
        it.call(it.getattr(o, "generate_more_samples"), [3])
        it.call(it.getattr(o, "skip_samples_for_next_generation"), [5])
        goals = [Goal("phases untouched by generate/skip", o.fields["_phi_l"] is p0 and o.fields["_psi_l"] is q0)]
        it.setattr(o, "shape", (2, 3))
        goals.append(Goal("shape setter redraws phases of shape (L,2,3,1)", o.fields["_phi_l"].shape == (2, 2, 3, 1)
                          and o.fields["_psi_l"].shape == (2, 2, 3, 1) and o.fields["_phi_l"] is not p0))
        it.call(it.getattr(o, "generate_more_samples"), [4])
        h = it.call(it.getattr(o, "get_samples"), [])
        goals.append(Goal("samples have the new shape + (n,)", h.shape == (2, 3, 4)))
        # every sequence of re-configurations of a RUNNING generator, back to "no shape" included: the next request has the configured shape
        for new_shape, want_phase, want_out in ((None, (2, 1), (5,)), (3, (2, 3, 1), (3, 5)), (None, (2, 1), (5,)), ((1, 2), (2, 1, 2, 1), (1, 2, 5)),
                                                (None, (2, 1), (5,)), (None, (2, 1), (5,))):
            it.setattr(o, "shape", new_shape)
            it.call(it.getattr(o, "generate_more_samples"), [5])
            h = it.call(it.getattr(o, "get_samples"), [])
            goals.append(Goal("shape = %r on the running generator: phases %r, samples %r" % (new_shape, want_phase, want_out),
                              np.shape(o.fields["_phi_l"]) == want_phase and np.shape(o.fields["_psi_l"]) == want_phase and np.shape(h) == want_out))
        return goals
    return verify(body, check_side=False)


# ------------------------------------------------------------------ bounded / float
def _model(phi, psi, Fd, L, t):
    return math.sqrt(1.0 / L) * np.sum(np.exp(1j * (2 * np.pi * Fd * np.cos(phi) * t + psi)), axis=0)


LONG_REQUESTS = [2 ** 12 + 1, 2 ** 15 - 1, 2 ** 16, 2 ** 16 + 1, 100000, 2 ** 17 - 3, 3 * 2 ** 16 + 5, 2 ** 18 + 1]


@obligation("float/long_histories", kind="bounded", timeout=600,
            desc="binary64: random histories of generate(n<=1e5, plus long requests around powers of two up to 2^18)/skip requests up to positions 1e10, Ts 1e-9..1, shapes None/int/tuple: "
                 "every request returns exactly n samples of the configured shape (never raises); sample k equals the closed form at "
                 "k*Ts within phase tolerance 2*pi*Fd*Ts*k*1e-9 + 1e-9; |h|<=sqrt(L)(1+1e-12); chunked == one-shot; Fd=0 static")
def ob_float():
    import pyphysim.channels.fading_generators as fg
    r = stable_rng("C14float")

    def gen():
        N = 60 if quick() else 600
        for i in range(N):
            case = {"seed": int(r.randint(1 << 30)), "Ts": float(10 ** r.uniform(-9, 0)), "Fd": float(r.choice([0.0, 5.0, 100.0, 10 ** r.uniform(0, 3)])),
                    "L": int(r.choice([1, 4, 8, 16])), "shape": [None, 3, (2, 2)][i % 3], "big": bool(i % 2),
                    "long": LONG_REQUESTS[i // 7 % len(LONG_REQUESTS)] if i % 7 == 0 else None}
            if case["long"] is not None:          # long requests: few rays, scalar shape (memory L x shape x n)
                case["L"], case["shape"] = int(r.choice([1, 2])), None
            yield case

    def check(case):
        rr = np.random.RandomState(case["seed"])
        Ts, Fd, L, shape = case["Ts"], case["Fd"], case["L"], case["shape"]
        Fd = min(Fd, 0.1 / Ts)          # keep Fd*Ts in the sampled-process regime
        g = fg.JakesSampleGenerator(Fd, Ts, L, shape, np.random.RandomState(case["seed"]))
        phi, psi = g._phi_l.copy(), g._psi_l.copy()
        shp = () if shape is None else ((shape,) if isinstance(shape, int) else tuple(shape))
        pos = 1
        held = []
        first = g.get_samples()
        if first.shape != shp + (1,):
            return {"constructor sample shape": list(first.shape)}
        for step in range(8):
            if (not (rr.rand() >= 0.5)):
                m = int(10 ** rr.uniform(0, 9.5 if case["big"] else 4))
                g.skip_samples_for_next_generation(m)
                pos += m
            if (not (rr.rand() >= 0.3)):
                g.skip_samples_for_next_generation(7)
                g.skip_samples_for_next_generation(11)
                pos += 18
            n = int(10 ** rr.uniform(0, 5 if step == 0 and not quick() else 3))
            if step == 1 and case.get("long") is not None:
                n = case["long"]          # long requests: sizes around powers of two and the documented 1e5
            try:
                g.generate_more_samples(n)
            except Exception as e:
                return {"generate raised": repr(e), "pos": pos, "n": n}
            h = g.get_samples()
            if h.shape != shp + (n,):
                return {"shape": list(h.shape), "expected": list(shp + (n,)), "pos": pos}
            # frame: blocks handed out earlier keep their values (a caller assembling a stretch from blocks does not copy them)
            for (blk, snap, at) in held:
                if blk is h:
                    continue
                if blk.shape != snap.shape or not np.array_equal(blk, snap):
                    return {"a block returned earlier was overwritten by a later request": {"block_from_position": int(at), "request": n}}
            if n <= 4096:
                held.append((h, h.copy(), pos))
            k = pos + np.arange(n)
            ref = _model(phi, psi, Fd, L, (k * Ts).reshape((1,) * (len(shp) + 1) + (n,)))
            tol = 2 * np.pi * Fd * Ts * float(k[-1]) * 1e-9 * math.sqrt(L) + 1e-9
            if (not (np.abs(h - ref).max() <= tol)):
                return {"sample mismatch": float(np.abs(h - ref).max()), "tol": tol, "pos": int(pos), "n": n}
            if (not (np.abs(h).max() <= math.sqrt(L) * (1 + 1e-12))):
                return {"|h|": float(np.abs(h).max()), "sqrt(L)": math.sqrt(L)}
            if Fd == 0 and (not (np.abs(h - first[..., :1]).max() <= 1e-12)):
                return {"Fd=0 not static": float(np.abs(h - first[..., :1]).max())}
            pos += n
        # two consecutive requests of the same size: the first block must survive the second
        g.generate_more_samples(6)
        b1 = g.get_samples()
        s1 = b1.copy()
        g.generate_more_samples(6)
        b2 = g.get_samples()
        if not np.array_equal(b1, s1):
            return {"equal-sized consecutive requests: the first block was overwritten": True}
        kk = pos + 6 + np.arange(6)
        ref2 = _model(phi, psi, Fd, L, (kk * Ts).reshape((1,) * (len(shp) + 1) + (6,)))
        if (not (np.abs(b2 - ref2).max() <= 2 * np.pi * Fd * Ts * float(kk[-1]) * 1e-9 * math.sqrt(L) + 1e-9)):
            return {"second of two equal-sized requests": float(np.abs(b2 - ref2).max())}
        # chunked vs one-shot from identical phases
        a = fg.JakesSampleGenerator(Fd, Ts, L, shape, np.random.RandomState(case["seed"]))
        b = fg.JakesSampleGenerator(Fd, Ts, L, shape, np.random.RandomState(case["seed"]))
        a.generate_more_samples(50)
        one = a.get_samples()
        parts = []
        for n in (7, 1, 30, 12):
            b.generate_more_samples(n)
            parts.append(b.get_samples())           # kept WITHOUT copying, as a caller would
        ch = np.concatenate(parts, axis=-1)
        if (not (np.abs(one - ch).max() <= 1e-9)):
            return {"chunked != one-shot": float(np.abs(one - ch).max())}
        # generators are independent objects, also when one was obtained by copying another (copy.copy / copy.deepcopy, as the channel
        # classes do): re-shaping one (new phases) and then drawing equal-sized blocks from both gives each its OWN model samples
        import copy
        for how in (copy.copy, copy.deepcopy):
            g1 = fg.JakesSampleGenerator(Fd, Ts, L, shape, np.random.RandomState(case["seed"] + 5))
            g1.generate_more_samples(16)
            g2 = how(g1)
            g2.shape = (2,) if shape is None or isinstance(shape, tuple) else 3
            shp2 = tuple(g2.shape)
            for _ in range(2):
                for gg, sh in ((g1, shp), (g2, shp2)):
                    p0 = int(round(gg._current_time / Ts)) if Ts > 0 else 0
                    try:
                        gg.generate_more_samples(16)
                    except Exception as e:
                        return {"copied generators: generate raised": repr(e)[:200], "copied with": how.__name__}
                    hh = gg.get_samples()
                    if hh.shape != sh + (16,):
                        return {"copied generators: shape": list(hh.shape), "expected": list(sh + (16,)), "copied with": how.__name__}
                    kk = p0 + np.arange(16)
                    rf = _model(gg._phi_l, gg._psi_l, Fd, L, (kk * Ts).reshape((1,) * (len(sh) + 1) + (16,)))
                    if (not (np.abs(hh - rf).max() <= 2 * np.pi * Fd * Ts * float(kk[-1]) * 1e-9 * math.sqrt(L) + 1e-9)):
                        return {"copied generators disturb each other": float(np.abs(hh - rf).max()), "copied with": how.__name__,
                                "which": "original" if gg is g1 else "copy"}
        # re-configuring a running generator (int / tuple / back to None): every later request has the configured shape and the model values
        gs = fg.JakesSampleGenerator(Fd, Ts, L, None, np.random.RandomState(case["seed"] + 7))
        gs.generate_more_samples(4)
        for new_shape in (2, None, (2, 2), None, None, 3):
            gs.shape = new_shape
            shn = () if new_shape is None else ((new_shape,) if isinstance(new_shape, int) else tuple(new_shape))
            p0 = int(round(gs._current_time / Ts)) if Ts > 0 else 0
            try:
                gs.generate_more_samples(6)
            except Exception as e:
                return {"after shape = %r: generate raised" % (new_shape,): repr(e)[:200]}
            hh = gs.get_samples()
            if hh.shape != shn + (6,):
                return {"after shape = %r: sample shape" % (new_shape,): list(hh.shape), "expected": list(shn + (6,))}
            kk = p0 + np.arange(6)
            rf = _model(gs._phi_l, gs._psi_l, Fd, L, (kk * Ts).reshape((1,) * (len(shn) + 1) + (6,)))
            if (not (np.abs(hh - rf).max() <= 2 * np.pi * Fd * Ts * float(kk[-1]) * 1e-9 * math.sqrt(L) + 1e-9)):
                return {"after shape = %r: samples differ from the model" % (new_shape,): float(np.abs(hh - rf).max())}
        # request and skip sizes are numbers: numpy integer scalars of any width (block lengths read from an integer array) count like ints
        ga = fg.JakesSampleGenerator(Fd, Ts, L, None, np.random.RandomState(case["seed"] + 9))
        gb = fg.JakesSampleGenerator(Fd, Ts, L, None, np.random.RandomState(case["seed"] + 9))
        for sk, dt in ((200, np.uint8), (100, np.uint8), (30000, np.int16), (30000, np.int16), (70000, np.int32), (5, np.int64), (250, np.uint16)):
            ga.skip_samples_for_next_generation(dt(sk))
            gb.skip_samples_for_next_generation(int(sk))
            ga.generate_more_samples(dt(9))
            gb.generate_more_samples(9)
            xa, xb = ga.get_samples(), gb.get_samples()
            if xa.shape != xb.shape or (not (np.abs(xa - xb).max() <= 1e-9)):
                return {"sizes given as numpy integer scalars change the samples": np.dtype(dt).name, "skip": sk,
                        "difference": float(np.abs(xa - xb).max()) if xa.shape == xb.shape else "shape"}
        return None
    return bounded(gen(), check)


@obligation("float/function_form", kind="bounded",
            desc="generate_jakes_samples (function form): NSamples samples, new time = t0 + N*Ts (rel 1e-12), values = closed form")
def ob_function():
    import pyphysim.channels.fading_generators as fg
    r = stable_rng("C14fn")

    def gen():
        for i in range(40 if quick() else 400):
            yield {"Ts": float(10 ** r.uniform(-9, 0)), "N": int(10 ** r.uniform(0, 3.5)), "t0": float(10 ** r.uniform(-3, 6) * (i % 3 != 0)),
                   "L": int(r.choice([1, 8])), "seed": int(r.randint(1 << 30))}

    def check(case):
        rr = np.random.RandomState(case["seed"])
        L, N, Ts, t0 = case["L"], case["N"], case["Ts"], case["t0"]
        Fd = min(50.0, 0.1 / Ts)
        phi, psi = 2 * np.pi * rr.rand(L, 1), 2 * np.pi * rr.rand(L, 1)
        try:
            t1, h = fg.generate_jakes_samples(Fd, Ts, N, L, None, t0, phi, psi)
        except Exception as e:
            return {"raised": repr(e)}
        if h.shape != (N,):
            return {"shape": list(h.shape), "N": N}
        if (not (abs(t1 - (t0 + N * Ts)) <= 1e-9 * (t0 + N * Ts))):
            return {"new time": t1, "expected": t0 + N * Ts}
        ref = _model(phi, psi, Fd, L, t0 + np.arange(N) * Ts)
        if (not (np.abs(h - ref).max() <= 1e-6)):
            return {"values": float(np.abs(h - ref).max())}
        return None
    return bounded(gen(), check)
