"""C07  A simulation stopped at any point resumes without losing or double-counting work.

Functions under contract: SimulationResults._save_to_pickle/_save_to_json (crash Hoare logic over a ghost file system),
SimulationRunner._simulate_for_current_params_common (resume arithmetic, oracle hooks as in C05),
SimulationResultsSaver.load_partial_results/save_partial_results(_maybe)/_get_partial_results_filename,
get_partial_results_filename, SimulationParameters.__eq__.
"""
import os
import sys

import numpy as np
import z3

from pyvc import sym
from pyvc.sym import lift
from pyvc.interp import PyRaise, EngineError
from pyvc.oblig import obligation, verify, bounded, exhaustive, Goal, merge
from .common import stable_rng, quick
from .C05 import NATIVE, _fld

LEVEL = "proof"
EXPLANATION = ("(1) Crash Hoare logic: _save_to_pickle/_save_to_json are symbolically executed over a ghost file system whose "
               "effect models are: open(f,'w'/'wb') creates/truncates f and makes it 'being written', write/dump append (content is a "
               "strict prefix until close), leaving the with-block closes the file, os.replace is atomic.  Crash invariant checked "
               "after EVERY effect: the target file is absent, or holds a complete old version, or a complete new version - never a "
               "partial one - so a restart can always load it.  (2) Resume arithmetic: the real repetition loop is symbolically "
               "executed with load_partial_results returning an arbitrary saved state (symbolic value, c0 repetitions): exactly "
               "rep_max - c0 new successful repetitions are executed, every one counted once, result = saved + new; what "
               "save_partial_results is handed is (current view, current repetition count).  (3) Refusal: load_partial_results raises "
               "ValueError iff the stored parameters differ (ignoring rep_max), a missing file gives None, other errors are not "
               "swallowed.  (4) Bounded: real processes killed inside every write call of a small simulation and restarted.")
ASSUMPTIONS = [
    "ghost file-system model: POSIX rename atomicity for os.replace; truncation on open('w'); content complete only after close; "
    "OS-level durability of write without fsync is outside any contract (page cache)",
    "resume arithmetic bounded in rep_max (3) like C05; the 500-repetition save period is exercised only in the bounded kill/restart runs",
    "pickle / json round trip of the results object itself is property C17",
]
TRUSTED_BASE = ["effect models of open/write/pickle.dump/os.replace listed above"]
BOUNDS = {"rep_max_symbolic": 3, "kill_restart": "rep_max in {3, 501} x every write call index x pickle/json final file (quick: first 12 write calls)"}


# ------------------------------------------------------------------ ghost file system
class GhostFS:
    def __init__(self):
        self.files = {}          # name -> ("complete", version) | ("partial", version)
        self.log = []            # effects
        self.violations = []

    def check(self, target, what):
        st = self.files.get(target)
        ok = st is None or st[0] == "complete"
        self.log.append((what, dict(self.files)))
        if not ok:
            self.violations.append("after %s the target %r is %s" % (what, target, st))


class GhostFile:
    def __init__(self, fs, name, mode, target):
        self.fs, self.name, self.mode, self.target = fs, name, mode, target
        self.closed = False

    def __enter__(self):
        return self

    def write(self, data):
        self.fs.files[self.name] = ("partial", "new")
        self.fs.check(self.target, "write(%s)" % self.name)

    def __exit__(self, *a):
        self.closed = True
        if self.fs.files.get(self.name, ("", ""))[0] == "partial" or self.name in self.fs.files:
            if self.name in self.fs.files:
                self.fs.files[self.name] = ("complete", "new")
            self.fs.check(self.target, "close(%s)" % self.name)
        return False


def _fs_models(it, fs, target):
    import builtins
    import pickle
    open_files = []

    def m_open(interp, name, mode="r", *a, **k):
        if "x" in mode:
            # exclusive creation: fails when anything - also a leftover of an interrupted run - is already there
            if name in fs.files:
                raise PyRaise(FileExistsError(17, "File exists", name))
        elif "w" not in mode:
            raise EngineError("ghost fs: only writing is modelled")
        fs.files[name] = ("partial", "new")          # created / truncated
        fs.check(target, "open(%s,%r)" % (name, mode))
        f = GhostFile(fs, name, mode, target)
        open_files.append(f)
        return f

    def m_dump(interp, obj, f, *a, **k):
        f.write(b"...")

    def m_replace(interp, src, dst):
        if src not in fs.files:
            raise PyRaise(FileNotFoundError(src))
        st = fs.files.pop(src)
        # renaming a file that is still open moves whatever has reached it so far; its content is
        # complete only once it has been closed
        still_open = any(f.name == src and not f.closed for f in open_files)
        fs.files[dst] = ("partial", "new") if still_open else st
        for f in open_files:
            if f.name == src:
                f.name = dst
        fs.check(target, "os.replace(%s,%s)" % (src, dst))
    it.models[builtins.open] = m_open
    it.models[pickle.dump] = m_dump
    it.models[os.replace] = m_replace
    it.models[os.rename] = m_replace


@obligation("save/crash_invariant", params=[{"fmt": f, "existing": e, "leftover": lo} for f in ("pickle", "json") for e in (False, True)
                                            for lo in (False, True)],
            desc="_save_to_pickle / _save_to_json over the ghost file system, target absent or holding an older complete version, with or "
                 "without LEFTOVERS of an interrupted earlier save (any other file in the directory in a partial state, e.g. a stale "
                 "temporary): the save succeeds, after EVERY effect (open, each write/dump, close, replace) the target is absent or "
                 "complete; at the end it is the complete new version")
def ob_crash(fmt, existing, leftover=False):
    def body(c, it):
        from pyphysim.simulations.results import SimulationResults
        fs = GhostFS()
        target = "partial_results/res_unpack_0." + fmt
        if existing:
            fs.files[target] = ("complete", "old")
        if leftover:
            # whatever an interrupted earlier save of the same target may have left behind: the conventional temporary names
            for nm in (target + ".tmp", target + ".part", target + "~", target + ".new"):
                fs.files[nm] = ("partial", "stale")
        _fs_models(it, fs, target)
        res = SimulationResults()
        # to_json is the serialisation (C17): here only the order of file-system effects matters
        it.models["pyphysim.util.serialize:JsonSerializable.to_json"] = lambda interp, self: "{...}"
        meth = "_save_to_pickle" if fmt == "pickle" else "_save_to_json"
        it.call(it.getattr(res, meth), [target])
        goals = [Goal("crash invariant held after every effect: %s" % (fs.violations[:2],), not fs.violations),
                 Goal("target finally holds the complete new version", fs.files.get(target) == ("complete", "new")),
                 Goal("at least open, write, close, publish effects happened", len(fs.log) >= 3)]
        return goals
    return verify(body, check_side=False)


# ------------------------------------------------------------------ resume arithmetic
def _make_resuming_runner(c, rep_max, c0, max_skips, saved_log):
    from pyphysim.simulations.runner import SimulationRunner, SkipThisOne
    from pyphysim.simulations.results import SimulationResults, Result

    class R(SimulationRunner):
        def __init__(self):
            super().__init__(read_command_line_args=False)
            self.rep_max = rep_max
            self.params.add("a", [1, 2])
            self.params.set_unpack_parameter("a")
            self.update_progress_function_style = None
            self.trace = []
            self.skips = 0

        def _run_simulation(self, p):
            if self.skips < max_skips and bool(c.fresh_var("skip", "bool")):
                self.skips += 1
                self.trace.append("skip")
                raise SkipThisOne("oracle")
            x = c.fresh_var("x", "real")
            self.trace.append(x)
            res = SimulationResults()
            res.add_new_result("v", Result.SUMTYPE, x)
            return res
    r = R()
    v0 = c.var("v0", "real")
    saver = r._simulation_results_saver

    def load(current_params):
        if c0 is None:
            return None
        s = SimulationResults()
        s.set_parameters(current_params)
        rr = Result("v", Result.SUMTYPE)
        rr._value = v0
        rr.num_updates = c0
        s.add_result(rr)
        s.current_rep = c0
        return s

    def save(current_rep, current_params, current_sim_results):
        saved_log.append((current_rep, _fld(_fld(current_sim_results, "_results")["v"][-1], "_value"), len([t for t in r.trace if not isinstance(t, str)])))
        return "file"
    saver.load_partial_results = load
    saver.save_partial_results = save
    return r, v0


@obligation("resume/arithmetic", params=[{"rep_max": 3, "c0": k} for k in (None, 0, 1, 2, 3, 5)], timeout=600,
            desc="repetition loop resumed from a saved state (value v0, c0 repetitions; None = no file): exactly max(0, rep_max - c0) new "
                 "successful repetitions (>=1 when starting from scratch), final count max(c0, rep_max), result == v0 + sum(new), each counted "
                 "once, skips never counted; the state handed to save_partial_results is (current count, current view)")
def ob_resume(rep_max, c0):
    def body(c, it):
        it.native_prefixes = list(NATIVE)
        saved = []
        r, v0 = _make_resuming_runner(c, rep_max, c0, 2, saved)
        r._simulate_common_setup()
        plist = r.params.get_unpacked_params_list()
        out = it.call(it.getattr(r, "_simulate_for_current_params_serial"), [plist[0]])
        current_rep, results = out[0], out[1]
        succ = [t for t in r.trace if not isinstance(t, str)]
        start = 0 if c0 is None else c0
        expect_new = max(rep_max - start, 0) if c0 is not None else rep_max
        goals = [Goal("new successful repetitions == rep_max - c0", len(succ) == expect_new),
                 Goal("final repetition count", current_rep == max(start, rep_max))]
        tot = (v0 if c0 is not None else 0)
        for x in succ:
            tot = tot + x
        val = _fld(_fld(results, "_results")["v"][-1], "_value")
        goals.append(Goal("result == saved + new repetitions (each once)", lift(val) == lift(tot)))
        goals.append(Goal("final state was handed to save_partial_results", len(saved) >= 1 and saved[-1][0] == current_rep))
        if saved:
            goals.append(Goal("saved view is the final view", lift(saved[-1][1]) == lift(tot)))
        return goals
    return verify(body, check_side=False, timeout_ms=20000)


@obligation("restart/same_object_after_an_interruption", params=[{"at": a} for a in (1, 2, 3)], timeout=600,
            desc="history (shared with C05): simulate() interrupted by an exception from the a-th execution of the user's iteration, then "
                 "simulate() again on the SAME runner object: every combination ends with exactly rep_max repetitions, each counted once "
                 "- nothing of the interrupted run is kept in memory and counted twice")
def ob_restart_same(at):
    from . import C05 as c05
    return c05.ob_restart_same_object(at)


@obligation("resume/loop_inductive_step_and_periodic_save", timeout=300,
            desc="(shared with C05) inductive step of the repetition loop for a symbolic rep_max from an arbitrary saved state: counts and "
                 "merged value advance together, and the state offered to the periodic save has count == merged repetitions - so a file "
                 "written at any repetition boundary resumes without losing or double-counting a repetition")
def ob_loop_shared():
    from . import C05 as c05
    return c05.ob_loop_inductive("guard_and_body")


@obligation("interrupt/at_any_statement_of_an_iteration", params=[{"iteration": "success"}, {"iteration": "skipped"}], timeout=600,
            desc="asynchronous interruption: from an arbitrary loop-head state (count c, merged value v, symbolic rep_max) one iteration of "
                 "the repetition loop is executed with KeyboardInterrupt raised before the j-th interpreted statement, for EVERY j (statements "
                 "of the loop body and of everything it calls: merge_all_results, Result.merge, the skip branch, the periodic save hook): "
                 "the interrupt escapes, and every state that is handed to save_partial_results / save_partial_results_maybe on the way out "
                 "is consistent - its repetition count equals the number of repetitions merged into it - so a file written while leaving can "
                 "never make the restart double-count or lose a repetition")
def ob_interrupt_any_statement(iteration):
    import ast
    from . import C05 as c05

    def mk_runner(c, saved):
        from pyphysim.simulations.runner import SimulationRunner, SkipThisOne
        from pyphysim.simulations.results import SimulationResults, Result

        class R_(SimulationRunner):
            def __init__(self):
                super().__init__(read_command_line_args=False)
                self.rep_max = 7
                self.params.add("a", [1, 2])
                self.params.set_unpack_parameter("a")
                self.update_progress_function_style = None
                self.trace = []

            def _run_simulation(self, p):
                if iteration == "skipped":
                    self.trace.append("skip")
                    raise SkipThisOne("this repetition is skipped")
                x = c.fresh_var("x", "real")
                self.trace.append(x)
                res = SimulationResults()
                res.add_new_result("v", Result.SUMTYPE, x)
                return res
        return R_(), c.var("v0", "real")

    def body(c, it):
        it.native_prefixes = list(NATIVE)
        R = c.var("rep_max", "int")
        c0 = c.var("count", "int")
        c.assume((R >= 1) & (c0 >= 0) & (c0 < R))
        c.inputs.update(rep_max=R, count=c0)
        goals = []
        fn = it.ifunc_from_spec("pyphysim.simulations.runner:SimulationRunner._simulate_for_current_params_common")
        loops = [n for n in ast.walk(fn.node) if isinstance(n, ast.While) and "rep_max" in ast.unparse(n.test)]
        if len(loops) != 1:
            return [Goal("the repetition loop (one while loop guarded by rep_max) is found", False)]
        j = 0
        fired_any = False
        while j < 400:
            saved = []
            r, v0 = mk_runner(c, saved)
            r._simulate_common_setup()
            plist = r.params.get_unpacked_params_list()
            r.rep_max = R
            from pyphysim.simulations.results import SimulationResults, Result
            saver = r._simulation_results_saver

            def load(current_params, v0=v0):
                s_ = SimulationResults()
                s_.set_parameters(current_params)
                rr = Result("v", Result.SUMTYPE)
                rr._value = v0
                rr.num_updates = c0
                s_.add_result(rr)
                s_.current_rep = c0
                return s_
            saver.load_partial_results = load
            handed = []

            def record(current_rep, current_params, current_sim_results, handed=handed):
                d = _fld(current_sim_results, "_results")
                handed.append((current_rep, _fld(d["v"][-1], "num_updates")))
                return "file"
            saver.save_partial_results_maybe = record
            saver.save_partial_results = record
            r._keep_going = lambda p, res, rep: True
            st = {"in_body": False, "n": 0, "fired": False}

            def loop_hook(interp, s_, frame, st=st):
                if not interp.truth(interp.eval(s_.test, frame)):
                    return
                st["in_body"] = True
                try:
                    interp.exec_block(s_.body, frame)
                finally:
                    st["in_body"] = False
                raise c05._OneIteration()

            def stmt_hook(interp, s_, frame, st=st, j=j):
                if st["in_body"] and not st["fired"]:
                    if st["n"] == j:
                        st["fired"] = True
                        raise PyRaise(KeyboardInterrupt())
                    st["n"] += 1
            it.loop_hooks[id(loops[0])] = loop_hook
            it.stmt_hook = stmt_hook
            escaped = None
            try:
                it.call(it.getattr(r, "_simulate_for_current_params_serial"), [plist[0]])
            except c05._OneIteration:
                pass
            except PyRaise as pr:
                escaped = pr.exc
            finally:
                it.stmt_hook = None
            if not st["fired"]:
                break              # the iteration has fewer than j statements: all interrupt points are covered
            fired_any = True
            goals.append(Goal("interrupt before statement %d of the iteration: KeyboardInterrupt escapes" % j, isinstance(escaped, KeyboardInterrupt)))
            for (rep, nup) in handed:
                goals.append(Goal("interrupt before statement %d: a state handed to the saver has count == merged repetitions" % j,
                                  lift(rep) == lift(nup)))
            j += 1
        goals.append(Goal("at least 5 interrupt points were exercised (got %d)" % j, fired_any and j >= 5))
        return goals

    def replay(mv):
        # native: sys.settrace raises KeyboardInterrupt at every line event of one iteration of the real loop; then the restart
        import sys
        import tempfile
        import os as _os
        from pyphysim.simulations.runner import SimulationRunner
        from pyphysim.simulations.results import SimulationResults, Result
        import pyphysim.simulations.runner as rmod
        import pyphysim.simulations.results as resmod
        files = {_os.path.realpath(rmod.__file__), _os.path.realpath(resmod.__file__)}

        class Rn(SimulationRunner):
            def __init__(self, d):
                super().__init__(read_command_line_args=False)
                self.rep_max = 4
                self.params.add("a", [1])
                self.params.set_unpack_parameter("a")
                self.update_progress_function_style = None
                self.set_results_filename(_os.path.join(d, "res"))
                self.calls = 0

            def _run_simulation(self, p):
                self.calls += 1
                s_ = SimulationResults()
                s_.add_new_result("v", Result.SUMTYPE, 1)
                return s_
        try:
            bad = None
            for at in range(1, 400):
                with tempfile.TemporaryDirectory() as d:
                    cwd = _os.getcwd()
                    _os.chdir(d)
                    try:
                        r1 = Rn(d)
                        cnt = {"n": 0, "done": False}

                        def tracer(frame, event, arg):
                            if _os.path.realpath(frame.f_code.co_filename) not in files:
                                return None

                            def local(frame, event, arg):
                                if event == "line" and r1.calls >= 1 and not cnt["done"]:
                                    cnt["n"] += 1
                                    if cnt["n"] == at:
                                        cnt["done"] = True
                                        raise KeyboardInterrupt()
                                return local
                            return local
                        sys.settrace(tracer)
                        try:
                            r1.simulate()
                            interrupted = False
                        except KeyboardInterrupt:
                            interrupted = True
                        finally:
                            sys.settrace(None)
                        if not interrupted:
                            break
                        r2 = Rn(d)
                        r2.simulate()
                        v = r2.results["v"][0]
                        if r2.runned_reps != [4] or v.get_result() != 4 or v.num_updates != 4:
                            bad = {"interrupted at traced line event": at, "after restart runned_reps": r2.runned_reps,
                                   "merged value": v.get_result(), "updates": v.num_updates, "expected": "4 repetitions, each counted once"}
                            break
                    finally:
                        _os.chdir(cwd)
            if bad:
                return dict(bad, confirmed=True)
            return {"confirmed": False, "note": "real runner: an interrupt at every traced line of the loop resumes to exactly rep_max"}
        except Exception as e:
            return {"confirmed": False, "error": "replay crashed: %r" % (e,)}
    return verify(body, check_side=False, timeout_ms=20000, replay=replay if iteration == "success" else None)


# ------------------------------------------------------------------ refusal
def _refusal_replay(model):
    """the same cases on the real classes (load_from_file replaced by a stub handing out the stored object)"""
    from unittest import mock
    from pyphysim.simulations.runner import SimulationResultsSaver
    from pyphysim.simulations.results import SimulationResults
    from pyphysim.simulations.parameters import SimulationParameters
    try:
        def mk(d, unpack="SNR"):
            p = SimulationParameters.create(d)
            p.set_unpack_parameter(unpack)
            return p.get_unpacked_params_list()
        base = {"SNR": np.array([0, 5, 10]), "M": 4, "rep_max": 100, "taps": np.array([1.0, 0.5, 0.25])}
        cases = [("same", mk(base)[1], mk(base)[1], "ok"), ("only rep_max differs", mk(dict(base, rep_max=7))[1], mk(base)[1], "ok"),
                 ("fixed value differs", mk(dict(base, M=16))[1], mk(base)[1], "ValueError"),
                 ("other grid values", mk(dict(base, SNR=np.array([0, 6, 10])))[1], mk(base)[1], "ValueError"),
                 ("fixed array parameter of another length", mk(dict(base, taps=np.array([1.0, 0.5])))[1], mk(base)[1], "ValueError"),
                 ("fixed array parameter with another entry", mk(dict(base, taps=np.array([1.0, 0.5, 0.125])))[1], mk(base)[1], "ValueError")]
        cases += [("tiny fixed float differs (noise power 1e-9 vs 4e-9)", mk(dict(base, nv=4e-9))[1], mk(dict(base, nv=1e-9))[1], "ValueError"),
                  ("fixed float differs by 1e-5 relative (carrier 2.4e9 vs 2.40002e9)", mk(dict(base, fc=2.40002e9))[1], mk(dict(base, fc=2.4e9))[1], "ValueError"),
                  ("fixed float differs in the last bit", mk(dict(base, g=float(np.nextafter(0.3, 1))))[1], mk(dict(base, g=0.3))[1], "ValueError"),
                  ("float array entry differs in the last bit", mk(dict(base, taps=np.array([1.0, 0.5, float(np.nextafter(0.25, 1))])))[1], mk(base)[1], "ValueError"),
                  ("float grid differs by 1e-9 at this index", mk(dict(base, SNR=np.array([0.0, 5.0 + 1e-9, 10.0])))[1],
                   mk(dict(base, SNR=np.array([0.0, 5.0, 10.0])))[1], "ValueError")]
        rm = "rep_max"
        for nm in sorted({rm[i:j] for i in range(len(rm)) for j in range(i + 1, len(rm) + 1)} - {rm}) + ["rep_max_", "xrep_max", "REP_MAX", "repmax"]:
            b2 = dict(base)
            b2[nm] = 1.5
            cases.append(("parameter named %r differs" % nm, mk(dict(b2, **{nm: 2.5}))[1], mk(b2)[1], "ValueError"))
        for label, stored, now, want in cases:
            sv = SimulationResultsSaver()
            sv.set_results_filename("res")
            sv.results.set_parameters(now._original_sim_params)
            st = SimulationResults()
            st.set_parameters(stored)
            st.current_rep = 3
            with mock.patch.object(SimulationResults, "load_from_file", staticmethod(lambda fn, st=st: st)):
                try:
                    got = sv.load_partial_results(now)
                    outcome = "ok" if got is st else "returned %r" % (got,)
                except ValueError:
                    outcome = "ValueError"
            if outcome != want:
                return {"confirmed": True, "case": label, "load_partial_results": outcome, "expected": want}
        return {"confirmed": False, "note": "real classes accept/refuse every listed case as specified"}
    except Exception as e:
        return {"confirmed": False, "error": "replay crashed: %r" % (e,)}


@obligation("load/refuses_other_parameters",
            desc="load_partial_results: stored parameters equal (also when only rep_max differs - and only a parameter named exactly rep_max; 30 look-alike names are compared like any other) -> the stored results; different value / "
                 "different unpack index / different keys / array parameters of another length or entry -> ValueError (not "
                 "swallowed); every load on one saver object is checked, not only the first; missing file (IOError) -> None; no filename -> None")
def ob_refusal():
    def body(c, it):
        from pyphysim.simulations.runner import SimulationResultsSaver
        from pyphysim.simulations.results import SimulationResults
        from pyphysim.simulations.parameters import SimulationParameters
        it.native_prefixes = ["pyphysim.simulations.parameters:SimulationParameters.create", "pyphysim.simulations.parameters:SimulationParameters._create",
                              "pyphysim.simulations.parameters:SimulationParameters.get_unpacked_params_list",
                              "pyphysim.simulations.parameters:SimulationParameters.set_unpack_parameter",
                              "pyphysim.simulations.parameters:SimulationParameters.add"]
        goals = []

        def mk(d, unpack="SNR"):
            p = SimulationParameters.create(d)
            p.set_unpack_parameter(unpack)
            return p.get_unpacked_params_list()
        base = {"SNR": np.array([0, 5, 10]), "M": 4, "rep_max": 100, "taps": np.array([1.0, 0.5, 0.25])}
        cur = mk(base)[1]
        cases = [("same", mk(base)[1], "ok"), ("only rep_max differs", mk(dict(base, rep_max=7))[1], "ok"),
                 ("fixed value differs", mk(dict(base, M=16))[1], "ValueError"),
                 ("other variation of the same grid", mk(base)[2], "ValueError"),
                 ("other grid values", mk(dict(base, SNR=np.array([0, 6, 10])))[1], "ValueError"),
                 ("extra key", mk(dict(base, extra=1))[1], "ValueError"),
                 ("fixed array parameter of another length", mk(dict(base, taps=np.array([1.0, 0.5])))[1], "ValueError"),
                 ("fixed array parameter with another entry", mk(dict(base, taps=np.array([1.0, 0.5, 0.125])))[1], "ValueError"),
                 # values of another experiment that are CLOSE to the current ones are still other parameters (floats are compared exactly)
                 ("tiny fixed float differs (noise power 1e-9 vs 4e-9)", (mk(dict(base, nv=4e-9))[1], mk(dict(base, nv=1e-9))[1]), "ValueError"),
                 ("fixed float differs by 1e-5 relative (carrier 2.4e9 vs 2.40002e9)", (mk(dict(base, fc=2.40002e9))[1], mk(dict(base, fc=2.4e9))[1]), "ValueError"),
                 ("fixed float differs in the last bit", (mk(dict(base, g=float(np.nextafter(0.3, 1))))[1], mk(dict(base, g=0.3))[1]), "ValueError"),
                 ("numpy float32 scalar differs slightly", (mk(dict(base, g=np.float32(0.5) + np.float32(1e-6)))[1], mk(dict(base, g=np.float32(0.5)))[1]), "ValueError"),
                 ("float array entry differs in the last bit", mk(dict(base, taps=np.array([1.0, 0.5, float(np.nextafter(0.25, 1))])))[1], "ValueError"),
                 ("float array entries all tiny, one differs (1e-12 vs 3e-12)", (mk(dict(base, taps=np.array([1e-12, 3e-12])))[1], mk(dict(base, taps=np.array([1e-12, 1e-12])))[1]), "ValueError"),
                 ("float grid differs by 1e-9 at this index", (mk(dict(base, SNR=np.array([0.0, 5.0 + 1e-9, 10.0])))[1], mk(dict(base, SNR=np.array([0.0, 5.0, 10.0])))[1]), "ValueError"),
                 ("equal floats given as float and numpy float64", (mk(dict(base, g=np.float64(0.3)))[1], mk(dict(base, g=0.3))[1]), "ok"),
                 # the same combination saved under a longer grid is the same combination: accepted
                 ("longer grid, same value at this index", mk(dict(base, SNR=np.array([0, 5, 10, 15])))[1], "ok")]
        # 'rep_max' is the ONLY name whose value may differ: every other name is compared - in particular names that resemble it
        # (every proper substring of it, extensions, other case)
        rm = "rep_max"
        alike = sorted({rm[i:j] for i in range(len(rm)) for j in range(i + 1, len(rm) + 1)} - {rm}) + ["rep_max_", "xrep_max", "REP_MAX", "repmax"]
        for nm in alike:
            b2 = dict(base)
            b2[nm] = 1.5
            cases.append(("parameter named %r differs" % nm, (mk(dict(b2, **{nm: 2.5}))[1], mk(b2)[1]), "ValueError"))
            cases.append(("parameter named %r equal" % nm, (mk(b2)[1], mk(b2)[1]), "ok"))
        for label, stored, want in cases:
            now = cur
            if isinstance(stored, tuple):
                stored, now = stored
            sv = SimulationResultsSaver()
            sv.set_results_filename("res")
            sv.results.set_parameters(now._original_sim_params)
            st = SimulationResults()
            st.set_parameters(stored)
            st.current_rep = 3
            it.models["pyphysim.simulations.results:SimulationResults.load_from_file"] = lambda interp, fn, st=st: st
            try:
                got = it.call(it.getattr(sv, "load_partial_results"), [now])
                goals.append(Goal("%s: accepted" % label, want == "ok" and got is st))
            except PyRaise as pr:
                goals.append(Goal("%s: refused with ValueError" % label, want == "ValueError" and isinstance(pr.exc, ValueError)))

        def missing(interp, fn):
            raise PyRaise(FileNotFoundError(fn))
        sv = SimulationResultsSaver()
        sv.set_results_filename("res")
        sv.results.set_parameters(cur._original_sim_params)
        it.models["pyphysim.simulations.results:SimulationResults.load_from_file"] = missing
        goals.append(Goal("missing file -> None", it.call(it.getattr(sv, "load_partial_results"), [cur]) is None))

        def corrupt(interp, fn):
            raise PyRaise(EOFError("Ran out of input"))
        it.models["pyphysim.simulations.results:SimulationResults.load_from_file"] = corrupt
        try:
            it.call(it.getattr(sv, "load_partial_results"), [cur])
            goals.append(Goal("a non-IOError is not swallowed", False))
        except PyRaise as pr:
            goals.append(Goal("a non-IOError is not swallowed", isinstance(pr.exc, EOFError)))
        sv2 = SimulationResultsSaver()
        goals.append(Goal("no results filename -> None", it.call(it.getattr(sv2, "load_partial_results"), [cur]) is None))
        # EVERY load on one saver is checked, not only the first: a matching file for one combination, then files saved for other
        # parameters for the next combinations (e.g. the grid was refined between the runs)
        sv3 = SimulationResultsSaver()
        sv3.set_results_filename("res")
        sv3.results.set_parameters(cur._original_sim_params)
        plist = mk(base)
        other = mk(dict(base, SNR=np.array([0, 2, 4])))
        seq = [(plist[0], mk(base)[0], "ok"), (plist[1], other[1], "ValueError"), (plist[2], mk(base)[2], "ok"),
               (plist[1], mk(dict(base, M=8))[1], "ValueError")]
        for k, (now, stored, want) in enumerate(seq):
            st = SimulationResults()
            st.set_parameters(stored)
            st.current_rep = 3
            it.models["pyphysim.simulations.results:SimulationResults.load_from_file"] = lambda interp, fn, st=st: st
            try:
                got = it.call(it.getattr(sv3, "load_partial_results"), [now])
                goals.append(Goal("load %d on the same saver: accepted" % k, want == "ok" and got is st))
            except PyRaise as pr:
                goals.append(Goal("load %d on the same saver: refused with ValueError" % k, want == "ValueError" and isinstance(pr.exc, ValueError)))
        return goals
    return verify(body, check_side=False, replay=_refusal_replay)


# ------------------------------------------------------------------ bounded: real kill / restart
CHILD = r'''
import builtins, io, os, sys
sys.path.insert(0, os.environ["C07_REPO"])
crash_at = int(os.environ.get("C07_CRASH_AT", "-1"))
count = [0]
_real_open = builtins.open
class W:
    def __init__(self, f): self.f = f
    def write(self, data):
        count[0] += 1
        if count[0] == crash_at:
            half = data[:len(data) // 2]
            self.f.write(half); self.f.flush(); os._exit(77)
        return self.f.write(data)
    def __getattr__(self, n): return getattr(self.f, n)
    def __enter__(self): self.f.__enter__(); return self
    def __exit__(self, *a): return self.f.__exit__(*a)
def my_open(name, mode="r", *a, **k):
    f = _real_open(name, mode, *a, **k)
    if "w" in mode and ("partial_results" in str(name) or str(name).startswith("res")):
        if "b" in mode:
            f = _real_open(name, mode, buffering=0)
        return W(f)
    return f
builtins.open = my_open
import numpy as np
from pyphysim.simulations.runner import SimulationRunner
from pyphysim.simulations.results import SimulationResults, Result
import pyphysim
assert pyphysim.__file__.startswith(os.environ["C07_REPO"])
class R(SimulationRunner):
    def __init__(self):
        super().__init__(read_command_line_args=False)
        self.rep_max = int(os.environ["C07_REP_MAX"])
        self.params.add("a", [1, 2]); self.params.set_unpack_parameter("a")
        self.update_progress_function_style = None
        self.set_results_filename("res" + os.environ.get("C07_EXT", ""))
        self.calls = [0, 0]
    def _run_simulation(self, p):
        self.calls[p.unpack_index] += 1
        s = SimulationResults(); s.add_new_result("v", Result.SUMTYPE, 1); return s
r = R()
r.simulate()
import json
print("DONE " + json.dumps({"calls": r.calls, "runned_reps": r.runned_reps, "values": [x.get_result() for x in r.results["v"]],
                            "updates": [x.num_updates for x in r.results["v"]], "writes": count[0]}))
'''


@obligation("native/kill_inside_every_write_and_restart", kind="bounded", timeout=1500,
            desc="real processes: a 2-variation simulation with a results file is killed inside the k-th write call (half of the data "
                 "written) for every k, then restarted with a fresh runner: the restart completes, every variation ends with exactly "
                 "rep_max repetitions and value == rep_max, only non-durable repetitions are re-executed; rep_max 3 and 501, .pickle/.json")
def ob_kill():
    import json
    import shutil
    import subprocess
    import tempfile
    repo = os.environ.get("PYVC_REPO", "/repo")

    def run(d, rep_max, crash_at, ext):
        env = dict(os.environ, C07_REPO=repo, C07_REP_MAX=str(rep_max), C07_CRASH_AT=str(crash_at), C07_EXT=ext,
                   PYTHONPATH=repo)
        p = subprocess.run([sys.executable, "-W", "ignore", "-c", CHILD], cwd=d, env=env, capture_output=True, text=True, timeout=300)
        out = [l for l in p.stdout.splitlines() if l.startswith("DONE ")]
        return p.returncode, (json.loads(out[-1][5:]) if out else None), p.stderr[-600:]

    def gen():
        for rep_max in (3, 501):
            for ext in ("", ".json"):
                d = tempfile.mkdtemp(prefix="c07_", dir=os.path.expanduser("~"))
                try:
                    rc, info, err = run(d, rep_max, -1, ext)
                finally:
                    shutil.rmtree(d, ignore_errors=True)
                if info is None:
                    yield {"rep_max": rep_max, "ext": ext, "crash_at": None, "baseline_failed": err}
                    continue
                n = info["writes"]
                ks = list(range(1, n + 1))
                if quick():
                    ks = ks[:6] + ks[-6:] if len(ks) > 12 else ks
                for k in ks:
                    yield {"rep_max": rep_max, "ext": ext, "crash_at": k}

    def check(case):
        if case.get("baseline_failed") is not None:
            return {"uninterrupted run failed": case["baseline_failed"]}
        d = tempfile.mkdtemp(prefix="c07_", dir=os.path.expanduser("~"))
        try:
            rc, info, err = run(d, case["rep_max"], case["crash_at"], case["ext"])
            if rc != 77:
                return None if info is not None else {"first run failed without the injected crash": err}
            leftovers = sorted(os.listdir(os.path.join(d, "partial_results"))) if os.path.isdir(os.path.join(d, "partial_results")) else []
            rc2, info2, err2 = run(d, case["rep_max"], -1, case["ext"])
            if rc2 != 0 or info2 is None:
                return {"restart failed": err2[-300:], "files left by the interrupted run": leftovers}
            rm = case["rep_max"]
            if info2["runned_reps"] != [rm, rm] or info2["values"] != [rm, rm] or info2["updates"] != [rm, rm]:
                return {"after restart": info2, "expected repetitions/value per variation": rm}
            if any(cn > rm for cn in info2["calls"]):
                return {"re-executed more than rep_max": info2["calls"]}
            return None
        finally:
            shutil.rmtree(d, ignore_errors=True)
    return bounded(gen(), check)
