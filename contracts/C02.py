"""C02  OFDM round trip and exact one-tap equalization when the CP covers the channel.

Functions under contract: OFDM.__init__/set_parameters/_calc_zeropad/_get_subcarrier_numbers/_get_used_subcarrier_numbers/
get_used_subcarrier_indexes/_prepare_input_signal/_prepare_decoded_signal/_add_CP/_remove_CP/_calculate_power_scale/
modulate/demodulate, OfdmOneTapEqualizer._equalize_data/equalize_data, TdlImpulseResponse.get_freq_response.
"""
import itertools
import math

import numpy as np
import z3

from pyvc import sym
from pyvc.sym import lift, cfrac_eq, frac_eq
from pyvc.interp import PyRaise, _dft_matrix
from pyvc.oblig import obligation, verify, bounded, exhaustive, Goal, merge
from .common import stable_rng, quick, Frame
from .C20 import _meq
from .C03 import _sig, _profile, _conv_spec

LEVEL = "proof"
EXPLANATION = ("Parameter validation and the zero-padding arithmetic are proved for SYMBOLIC integers (every fft/cp/used triple, every "
               "input length).  With symbolic complex data and the exact DFT contract (fft sizes 2 and 4) the real modulate/demodulate "
               "are executed for every cp in 0..fft, every even used count and input lengths that are not multiples of the used count: "
               "demodulate(modulate(x)) == x followed by exactly `zeropad` zeros, each OFDM symbol has fft+cp samples whose prefix is an "
               "exact copy of the tail, unused (DC/guard) carriers are exactly zero at the IFFT input; also after set_parameters on a "
               "used object.  One-tap equalisation: a symbolic static tapped-delay-line channel with memory <= cp (incl. a first tap "
               "not at delay 0) applied as a linear convolution, then demodulate + equalize_data with the reported impulse response "
               "returns the symbols exactly.  The subcarrier index sets for all fft sizes up to 256 are enumerated on the real code.")
ASSUMPTIONS = [
    "np.fft contract = DFT matrix, exact for sizes 2 and 4 (larger sizes only in the bounded/enumerated parts); ideal reals; the float "
    "ceil in _calc_zeropad as a real ceiling (binary64 exact for lengths < 2^52 / used)",
    "circular-convolution theorem is not assumed: the equalisation identity is proved directly for the concrete small sizes",
]
TRUSTED_BASE = ["numpy hstack/reshape/fancy-index assignment executed natively on object arrays"]
BOUNDS = {"symbolic_fft": [2, 4], "index_sets_enumerated_fft": "2..256", "native_fft": [8, 16, 64]}


@obligation("params/validation_symbolic", desc="set_parameters(fft, cp, used) for SYMBOLIC integers: accepted iff 0 <= cp <= fft and 2 <= used <= fft "
            "and used even (used defaults to fft); otherwise ValueError and the object keeps its old parameters")
def ob_params():
    def body(c, it):
        from pyphysim.modulators import ofdm
        o = it.call(ofdm.OFDM, [8, 2, 4])
        fft, cp, used = c.var("fft", "int"), c.var("cp", "int"), c.var("used", "int")
        c.inputs.update(fft=fft, cp=cp, used=used)
        valid = (cp >= 0) & (cp <= fft) & (used >= 2) & (used <= fft) & ((used % 2) == 0)
        try:
            it.call(it.getattr(o, "set_parameters"), [fft, cp, used])
            return [Goal("accepted => valid", valid),
                    Goal("stored", (lift(it.getattr(o, "fft_size")) == fft) & (lift(it.getattr(o, "cp_size")) == cp) & (lift(it.getattr(o, "num_used_subcarriers")) == used))]
        except PyRaise as pr:
            return [Goal("rejected with ValueError", isinstance(pr.exc, ValueError)), Goal("rejected => invalid", ~valid),
                    Goal("old parameters kept", it.getattr(o, "fft_size") == 8 and it.getattr(o, "cp_size") == 2 and it.getattr(o, "num_used_subcarriers") == 4)]
    return verify(body)


@obligation("params/zeropad_symbolic", desc="_calc_zeropad(n) for SYMBOLIC n >= 1 and used >= 2: 0 <= zeropad < used and n + zeropad == used * num_symbols")
def ob_zeropad():
    def body(c, it):
        from pyphysim.modulators import ofdm
        o = it.call(ofdm.OFDM, [8, 2, 4])
        n, used = c.var("n", "int"), c.var("used", "int")
        c.assume((n >= 1) & (used >= 2))
        o.fields["num_used_subcarriers"] = used
        zp, ns = it.call(it.getattr(o, "_calc_zeropad"), [n])
        return [Goal("0 <= zeropad < used", (lift(zp) >= 0) & (lift(zp) < used)), Goal("n + zeropad == used * symbols", n + lift(zp) == used * lift(ns))]
    return verify(body, timeout_ms=60000)


def _cfgs():
    out = []
    for fft in (2, 4):
        for used in range(2, fft + 1, 2):
            for cp in range(0, fft + 1):
                out.append((fft, cp, used))
    return out


def _native_roundtrip(o, fft, cp, used, x):
    """one modulate / demodulate (twice on the same buffer) of a real OFDM object against the statement; -> disagreement or None"""
    n = len(x)
    nsym = -(-n // used)
    tx = o.modulate(x)
    if np.shape(tx) != (nsym * (fft + cp),):
        return {"emitted samples": list(np.shape(tx)), "expected": [nsym * (fft + cp)]}
    blocks = np.asarray(tx).reshape(nsym, fft + cp)
    if cp and (not (np.abs(blocks[:, :cp] - blocks[:, fft:]).max() <= 1e-12)):
        return {"cyclic prefix is not a copy of the symbol tail": float(np.abs(blocks[:, :cp] - blocks[:, fft:]).max())}
    want = np.concatenate([x, np.zeros(nsym * used - n)])
    buf = np.array(tx)
    held = buf.copy()
    rx = np.asarray(o.demodulate(buf)).ravel()
    if rx.shape != want.shape or (not (np.abs(rx - want).max() <= 1e-9)):
        return {"demodulate(modulate(x)) != x ++ zeros": float(np.abs(rx - want).max()) if rx.shape == want.shape else "shape"}
    if buf.size != held.size or (not np.array_equal(buf.ravel(), held.ravel())):
        return {"the receive buffer was altered by demodulate": float(np.abs(buf.ravel() - held.ravel()).max())}
    rx2 = np.asarray(o.demodulate(buf)).ravel()
    if rx2.shape != want.shape or (not (np.abs(rx2 - want).max() <= 1e-9)):
        return {"second demodulate of the same buffer differs": float(np.abs(rx2 - want).max()) if rx2.shape == want.shape else "shape"}
    return None


def _replay_roundtrip(fft, cp, used):
    def rp(model):
        from pyphysim.modulators import ofdm
        try:
            rr = np.random.RandomState(fft * 100 + cp * 10 + used)
            o = ofdm.OFDM(fft, cp, used)
            for n in sorted({1, used, used + 1, 2 * used}):
                bad = _native_roundtrip(o, fft, cp, used, rr.randn(n) + 1j * rr.randn(n))
                if bad:
                    bad.update({"confirmed": True, "fft": fft, "cp": cp, "used": used, "input_length": n})
                    return bad
            return {"confirmed": False, "note": "real OFDM object round-trips generic data in this configuration"}
        except Exception as e:
            return {"confirmed": False, "error": "replay crashed: %r" % (e,)}
    return rp


def _replay_param_history(first, steps):
    def rp(model):
        from pyphysim.modulators import ofdm
        try:
            rr = np.random.RandomState(11)
            (f0, cp0, u0, n0) = first
            o = ofdm.OFDM(f0, cp0, u0)
            o.demodulate(o.modulate(rr.randn(n0) + 1j * rr.randn(n0)))
            for (f, cp, u, n) in steps:
                o.set_parameters(f, cp, u)
                fresh = ofdm.OFDM(f, cp, u)
                x = rr.randn(n) + 1j * rr.randn(n)
                where = {"confirmed": True, "after set_parameters": [f, cp, u], "input_length": n}
                if list(map(int, o.get_used_subcarrier_indexes())) != list(map(int, fresh.get_used_subcarrier_indexes())):
                    return dict(where, what="used subcarrier indexes differ from a fresh object's")
                t1, t2 = o.modulate(x), fresh.modulate(x)
                if np.shape(t1) != np.shape(t2) or (not (np.abs(t1 - t2).max() <= 1e-12)):
                    return dict(where, what="emitted signal differs from a fresh object's",
                                max_abs_difference=float(np.abs(t1 - t2).max()) if np.shape(t1) == np.shape(t2) else "shape")
                bad = _native_roundtrip(o, f, cp, u, x)
                if bad:
                    return dict(where, **bad)
            return {"confirmed": False, "note": "re-configured object behaves like a fresh one for generic data"}
        except Exception as e:
            return {"confirmed": False, "error": "replay crashed: %r" % (e,)}
    return rp


def _replay_equalizer(fft, cp, used, d, queried_before, hist=None):
    def rp(model):
        from pyphysim.modulators import ofdm
        from pyphysim.channels import fading
        try:
            rr = np.random.RandomState(3)
            eq = None
            if hist is not None:
                f0, cp0, u0 = hist
                o = ofdm.OFDM(f0, cp0, u0)
                eq = ofdm.OfdmOneTapEqualizer(o)
                x0 = rr.randn(u0) + 1j * rr.randn(u0)
                eq.equalize_data(o.demodulate(o.modulate(x0) * 0.7j), fading.TdlImpulseResponse(np.full((1, f0), 0.7j), _profile([0])))
                o.set_parameters(fft, cp, used)
            else:
                o = ofdm.OFDM(fft, cp, used)
            nsym = 2
            x = rr.randn(used * nsym) + 1j * rr.randn(used * nsym)
            tx = o.modulate(x)
            N = tx.shape[0]
            h = rr.randn(len(d)) + 1j * rr.randn(len(d))
            y = np.zeros(N + d[-1], dtype=complex)
            for i, di in enumerate(d):
                y[di:di + N] += h[i] * tx
            rx = o.demodulate(y[:N].copy())
            ir = fading.TdlImpulseResponse(np.repeat(h.reshape(-1, 1), nsym * fft, axis=1), _profile(d))
            if queried_before is not None:
                ir.get_freq_response(queried_before)
            out = (eq if eq is not None else ofdm.OfdmOneTapEqualizer(o)).equalize_data(rx, ir)
            err = float(np.abs(np.asarray(out).ravel() - x).max())
            if (not (err <= 1e-9)):
                return {"confirmed": True, "fft": fft, "cp": cp, "used": used, "delays": list(d), "response queried before at size": queried_before,
                        "modulator and equaliser used before with (fft, cp, used)": hist,
                        "max |equalised - data|": err}
            return {"confirmed": False, "note": "real equaliser recovers generic data over a generic static channel with these delays"}
        except Exception as e:
            return {"confirmed": False, "error": "replay crashed: %r" % (e,)}
    return rp


@obligation("roundtrip/symbolic_data", params=[{"fft": f, "cp": cp, "used": u} for f, cp, u in _cfgs()] +
            [{"fft": 8, "cp": cp, "used": u, "_tiers": ("quick", "thorough") if (cp, u) in ((2, 6), (8, 8)) else ("thorough",)}
             for cp in (0, 2, 3, 8) for u in (2, 6, 8)], timeout=200,
            desc="symbolic data of lengths {1, used, used+1, 2*used}: demodulate(modulate(x)) == x ++ zeros(zeropad); emitted signal has fft+cp "
                 "samples per symbol, prefix == tail copy; carriers outside get_used_subcarrier_indexes are exactly 0 at the IFFT input and "
                 "DC is unused when used < fft")
def ob_roundtrip(fft, cp, used):
    def body(c, it):
        from pyphysim.modulators import ofdm
        o = it.call(ofdm.OFDM, [fft, cp, used])
        goals = []
        idx = list(map(int, it.call(it.getattr(o, "get_used_subcarrier_indexes"), [])))
        goals.append(Goal("used carrier indexes: `used` distinct values in [0, fft)", len(idx) == used and len(set(idx)) == used and all(0 <= i < fft for i in idx)))
        if used < fft:
            goals.append(Goal("DC carrier unused when used < fft", 0 not in idx))
        for n in sorted({1, used, used + 1, 2 * used}):
            x = _sig(c, "x%d_" % n, n)
            tx = it.call(it.getattr(o, "modulate"), [x])
            nsym = -(-n // used)
            goals.append(Goal("n=%d: (fft+cp) samples per OFDM symbol" % n, np.shape(tx) == (nsym * (fft + cp),)))
            if np.shape(tx) != (nsym * (fft + cp),):
                continue
            blocks = tx.reshape(nsym, fft + cp)
            if cp:
                goals.append(Goal("n=%d: each prefix is an exact copy of the symbol tail" % n, _meq(blocks[:, :cp], blocks[:, fft:])))
            inp = it.call(it.getattr(o, "_prepare_input_signal"), [x])
            unused = [k for k in range(fft) if k not in idx]
            goals.append(Goal("n=%d: unused carriers carry exactly zero" % n, all((inp[r, k] == 0) is True or inp[r, k] == 0 for r in range(nsym) for k in unused)))
            buf = tx.copy()
            held = list(buf.flat)
            rx = it.call(it.getattr(o, "demodulate"), [buf])
            want = np.concatenate([x, np.zeros(nsym * used - n, dtype=object)])
            goals.append(Goal("n=%d: demodulate(modulate(x)) == x ++ zeros" % n, _meq(rx, want)))
            # frame: the samples in the caller's receive buffer are not altered (its shape may be; pinned behaviour), so a second
            # receiver working on the same buffer gets the same symbols
            goals.append(Goal("n=%d: the receive buffer still holds the received samples" % n,
                              buf.size == len(held) and all(a is b for a, b in zip(buf.flat, held))))
            rx2 = it.call(it.getattr(o, "demodulate"), [buf])
            goals.append(Goal("n=%d: demodulating the same buffer again gives the same symbols" % n, _meq(np.asarray(rx2).ravel(), want)))
        return goals
    return verify(body, check_side=False, timeout_ms=60000, replay=_replay_roundtrip(fft, cp, used))


@obligation("roundtrip/after_set_parameters_history", params=[{"seq": q} for q in ("grow_fft", "same_fft_fewer_used", "same_fft_more_used")],
            timeout=200,
            desc="history on ONE object (modulate/demodulate, then set_parameters, again and again; input lengths chosen so that the number of "
                 "OFDM symbols repeats): after every step indexes, emitted signal and round trip are those of a fresh object with the "
                 "current parameters - in particular carriers outside the current used set carry nothing left over from earlier use")
def ob_history(seq="grow_fft"):
    SEQS = {"grow_fft": ((2, 0, 2, 3), [(4, 1, 2, 3), (4, 2, 4, 3), (2, 1, 2, 3)]),
            "same_fft_fewer_used": ((4, 1, 4, 4), [(4, 1, 2, 2), (4, 0, 4, 4), (4, 3, 2, 2), (4, 3, 2, 1)]),
            "same_fft_more_used": ((4, 2, 2, 4), [(4, 2, 4, 8), (4, 2, 2, 3), (4, 1, 4, 5)])}

    def body(c, it):
        from pyphysim.modulators import ofdm
        (f0, cp0, u0, n0), steps = SEQS[seq]
        o = it.call(ofdm.OFDM, [f0, cp0, u0])
        x0 = _sig(c, "x", n0)
        it.call(it.getattr(o, "demodulate"), [it.call(it.getattr(o, "modulate"), [x0])])
        goals = []
        for k, (f, cp, u, n) in enumerate(steps):
            x = _sig(c, "y%d" % k, n)
            it.call(it.getattr(o, "set_parameters"), [f, cp, u])
            fresh = it.call(ofdm.OFDM, [f, cp, u])
            a = it.call(it.getattr(o, "get_used_subcarrier_indexes"), [])
            b = it.call(it.getattr(fresh, "get_used_subcarrier_indexes"), [])
            goals.append(Goal("(%d,%d,%d): indexes as for a fresh object" % (f, cp, u), list(map(int, a)) == list(map(int, b))))
            t1 = it.call(it.getattr(o, "modulate"), [x])
            t2 = it.call(it.getattr(fresh, "modulate"), [x])
            goals.append(Goal("(%d,%d,%d) len %d: emitted signal as for a fresh object" % (f, cp, u, n), _meq(t1, t2)))
            rx = it.call(it.getattr(o, "demodulate"), [t1.copy()])
            nz = (-(-n // u)) * u - n
            goals.append(Goal("(%d,%d,%d) len %d: round trip" % (f, cp, u, n), _meq(rx, np.concatenate([x, np.zeros(nz, dtype=object)]))))
        return goals
    return verify(body, check_side=False, timeout_ms=60000, replay=_replay_param_history(*SEQS[seq]))


CHANNELS = [(4, 2, 4, [0, 1]), (4, 2, 2, [0, 2]), (4, 2, 4, [1, 2]), (4, 1, 4, [1]), (4, 3, 2, [0, 1, 3]), (2, 1, 2, [0, 1]), (4, 2, 4, [0]),
            (8, 3, 6, [0, 1, 3]), (8, 2, 8, [1, 2])]


@obligation("equalizer/exact_when_cp_covers_channel", params=[{"fft": f, "cp": cp, "used": u, "delays": "-".join(map(str, d))} for f, cp, u, d in CHANNELS] +
            [{"fft": 4, "cp": 2, "used": 4, "delays": "0-1", "queried_before": q} for q in (2, 1)] +
            [{"fft": 2, "cp": 1, "used": 2, "delays": "0-1", "queried_before": 4}] +
            [{"fft": 4, "cp": 2, "used": 2, "delays": "0-2", "eq_history": "2-1-2"}, {"fft": 8, "cp": 2, "used": 2, "delays": "1-2", "eq_history": "4-1-2"},
             {"fft": 4, "cp": 2, "used": 4, "delays": "0-1", "eq_history": "4-1-2"}],
            timeout=200,
            desc="symbolic static TDL channel with the given delays (memory <= cp, incl. a first tap not at 0): y = linear convolution of the "
                 "modulated signal; demodulate(y[:len]) then equalize_data with the reported TdlImpulseResponse == the data symbols (two OFDM "
                 "symbols, inter-symbol interference absorbed by the prefix); history variants: the reported response was already asked for "
                 "its frequency response at ANOTHER FFT size (queried_before) - the answer for a size is a function of the taps and that size")
def ob_equalizer(fft, cp, used, delays, queried_before=None, eq_history=None):
    d = [int(t) for t in delays.split("-")]
    hist = [int(t) for t in eq_history.split("-")] if eq_history else None

    def body(c, it):
        from pyphysim.modulators import ofdm
        from pyphysim.channels import fading
        eq = None
        if hist is not None:
            # history: modulator and equaliser were built and USED with other parameters, then the modulator is re-configured;
            # the equaliser object is kept (it reads the current parameters of the modulator it was given)
            f0, cp0, u0 = hist
            o = it.call(ofdm.OFDM, [f0, cp0, u0])
            eq = it.call(ofdm.OfdmOneTapEqualizer, [o])
            x0 = _sig(c, "w", u0)
            g0 = _sig(c, "g", 1)
            t0 = np.empty((1, f0), dtype=object)
            t0[0, :] = g0[0]
            rx0 = it.call(it.getattr(o, "demodulate"), [it.call(it.getattr(o, "modulate"), [x0]) * g0[0]])
            it.call(it.getattr(eq, "equalize_data"), [rx0, it.call(fading.TdlImpulseResponse, [t0, _profile([0])])])
            it.call(it.getattr(o, "set_parameters"), [fft, cp, used])
        else:
            o = it.call(ofdm.OFDM, [fft, cp, used])
        nsym = 2
        x = _sig(c, "x", used * nsym)
        tx = it.call(it.getattr(o, "modulate"), [x])
        prof = _profile(d)
        h = _sig(c, "h", len(d))
        N = tx.shape[0]
        taps_tv = np.empty((len(d), N), dtype=object)
        for i in range(len(d)):
            taps_tv[i, :] = h[i]                      # time-invariant channel
        y = _conv_spec(tx, taps_tv, d, N)[:N]
        # the reported impulse response: one sample of the (static) taps per transmitted sample
        ir = it.call(fading.TdlImpulseResponse, [taps_tv, prof])
        rx = it.call(it.getattr(o, "demodulate"), [y.copy()])
        if eq is None:
            eq = it.call(ofdm.OfdmOneTapEqualizer, [o])
        # per OFDM symbol the equaliser averages the response over the symbol's samples: hand it the samples of the useful part
        taps_sym = np.empty((len(d), nsym * fft), dtype=object)
        for i in range(len(d)):
            taps_sym[i, :] = h[i]
        ir2 = it.call(fading.TdlImpulseResponse, [taps_sym, prof])
        goals = []
        if queried_before is not None:
            fr0 = it.call(it.getattr(ir2, "get_freq_response"), [queried_before])
            goals.append(Goal("earlier query: one row per bin of the size asked for", np.shape(fr0) == (queried_before, nsym * fft)))
        out = it.call(it.getattr(eq, "equalize_data"), [rx, ir2])
        if queried_before is not None:
            fr1 = it.call(it.getattr(ir2, "get_freq_response"), [fft])
            goals.append(Goal("later query for the OFDM size: one row per bin", np.shape(fr1) == (fft, nsym * fft)))
        return goals + [Goal("equalised symbols == data", _meq(out, x))]
    return verify(body, check_side=False, timeout_ms=120000, replay=_replay_equalizer(fft, cp, used, d, queried_before, hist))


# ------------------------------------------------------------------ enumerated / bounded native
@obligation("indexes/all_fft_sizes_enumerated", kind="bounded", timeout=600,
            desc="every fft size 2..256 x every even used count: get_used_subcarrier_indexes has `used` distinct entries in [0, fft); for "
                 "used < fft it is [fft-h..fft-1] ++ [1..h] (h = used/2): DC and the guard band (h, fft-h) excluded; for used == fft (even) "
                 "it is the half rotation")
def ob_indexes():
    from pyphysim.modulators import ofdm

    def gen():
        for fft in range(2, 257):
            for used in range(2, fft + 1, 2):
                if fft > 64 and used not in (2, 4, fft - (fft % 2), (fft // 2) - ((fft // 2) % 2) or 2):
                    continue
                yield {"fft": fft, "used": used}

    def check(case):
        fft, used = case["fft"], case["used"]
        o = ofdm.OFDM(fft, 0, used)
        idx = [int(i) for i in o.get_used_subcarrier_indexes()]
        h = used // 2
        if (not (used >= fft)):
            want = list(range(fft - h, fft)) + list(range(1, h + 1))
        else:
            want = list(range(fft // 2, fft)) + list(range(0, fft // 2))
        if idx != want:
            return {"indexes": idx[:12], "expected": want[:12]}
        return None
    return bounded(gen(), check)


@obligation("native/round_trip_and_equaliser", kind="bounded", timeout=900,
            desc="complex128: fft in {8,16,64}, cp 0..fft, even used counts, odd input lengths, histories of set_parameters on one object: round "
                 "trip (1e-10), prefix copy, no energy on DC/guard carriers of the emitted signal; random static tap profiles with memory <= cp "
                 "(first tap possibly late) through the real TdlChannel (Fd = 0): demodulate + one-tap equaliser recovers the symbols (1e-8)")
def ob_native():
    from pyphysim.modulators import ofdm
    from pyphysim.channels import fading, fading_generators as fg
    r = stable_rng("C02native")

    def gen():
        for i in range(120 if quick() else 1500):
            yield {"seed": int(r.randint(1 << 30)), "fft": int([8, 16, 64][i % 3])}

    def check(case):
        rr = np.random.RandomState(case["seed"])
        fft = case["fft"]
        o = ofdm.OFDM(int(rr.choice([4, 8, 16])), 0, 2)
        o.modulate(np.ones(3, dtype=complex))            # the object has a past
        cp = int(rr.randint(0, fft + 1))
        used = int(2 * rr.randint(1, fft // 2 + 1))
        o.set_parameters(fft, cp, used)
        n = int(rr.randint(1, 4 * used))
        x = rr.randn(n) + 1j * rr.randn(n)
        fr = Frame(data=x)
        tx = o.modulate(x)
        fr.watch(emitted=tx)
        nsym = -(-n // used)
        if tx.shape != (nsym * (fft + cp),):
            return {"emitted length": list(tx.shape), "expected": nsym * (fft + cp)}
        B = tx.reshape(nsym, fft + cp)
        if cp and (not (np.abs(B[:, :cp] - B[:, fft:]).max() <= 0)):
            return {"prefix is not a copy of the tail": True}
        S = np.fft.fft(B[:, cp:], axis=1)
        idx = o.get_used_subcarrier_indexes()
        unused = np.setdiff1d(np.arange(fft), idx)
        if (not (used >= fft)) and (0 not in unused):
            return {"DC used": True}
        if unused.size and (not (np.abs(S[:, unused]).max() <= 1e-9 * max(1, np.abs(S).max()))):
            return {"energy on unused carriers": float(np.abs(S[:, unused]).max()), "fft": fft, "used": used}
        fresh = ofdm.OFDM(fft, cp, used)
        if (not (np.abs(fresh.modulate(x) - tx).max() <= 1e-12)):
            return {"differs from a fresh object with the same parameters": True}
        buf = tx.copy()
        snap = buf.ravel().copy()
        rx = o.demodulate(buf)            # (demodulate reshapes the array it is given - pinned behaviour, outside the property)
        if buf.size != snap.size or not np.array_equal(buf.ravel(), snap):
            return {"demodulate altered the samples of the receive buffer": True, "fft": fft, "cp": cp, "used": used}
        rx_again = o.demodulate(buf)
        if np.asarray(rx_again).size != np.asarray(rx).size or (not (np.abs(np.asarray(rx_again).ravel() - np.asarray(rx).ravel()).max() <= 0)):
            return {"second demodulation of the same buffer differs": True, "fft": fft, "cp": cp, "used": used}
        again = o.modulate(rr.randn(n) + 1j * rr.randn(n))       # a later transmission of the same size on the same object
        if fr.changed():
            return {"frame": fr.changed() + " (by a later modulate of the same object)", "fft": fft, "cp": cp, "used": used}
        want = np.concatenate([x, np.zeros(nsym * used - n)])
        if rx.shape != want.shape or (not (np.abs(rx - want).max() <= 1e-10 * max(1, np.abs(x).max()))):
            return {"round trip": float(np.abs(rx - want).max()) if rx.shape == want.shape else "shape"}
        if cp >= 1:
            mem = int(rr.randint(0, min(cp, fft - 1) + 1))
            k = int(rr.randint(1, min(4, mem + 1) + 1))
            delays = np.sort(rr.choice(np.arange(0, mem + 1), size=min(k, mem + 1), replace=False))
            if (not (rr.rand() >= 0.5)) and mem >= 1 and delays[0] == 0 and len(delays) > 1:
                delays = delays[1:]
            prof = fading.TdlChannelProfile(rr.uniform(-10, 0, len(delays)), delays.astype(float) * 1e-6)
            ch = fading.TdlChannel(fg.JakesSampleGenerator(0.0, 1e-6, 4, None, np.random.RandomState(case["seed"])), prof, Ts=1e-6)
            y = ch.corrupt_data(tx.copy())[:tx.size]
            ir = ch.get_last_impulse_response()
            rx = o.demodulate(y.copy())
            eq = ofdm.OfdmOneTapEqualizer(o)
            # impulse response restricted to the samples of the useful parts
            keep = np.concatenate([np.arange(s * (fft + cp) + cp, (s + 1) * (fft + cp)) for s in range(nsym)])
            ir2 = fading.TdlImpulseResponse(ir.tap_values_sparse[:, keep], ir.channel_profile)
            if case["seed"] % 2:
                # the reported response may already have been asked for another FFT size (e.g. to plot it)
                other = ir2.get_freq_response(4 * fft)
                if other.shape[0] != 4 * fft:
                    return {"get_freq_response(4*fft) rows": int(other.shape[0])}
            out = eq.equalize_data(rx, ir2)
            if (not (np.abs(out - want).max() <= 1e-8 * max(1, np.abs(x).max()))):
                return {"equaliser": float(np.abs(out - want).max()), "fft": fft, "cp": cp, "used": used, "delays": ir.tap_indexes_sparse.tolist()}
        return None
    return bounded(gen(), check)


@obligation("params/representation_independent", kind="exhaustive", timeout=600,
            desc="the parameter proofs treat fft size, prefix size and used-subcarrier count as integers: on the real code the emitted signal "
                 "and the round trip must not depend on HOW those integers are stored - every LTE-like configuration of a fixed set with the "
                 "three parameters as Python ints, numpy int16 / int32 / int64 / uint16 / uint32 scalars (constructor and set_parameters): "
                 "the emitted signal equals the Python-int one (1e-12) and demodulate(modulate(x)) == x")
def ob_param_representation():
    from pyphysim.modulators import ofdm
    cfgs = [(64, 16, 52), (128, 9, 72), (182, 12, 120), (256, 18, 180), (512, 36, 300), (1024, 72, 600), (2048, 144, 1200)]
    types = [np.int16, np.int32, np.int64, np.uint16, np.uint32]

    def cases():
        for cfg in cfgs:
            for t in types:
                for via in ("constructor", "set_parameters"):
                    yield {"cfg": list(cfg), "dtype": np.dtype(t).name, "via": via}

    def check(case):
        fft, cp, used = case["cfg"]
        t = np.dtype(case["dtype"]).type
        rr = np.random.RandomState(fft + cp)
        x = rr.randn(used + 7) + 1j * rr.randn(used + 7)
        ref = ofdm.OFDM(fft, cp, used)
        want = ref.modulate(x.copy())
        import warnings
        with warnings.catch_warnings():
            warnings.simplefilter("ignore")
            with np.errstate(all="ignore"):
                if case["via"] == "constructor":
                    o = ofdm.OFDM(t(fft), t(cp), t(used))
                else:
                    o = ofdm.OFDM(8, 0, 2)
                    o.set_parameters(t(fft), t(cp), t(used))
                got = o.modulate(x.copy())
                back = o.demodulate(got.copy())
        if np.shape(got) != want.shape or (not (np.abs(got - want).max() <= 1e-12 * max(1.0, np.abs(want).max()))):
            return {"emitted signal differs from the one for Python-int parameters": float(np.abs(got - want).max()) if np.shape(got) == want.shape else "shape",
                    "largest emitted sample": float(np.abs(got).max())}
        if (not (np.abs(np.asarray(back)[:x.size] - x).max() <= 1e-9)):
            return {"round trip error": float(np.nan_to_num(np.abs(np.asarray(back)[:x.size] - x).max(), nan=1e300))}
        return None
    return exhaustive(cases(), check)


@obligation("native/cp_equal_fft_tap_at_fft", kind="bounded",
            desc="corner of the quantifier: cp == fft == 16 with a tap at delay 16 (memory == cp): one-tap equalisation recovers the symbols")
def ob_corner():
    from pyphysim.modulators import ofdm
    from pyphysim.channels import fading, fading_generators as fg

    def check(case):
        fft = cp = 16
        o = ofdm.OFDM(fft, cp, 16)
        rr = np.random.RandomState(1)
        x = rr.randn(32) + 1j * rr.randn(32)
        tx = o.modulate(x)
        prof = fading.TdlChannelProfile(np.array([0.0, -3.0]), np.array([0.0, 16e-6]))
        ch = fading.TdlChannel(fg.JakesSampleGenerator(0.0, 1e-6, 4, None, np.random.RandomState(2)), prof, Ts=1e-6)
        y = ch.corrupt_data(tx.copy())[:tx.size]
        ir = ch.get_last_impulse_response()
        keep = np.concatenate([np.arange(s * 32 + 16, (s + 1) * 32) for s in range(2)])
        ir2 = fading.TdlImpulseResponse(ir.tap_values_sparse[:, keep], ir.channel_profile)
        out = ofdm.OfdmOneTapEqualizer(o).equalize_data(o.demodulate(y.copy()), ir2)
        e = np.abs(out - x).max()
        return {"max error": float(e), "cause": "np.fft.fft(taps, 16) crops the 17th tap in get_freq_response"} if (not (e <= 1e-8)) else None
    return bounded([{"fft": 16, "cp": 16, "tap delay": 16}], check)
