"""C19  Cell geometry: containment, user placement and cluster layout are exact.

Deductive: Shape.vertices/calc_rotated_pos, Rectangle.__init__/_get_vertex_positions/is_point_inside_shape,
Circle.is_point_inside_shape/get_border_point, pointprocess.generate_random_points_in_circle/_rectangle.
Bounded (run-time contracts on the real code): Hexagon vertex walk and containment (matplotlib Path), Shape.get_border_point,
CellBase.add_user/add_random_user/add_border_user, Cell3Sec, CellSquare, Cluster layout and distance matrices.
"""
import itertools
import math

import numpy as np
import z3

from pyvc import sym
from pyvc.sym import lift, SComplex, cfrac_eq, frac_eq
from pyvc.interp import PyRaise
from pyvc.oblig import obligation, verify, bounded, exhaustive, Goal, merge
from .common import stable_rng, quick

LEVEL = "other"
EXPLANATION = ("Deductive (counted under obligations/discharged): for a rectangle with symbolic corners, symbolic rotation (cos/sin "
               "uninterpreted with c^2+s^2=1 and the even/odd symmetry instances) and a symbolic query point, the real containment test "
               "returns True exactly when the point lies in the convex quadrilateral spanned by the shape's own `vertices`: each edge's "
               "half-plane form is proved equal to (side length) x (signed distance of the un-rotated point) as an exact polynomial "
               "identity modulo c^2+s^2=1, and the decision is the sign test on those distances; circle containment is the open disc; the circle border point lies at distance ratio*r in the requested direction; "
               "random points in a circle/rectangle satisfy their bounds for every value of the uninterpreted draws.  Cluster layout for "
               "symbolic cell radius / position / rotation: every cell centre is exactly the rigid image of a constant unit layout (itself "
               "within 1e-14 of the hexagonal lattice, 50-digit reference; squares: the integer grid), sectors of 3-sector cells are the "
               "hexagons of radius r/sqrt 3 at the documented places and follow every sequence of <= 3 setter calls; hexagon vertices are "
               "the rigid image of a unit hexagon within 1e-15 of the regular one.  "
               "Hexagon containment goes through matplotlib's Path (external, T6), the generic border-point construction has an allclose "
               "branch and the hexagonal ring placement is trigonometry at multiples of 30 degrees with float tolerances: those parts are "
               "bounded run-time contract checks on dense grids (labelled bounded) - hence level 'other'.")
ASSUMPTIONS = [
    "ideal reals; cos/sin uninterpreted (c^2+s^2=1, even/odd); random draws uninterpreted in [0,1)",
    "matplotlib Path.contains_point is external (T6): hexagon containment only bounded, points within 1e-9*radius of an edge excluded",
    "bounded grids: rotations on a 15 (quick) / 1 (thorough) degree grid in [-720,720], radii over 4 decades, cluster sizes {1,3,4,7,13,19}, "
    "square grids {1,4,9,16}",
]
TRUSTED_BASE = ["matplotlib.path.Path.contains_point"]


def _cross(a, b, p):
    """z-component of (b-a) x (p-a) for complex-like symbolic points"""
    a, b, p = sym.to_complex(a), sym.to_complex(b), sym.to_complex(p)
    return (b.re - a.re) * (p.im - a.im) - (b.im - a.im) * (p.re - a.re)


@obligation("rectangle/containment_iff_inside_own_vertices", params=[{"moved": False}, {"moved": True}], timeout=150,
            desc="Rectangle(first, second, rotation) with symbolic corners, rotation and query point: is_point_inside_shape(p) is True iff p "
                 "lies in the convex quadrilateral of the shape's own vertices (all four edge half-planes, boundary inclusive); both the "
                 "rotation == 0 and != 0 paths; moved: the same after pos = q (symbolic) - the rectangle is then the original one "
                 "translated by q - pos")
def ob_rect(moved=False):
    def body(c, it):
        from pyphysim.cell import shapes
        a, b, p = c.var("a", "complex"), c.var("b", "complex"), c.var("p", "complex")
        rot = c.var("rot", "real")
        c.inputs.update(a=a, b=b, p=p, rot=rot)
        c.assume((a.re < b.re) & (a.im < b.im))
        r = it.call(shapes.Rectangle, [a, b, rot])
        if moved:
            q = c.var("q", "complex")
            c.inputs.update(q=q)
            delta = sym.to_complex(q) - sym.to_complex(it.getattr(r, "pos"))
            it.setattr(r, "pos", q)
            a, b = sym.to_complex(a) + delta, sym.to_complex(b) + delta       # the spec rectangle: translated corners
        inside = it.call(it.getattr(r, "is_point_inside_shape"), [p])
        v = it.getattr(r, "vertices")
        goals = [Goal("four vertices", np.shape(v) == (4,))]
        if not goals[0].cond:
            return goals
        pos = sym.to_complex(it.getattr(r, "pos"))
        th = np.pi * rot / 180.0
        cs, sn = lift(th).cos(), lift(th).sin()
        dx, dy = p.re - pos.re, p.im - pos.im
        xr = pos.re + cs * dx + sn * dy              # the query point in the rectangle's own (unrotated) frame
        yr = pos.im - sn * dx + cs * dy
        W, H = b.re - a.re, b.im - a.im
        dist = [yr - a.im, b.re - xr, b.im - yr, xr - a.re]      # signed distances to the four sides
        length = [W, H, W, H]
        crosses = [_cross(v[i], v[(i + 1) % 4], p) for i in range(4)]
        # lemma (exact polynomial identities modulo cos^2+sin^2=1): the half-plane form of each edge of the shape's OWN
        # vertices equals (side length) x (signed distance of the un-rotated point to that side)
        D = []
        for i in range(4):
            goals.append(Goal("edge %d: cross product == side length * signed distance" % i, crosses[i] == length[i] * dist[i]))
            Di = c.var("D%d" % i, "real")
            c.assume(Di == dist[i])
            D.append(Di)
        member = sym.SBool(z3.And([(x >= 0).t for x in D]))
        if isinstance(inside, bool):
            goals.append(Goal("returned %s <=> all four signed distances >= 0" % inside, member if inside else ~member))
        else:
            goals.append(Goal("result <=> membership", lift(inside) == member))
        return goals

    def rp(mv):
        from pyphysim.cell import shapes
        try:
            a = complex(mv["a"]["re"], mv["a"]["im"]) if isinstance(mv.get("a"), dict) else complex(-2, -1)
            b = complex(mv["b"]["re"], mv["b"]["im"]) if isinstance(mv.get("b"), dict) else complex(2, 1)
        except Exception:
            a, b = complex(-2, -1), complex(2, 1)
        rr = np.random.RandomState(0)
        for rot in (float(mv.get("rot", 90.0) or 90.0), 90.0, 30.0, -45.0, 0.0):
            r = shapes.Rectangle(a, b, rot)
            if moved:
                v0 = r.vertices.copy()
                r.pos = r.pos + (3 - 2j)
                if not np.abs(r.vertices - (v0 + (3 - 2j))).max() <= 1e-9:
                    return {"confirmed": True, "corners": [str(a), str(b)], "rotation": rot, "moved by": "3-2j",
                            "vertices before": [str(x) for x in v0], "vertices after": [str(x) for x in r.vertices]}
            v = r.vertices
            for _ in range(400):
                p = complex(rr.uniform(-4, 4), rr.uniform(-4, 4)) + ((3 - 2j) if moved else 0)
                cr = [((v[(i + 1) % 4] - v[i]).conjugate() * (p - v[i])).imag for i in range(4)]
                if min(abs(x) for x in cr) < 1e-9:
                    continue
                want = all(x > 0 for x in cr) or all(x < 0 for x in cr)
                if bool(r.is_point_inside_shape(p)) != want:
                    return {"confirmed": True, "corners": [str(a), str(b)], "rotation": rot, "point": str(p),
                            "is_point_inside_shape": bool(r.is_point_inside_shape(p)), "inside own vertices": want}
        return {"confirmed": False}
    return verify(body, replay=rp, check_side=False, timeout_ms=20000)


@obligation("circle/containment_and_border_point",
            desc="Circle(pos, r): is_point_inside_shape(p) <=> |p - pos|^2 < r^2 (open disc); get_border_point(angle, ratio) - pos == "
                 "ratio*r*(cos, sin)(angle) (on the boundary for ratio 1, at the centre for ratio 0)")
def ob_circle():
    def body(c, it):
        from pyphysim.cell import shapes
        pos, p = c.var("pos", "complex"), c.var("p", "complex")
        r, ang, ratio = c.var("r", "real"), c.var("ang", "real"), c.var("ratio", "real")
        c.assume((r > 0) & (ratio >= 0) & (ratio <= 1))
        C = it.call(shapes.Circle, [pos, r])
        inside = it.call(it.getattr(C, "is_point_inside_shape"), [p])
        d = sym.to_complex(pos - p)
        d2 = d.re * d.re + d.im * d.im
        goals = []
        if isinstance(inside, bool):
            goals.append(Goal("containment <=> open disc", (d2 < r * r) if inside else (d2 >= r * r)))
        else:
            goals.append(Goal("containment <=> open disc", lift(inside) == (d2 < r * r)))
        bp = sym.to_complex(it.call(it.getattr(C, "get_border_point"), [ang, ratio]))
        a = np.pi * ang / 180.0
        goals.append(Goal("border point direction and distance", ((bp.re - pos.re) == ratio * r * lift(a).cos()) & ((bp.im - pos.im) == ratio * r * lift(a).sin())))
        bp1 = sym.to_complex(it.call(it.getattr(C, "get_border_point"), [ang]))
        e = (bp1.re - pos.re) * (bp1.re - pos.re) + (bp1.im - pos.im) * (bp1.im - pos.im)
        goals.append(Goal("default ratio: on the boundary", e == r * r))
        bp0 = sym.to_complex(it.call(it.getattr(C, "get_border_point"), [ang, 0.0]))
        goals.append(Goal("ratio 0: the centre", (bp0.re == pos.re) & (bp0.im == pos.im)))
        return goals
    return verify(body, check_side=False, timeout_ms=60000)


@obligation("pointprocess/bounds_for_all_draws",
            desc="generate_random_points_in_circle: min_radius <= |z| <= max_radius (< max when the draw < 1); in_rectangle: |Re| <= w/2, "
                 "|Im| <= h/2, for every value of the uninterpreted uniform draws in [0,1)")
def ob_points():
    def body(c, it):
        import pyphysim.pointprocess.pointprocess as pp
        draws = []

        def m_rand(interp, size=None):
            out = np.empty(size, dtype=object)
            for i in range(size):
                v = c.fresh_var("u", "real")
                c.assume((v >= 0) & (v < 1))
                out[i] = v
            draws.append(out)
            return out
        it.models[np.random.random_sample] = m_rand
        mx, mn = c.var("max_r", "real"), c.var("min_r", "real")
        c.assume((mn >= 0) & (mx > mn))
        z = it.call(pp.generate_random_points_in_circle, [2, mx, mn])
        goals = [Goal("two points", np.shape(z) == (2,))]
        for i in range(2):
            w = sym.to_complex(z[i])
            m2 = w.re * w.re + w.im * w.im
            goals.append(Goal("circle point %d: min^2 <= |z|^2 < max^2" % i, (m2 >= mn * mn) & (m2 < mx * mx)))
        W, H = c.var("W", "real"), c.var("H", "real")
        c.assume((W > 0) & (H > 0))
        q = it.call(pp.generate_random_points_in_rectangle, [2, W, H])
        for i in range(2):
            w = sym.to_complex(q[i])
            goals.append(Goal("rectangle point %d inside" % i, (w.re <= W / 2) & (w.re >= -W / 2) & (w.im <= H / 2) & (w.im >= -H / 2)))
        return goals
    return verify(body, check_side=False, timeout_ms=60000)


# ------------------------------------------------------------------ bounded native
def _poly_member(v, p):
    cr = np.array([((v[(i + 1) % len(v)] - v[i]).conjugate() * (p - v[i])).imag for i in range(len(v))])
    scale = np.abs(v - v.mean()).max()
    if np.min(np.abs(cr)) < 1e-9 * scale * scale:
        return None
    return bool(np.all(cr > 0) or np.all(cr < 0))


def _polygon_member(v, p):
    """even-odd ray casting for an arbitrary simple polygon (concave outlines of 3-sector cells); None within 1e-9 of an edge"""
    v = np.asarray(v)
    scale = np.abs(v - v.mean()).max()
    if _on_boundary(v, p, 1e-9 * scale):
        return None
    x, y = p.real, p.imag
    cnt = 0
    for i in range(len(v)):
        a, b = v[i], v[(i + 1) % len(v)]
        if (a.imag > y) != (b.imag > y):
            xi = a.real + (y - a.imag) * (b.real - a.real) / (b.imag - a.imag)
            if xi > x:
                cnt += 1
    return cnt % 2 == 1


def _on_boundary(v, p, tol):
    best = np.inf
    for i in range(len(v)):
        a, b = v[i], v[(i + 1) % len(v)]
        t = ((p - a) * (b - a).conjugate()).real / abs(b - a) ** 2
        t = min(max(t, 0), 1)
        best = min(best, abs(p - (a + t * (b - a))))
    return best <= tol


def _rot_grid():
    step = 15 if quick() else 1
    return list(range(-720, 721, step)) + [0.5, 33.3, -17.25]


@obligation("cell/moves_carry_users_and_sectors", params=[{"cls": k, "move": m} for k in ("Cell", "CellSquare", "Cell3Sec")
                                                         for m in ("pos_setter", "relative", "relative_polar")], timeout=200,
            desc="frame of moving a populated cell: after cell.pos = q, move_by_relative_coordinate(d) or "
                 "move_by_relative_polar_coordinate(r, a) (symbolic everything) the cell is at the new position, every associated user "
                 "has moved by exactly the same vector (so it keeps its place inside the cell), and the sectors of a Cell3Sec are where "
                 "_calc_sectors_positions puts them for the new position")
def ob_moves(cls, move):
    def body(c, it):
        from pyphysim.cell import cell as cm
        from pyphysim.cell import shapes
        pos, q, d = c.var("pos", "complex"), c.var("q", "complex"), c.var("d", "complex")
        rad = c.var("radius", "real")
        c.assume(rad > 0)
        o = it.call(getattr(cm, cls), [pos, rad, 7, 0.0])
        users = []
        for i in range(2):
            u = it.call(cm.Node, [c.var("u%d" % i, "complex")])
            it.call(cm.AccessPoint.add_user, [o, u])          # association only: where the user sits inside the cell is irrelevant here
            users.append(u)
        before = [sym.to_complex(it.getattr(u, "pos")) for u in users]
        secs0 = None
        if cls == "Cell3Sec":
            secs0 = [sym.to_complex(it.getattr(it.getattr(o, "_sec%d" % k), "pos")) for k in (1, 2, 3)]
        if move == "pos_setter":
            it.setattr(o, "pos", q)
            delta = sym.to_complex(q) - sym.to_complex(pos)
        elif move == "relative":
            it.call(it.getattr(o, "move_by_relative_coordinate"), [d])
            delta = sym.to_complex(d)
        else:
            r, a = c.var("r", "real"), c.var("a", "real")
            it.call(it.getattr(o, "move_by_relative_polar_coordinate"), [r, a])
            delta = sym.SComplex(r * a.cos(), r * a.sin())
        newpos = sym.to_complex(it.getattr(o, "pos"))
        goals = [Goal("cell is at the new position", newpos == sym.to_complex(pos) + delta)]
        for i, u in enumerate(users):
            goals.append(Goal("user %d moved by the same vector" % i, sym.to_complex(it.getattr(u, "pos")) == before[i] + delta))
        if secs0 is not None:
            for k in (1, 2, 3):
                now = sym.to_complex(it.getattr(it.getattr(o, "_sec%d" % k), "pos"))
                goals.append(Goal("sector %d moved with the cell" % k, now == secs0[k - 1] + delta))
        return goals
    return verify(body, check_side=False)


def _ideal_hex_lattice(n):
    """the hexagonal layout of the documentation, written independently (exact up to sqrt 3 evaluated with 50 digits): centre, first
    ring at distance 2h and angles 30 + 60k degrees, second ring alternating corner (3 r, angle 60k) / edge (4h, angle 30 + 60k)"""
    import mpmath as mp
    mp.mp.dps = 50
    h = mp.sqrt(3) / 2
    pts = [mp.mpc(0)]
    for k in range(6):
        pts.append(mp.mpc(2 * h) * mp.expjpi(mp.mpf(30 + 60 * k) / 180))
    for k in range(12):
        d = 3 if k % 2 == 0 else 4 * h
        pts.append(mp.mpc(d) * mp.expjpi(mp.mpf(30 * k) / 180))
    return pts[:n]


def _const_complex(v):
    """the exact rational value of a symbolic constant (no free variables)"""
    v = sym.to_complex(v)
    out = []
    for part in (v.re, v.im):
        t = z3.simplify(lift(part).t)
        if not z3.is_rational_value(t) and not z3.is_int_value(t):
            return None
        out.append(t.as_fraction() if z3.is_rational_value(t) else t.as_long())
    return out


@obligation("cluster/layout_symbolic", params=[{"type": "simple", "n": n} for n in (2, 3, 7, 19)] + [{"type": "square", "n": n} for n in (1, 4, 9)]
            + [{"type": "3sec", "n": n} for n in (3, 7)] + [{"type": "square", "n": 4, "after": "simple"}, {"type": "simple", "n": 4, "after": "square"},
               {"type": "simple", "n": 4, "after": "3sec"}], timeout=300,
            desc="Cluster(cell_radius r, n, pos p, type, rotation t) with symbolic r > 0, p and t: every cell has radius r (squares: side r), rotation t and id "
                 "index+1, and its centre is EXACTLY p + e^{jt} r (N_i - mean N) where N is the unit layout the routine computes for r = 1, "
                 "t = 0 (so cells are congruent, the cluster is centred at p, and rotation/scale/translation act rigidly); the unit layout is "
                 "within 1e-14 of the hexagonal lattice (neighbours 2 apothems = sqrt 3 apart) resp. exactly the integer square grid (one "
                 "side apart); cell positions are not shared with the class-level layout table (a second cluster is unaffected; a cluster of ANOTHER "
                 "cell type with the same number of cells laid out earlier in the process changes nothing); 3-sector cells: every sector is "
                 "the hexagon of radius r/sqrt 3 at cell centre + e^{jt} r S_k with rotation t - 30")
def ob_cluster_layout(type, n, after=None):
    def body(c, it):
        from pyphysim.cell import cell as cm
        r, t = c.var("r", "real"), c.var("t", "real")
        p = c.var("p", "complex")
        c.assume(r > 0)
        if after is not None:          # another kind of cluster with the same number of cells was laid out earlier in this process
            it.call(cm.Cluster, [lift(3), n, 0, None, after, 0.0])
        unit = it.call(cm.Cluster._calc_cell_positions, [lift(1), n, type, None])
        N = [_const_complex(unit[i, 0]) for i in range(n)]
        goals = [Goal("unit layout is a table of constants", all(x is not None for x in N))]
        if not goals[0].cond:
            return goals
        Nc = [complex(float(a), float(b)) for a, b in N]
        if type == "square":
            k = int(round(math.sqrt(n)))
            want = sorted((x - (k - 1) / 2.0, y - (k - 1) / 2.0) for x in range(k) for y in range(k))
            got = sorted((float(a), float(b)) for a, b in N)
            goals.append(Goal("unit layout == integer grid centred at 0 (one side apart), exactly", got == want))
        else:
            import mpmath as mp
            ideal = _ideal_hex_lattice(n)
            mean = sum(ideal) / n
            err = max(abs(mp.mpc(float(a), float(b)) - (q - mean)) for (a, b), q in zip(N, ideal))
            goals.append(Goal("unit layout within 1e-14 of the hexagonal lattice (max error %s)" % mp.nstr(err, 3), err <= mp.mpf("1e-14")))
        cl = it.call(cm.Cluster, [r, n, p, None, type, t])
        cells = it.getattr(cl, "_cells")
        goals.append(Goal("n cells", len(cells) == n))
        th = np.pi * t / 180.0
        e = sym.SComplex(lift(th).cos(), lift(th).sin())
        for i, cell in enumerate(cells):
            pos = sym.to_complex(it.getattr(cell, "pos"))
            spec = sym.to_complex(p) + e * (sym.SComplex(lift(N[i][0]), lift(N[i][1])) * r)
            goals.append(Goal("cell %d centre == p + e^{jt} r N_%d" % (i + 1, i), cfrac_eq(pos, spec)))
            rad_spec = r if type != "square" else r * lift(math.sqrt(2.0)) / 2      # a square cell's "radius" is its half diagonal
            goals.append(Goal("cell %d size, rotation, id" % (i + 1),
                              (lift(it.getattr(cell, "radius")) == rad_spec) & cfrac_eq(it.getattr(cell, "rotation"), t) & lift(it.getattr(cell, "id") == i + 1)))
        if type == "3sec":
            import mpmath as mp
            c1 = it.call(cm.Cell3Sec, [0, lift(1), None, 0.0])
            S = [_const_complex(it.getattr(it.getattr(c1, "_sec%d" % k), "pos")) for k in (1, 2, 3)]
            rho = _const_complex(it.getattr(c1, "secradius"))
            ok = all(x is not None for x in S) and rho is not None
            goals.append(Goal("unit sector layout is a table of constants", ok))
            if ok:
                ideal = [mp.expjpi(mp.mpf(a) / 180) / mp.sqrt(3) for a in (210, 330, 90)]
                err = max([abs(mp.mpc(float(a), float(b)) - q) for (a, b), q in zip(S, ideal)] + [abs(mp.mpf(float(rho[0])) - 1 / mp.sqrt(3))])
                goals.append(Goal("unit sectors: centres at distance 1/sqrt(3) and angles 210/330/90 degrees, sector radius 1/sqrt(3) "
                                  "(max error %s)" % mp.nstr(err, 3), err <= mp.mpf("1e-15")))
                for i, cell in enumerate(cells):
                    cpos = sym.to_complex(it.getattr(cell, "pos"))
                    for k in (1, 2, 3):
                        sec = it.getattr(cell, "_sec%d" % k)
                        spec = cpos + e * (sym.SComplex(lift(S[k - 1][0]), lift(S[k - 1][1])) * r)
                        goals.append(Goal("cell %d sector %d: centre == cell centre + e^{jt} r S_%d, radius r/sqrt 3, rotation t - 30" % (i + 1, k, k),
                                          cfrac_eq(it.getattr(sec, "pos"), spec) & (lift(it.getattr(sec, "radius")) == r * lift(rho[0]))
                                          & cfrac_eq(it.getattr(sec, "rotation"), t - 30)))
        if after is not None:
            return goals
        cl2 = it.call(cm.Cluster, [lift(2), n, 0, None, type, 0.0])
        for i, cell in enumerate(it.getattr(cl2, "_cells")):
            pos = sym.to_complex(it.getattr(cell, "pos"))
            goals.append(Goal("second cluster (r = 2, no rotation): cell %d at 2 N_%d" % (i + 1, i),
                              cfrac_eq(pos, sym.SComplex(lift(N[i][0]) * 2, lift(N[i][1]) * 2))))
        return goals

    def rp(mv):
        from pyphysim.cell import cell as cm
        try:
            for (rad, pos, rot) in ((1.0, 0j, 0.0), (2.5, 3 - 1j, 40.0), (0.3, -7 + 2j, -115.0), (1.0, 0j, 0.0)):
                cl = cm.Cluster(rad, n, pos, None, type, rot)
                P = np.array([x.pos for x in cl._cells])
                cl0 = cm.Cluster(1.0, n, 0j, None, type, 0.0)
                N0 = np.array([x.pos for x in cl0._cells])
                want = pos + np.exp(1j * np.pi * rot / 180) * rad * N0
                if not (np.abs(P - want).max() <= 1e-9 * max(1.0, abs(pos), rad)):
                    return {"confirmed": True, "cell_radius": rad, "pos": str(pos), "rotation": rot, "type": type, "n": n,
                            "cell centres": [str(x) for x in P], "expected (rigid image of the unit layout)": [str(x) for x in want]}
                if not (abs(P.mean() - pos) <= 1e-9 * max(1.0, abs(pos), rad)):
                    return {"confirmed": True, "what": "cluster not centred at its position", "centroid": str(P.mean()), "pos": str(pos)}
            return {"confirmed": False, "note": "real clusters are rigid images of the unit layout"}
        except Exception as ex:
            return {"confirmed": False, "error": "replay crashed: %r" % (ex,)}
    return verify(body, check_side=False, timeout_ms=60000, replay=rp)


@obligation("cell3sec/sectors_follow_the_setters", params=[{"first": f} for f in ("radius", "rotation", "pos")], timeout=300,
            desc="class invariant of a 3-sector cell after every sequence of up to three public setter calls starting with `first` (radius =, "
                 "rotation =, pos = with fresh symbolic values): sector k is the hexagon of radius (current radius)/sqrt 3 (binary64 "
                 "constant) centred at cell centre + e^{j rotation} (current radius) S_k with rotation (current rotation) - 30, where S_k "
                 "are the unit sector centres of cluster/layout_symbolic - so users placed in a sector lie inside the CURRENT cell")
def ob_cell3sec_setters(first):
    seqs = [(first,)] + [(first, b) for b in ("radius", "rotation", "pos")] + \
           [(first, b, d) for b in ("radius", "rotation", "pos") for d in ("radius", "rotation", "pos") if b != d or b != first]

    def one(seq):
        def body(c, it):
            from pyphysim.cell import cell as cm
            c1 = it.call(cm.Cell3Sec, [0, lift(1), None, 0.0])
            S = [_const_complex(it.getattr(it.getattr(c1, "_sec%d" % k), "pos")) for k in (1, 2, 3)]
            rho = _const_complex(it.getattr(c1, "secradius"))
            goals = [Goal("unit sector layout is a table of constants", all(x is not None for x in S) and rho is not None)]
            if not goals[0].cond:
                return goals
            st = {"radius": c.var("r0", "real"), "rotation": c.var("t0", "real"), "pos": c.var("p0", "complex")}
            c.assume(st["radius"] > 0)
            o = it.call(cm.Cell3Sec, [st["pos"], st["radius"], 5, st["rotation"]])
            for i, op in enumerate(seq):
                v = c.var("%s%d" % (op[0], i + 1), "complex" if op == "pos" else "real")
                if op == "radius":
                    c.assume(v > 0)
                it.setattr(o, op, v)
                st[op] = v
                th = np.pi * st["rotation"] / 180.0
                e = sym.SComplex(lift(th).cos(), lift(th).sin())
                conj = []
                for k in (1, 2, 3):
                    sec = it.getattr(o, "_sec%d" % k)
                    spec = sym.to_complex(st["pos"]) + e * (sym.SComplex(lift(S[k - 1][0]), lift(S[k - 1][1])) * st["radius"])
                    conj.append(cfrac_eq(it.getattr(sec, "pos"), spec).t)
                    conj.append((lift(it.getattr(sec, "radius")) == st["radius"] * lift(rho[0])).t)
                    conj.append(cfrac_eq(it.getattr(sec, "rotation"), st["rotation"] - 30).t)
                conj.append(cfrac_eq(it.getattr(o, "pos"), st["pos"]).t)
                conj.append((lift(it.getattr(o, "radius")) == st["radius"]).t)
                goals.append(Goal("after %s: cell and sectors are where the current radius / rotation / position put them" % " > ".join(seq[:i + 1]),
                                  sym.SBool(z3.And(conj))))
            return goals

        def rp(mv):
            # history replay on the real class
            from pyphysim.cell import cell as cm
            try:
                o = cm.Cell3Sec(1 + 2j, 3.0, 5, 20.0)
                vals = {"radius": [1.2, 4.5, 0.7], "rotation": [-40.0, 75.0, 10.0], "pos": [-3 + 1j, 8 - 2j, 0.5j]}
                cur = {"radius": 3.0, "rotation": 20.0, "pos": 1 + 2j}
                for i, op in enumerate(seq):
                    setattr(o, op, vals[op][i])
                    cur[op] = vals[op][i]
                    ref = cm.Cell3Sec(cur["pos"], cur["radius"], 5, cur["rotation"])
                    for k in (1, 2, 3):
                        a, b = getattr(o, "_sec%d" % k), getattr(ref, "_sec%d" % k)
                        if (not (abs(a.pos - b.pos) <= 1e-9 * cur["radius"])) or (not (abs(a.radius - b.radius) <= 1e-12 * cur["radius"])) \
                                or (not (abs(a.rotation - b.rotation) <= 1e-12)):
                            return {"confirmed": True, "history": ["%s = %r" % (q, vals[q][j]) for j, q in enumerate(seq[:i + 1])], "sector": k,
                                    "sector (pos, radius, rotation)": [str(a.pos), a.radius, a.rotation],
                                    "a cell built with the current values has": [str(b.pos), b.radius, b.rotation]}
                return {"confirmed": False, "note": "real sectors follow the setters in this history"}
            except Exception as e:
                return {"confirmed": False, "error": "replay crashed: %r" % (e,)}
        return verify(body, check_side=False, timeout_ms=60000, replay=rp)
    return merge([one(sq) for sq in seqs])


@obligation("cluster/distance_matrices_are_euclidean", params=[{"type": t} for t in ("simple", "square")], timeout=300,
            desc="Cluster of 2 (hexagon) / 4 (square) cells at an ARBITRARY symbolic cluster position (radius 2) and users at ARBITRARY "
                 "symbolic positions (associated with their cells): both calc_dist_all_users_to_each_cell and the no-wrap-around variant "
                 "return a (users x cells) matrix whose entry (i, j) is non-negative with square exactly |u_i - c_j|^2 for the CURRENT cell "
                 "centres - for every position, near or far from the origin; also after a cell was moved")
def ob_cluster_distances(type):
    def body(c, it):
        from pyphysim.cell import cell as cm
        p = c.var("p", "complex")
        n = 2 if type == "simple" else 4
        cl = it.call(cm.Cluster, [lift(2), n, p, None, type, 0.0])          # any translation p of a cluster of radius 2
        cells = it.getattr(cl, "_cells")
        users = []
        for k in (0, n - 1):
            u = it.call(cm.Node, [c.var("u%d" % k, "complex")])
            it.call(cm.AccessPoint.add_user, [cells[k], u])          # association only: where the user sits is arbitrary
            users.append(u)
        goals = []
        for step in ("as built", "after moving a cell"):
            if step != "as built":
                it.setattr(cells[0], "pos", c.var("q", "complex"))          # its user travels with it
            upos = [sym.to_complex(it.getattr(u, "pos")) for u in users]
            cpos = [sym.to_complex(it.getattr(x, "pos")) for x in cells]
            for meth in ("calc_dist_all_users_to_each_cell", "calc_dist_all_users_to_each_cell_no_wrap_around"):
                M = np.asarray(it.call(it.getattr(cl, meth), []), dtype=object)
                goals.append(Goal("[%s] %s: shape (users, cells)" % (step, meth), M.shape == (len(users), n)))
                if M.shape != (len(users), n):
                    continue
                conj, nonneg = [], []
                for i in range(len(users)):
                    for j in range(n):
                        d = upos[i] - cpos[j]
                        m = lift(M[i, j]).to_real() if hasattr(lift(M[i, j]), "to_real") else lift(M[i, j])
                        conj.append(frac_eq(m * m, d.re * d.re + d.im * d.im).t)
                        # non-negative by construction: the entry is the principal square root (the modulus) of that square
                        nonneg.append(z3.BoolVal(z3.is_app(m.t) and m.t.decl().name().startswith("sqrt")))
                goals.append(Goal("[%s] %s: every entry squared == |u_i - c_j|^2 for the current cell centres" % (step, meth), sym.SBool(z3.And(conj))))
                goals.append(Goal("[%s] %s: every entry is a principal square root (hence >= 0)" % (step, meth), sym.SBool(z3.And(nonneg))))
        return goals

    def rp(mv):
        from pyphysim.cell import cell as cm
        try:
            rr = np.random.RandomState(3)
            for pos, rad in ((0j, 1.0), (448251 + 5411932j, 500.0), (-3e6 + 2e6j, 50.0)):
                np.random.seed(7)
                cl = cm.Cluster(rad, 3 if type == "simple" else 4, pos, None, type, 20.0)
                cl.add_random_users(None, 5)
                U = np.array([u.pos for u in cl.get_all_users()])
                P = np.array([x.pos for x in cl])
                want = np.abs(U.reshape(-1, 1) - P.reshape(1, -1))
                for meth in ("calc_dist_all_users_to_each_cell", "calc_dist_all_users_to_each_cell_no_wrap_around"):
                    M = getattr(cl, meth)()
                    if M.shape != want.shape or (not (np.abs(M - want).max() <= 1e-9 * rad + 1e-12 * abs(pos))):
                        return {"confirmed": True, "cluster position": str(pos), "cell radius": rad, "method": meth,
                                "max |matrix - Euclidean distance|": float(np.abs(M - want).max()) if M.shape == want.shape else "shape"}
            return {"confirmed": False, "note": "real distance matrices are Euclidean near and far from the origin"}
        except Exception as e:
            return {"confirmed": False, "error": "replay crashed: %r" % (e,)}
    return verify(body, check_side=False, timeout_ms=60000, replay=rp)


@obligation("hexagon/vertices_regular_and_rigid",
            desc="Hexagon(pos, r, rotation) with symbolic pos, r > 0 and rotation: the six vertices are EXACTLY pos + e^{j rot} r U_k where U is "
                 "what the routine gives for the unit hexagon at the origin, and U is within 1e-15 of the regular hexagon's corners "
                 "e^{j(240 + 60 k) deg} (so every vertex is r from the centre and consecutive vertices are r apart); height == r sqrt(3)/2")
def ob_hexagon():
    def body(c, it):
        from pyphysim.cell import shapes
        import mpmath as mp
        mp.mp.dps = 50
        r, t = c.var("r", "real"), c.var("t", "real")
        p = c.var("p", "complex")
        c.assume(r > 0)
        h1 = it.call(shapes.Hexagon, [0, lift(1), 0])
        U = [_const_complex(v) for v in it.call(it.getattr(h1, "_get_vertex_positions"), [])]
        goals = [Goal("unit hexagon is a table of six constants", len(U) == 6 and all(u is not None for u in U))]
        if not goals[0].cond:
            return goals
        err = max(abs(mp.mpc(float(a), float(b)) - mp.expjpi(mp.mpf(240 + 60 * k) / 180)) for k, (a, b) in enumerate(U))
        goals.append(Goal("unit vertices within 1e-15 of the regular hexagon (max error %s)" % mp.nstr(err, 3), err <= mp.mpf("1e-15")))
        hx = it.call(shapes.Hexagon, [p, r, t])
        V = it.getattr(hx, "vertices")
        th = np.pi * t / 180.0
        e = sym.SComplex(lift(th).cos(), lift(th).sin())
        goals.append(Goal("six vertices", np.shape(V) == (6,)))
        for k in range(min(6, len(V))):
            spec = sym.to_complex(p) + e * (sym.SComplex(lift(U[k][0]), lift(U[k][1])) * r)
            goals.append(Goal("vertex %d == pos + e^{j rot} r U_%d" % (k, k), cfrac_eq(V[k], spec)))
        hh = lift(it.getattr(hx, "height"))
        goals.append(Goal("height == r * (binary64 sqrt(3))/2", hh * 2 == r * lift(math.sqrt(3.0))))
        return goals
    return verify(body, check_side=False, timeout_ms=60000)


@obligation("native/shapes_containment_and_border", kind="bounded", timeout=1500,
            desc="hexagon / rectangle / circle x positions x radii over 4 decades x rotations in [-720,720]: is_point_inside_shape agrees "
                 "with the polygon (disc) of the shape's own vertices on random points (edge band 1e-9 excluded); border point for angles on "
                 "a 7.5 degree grid lies on the boundary in exactly that direction; ratio in {0, .3, 1} scales it towards the centre")
def ob_native_shapes():
    from pyphysim.cell import shapes
    r = stable_rng("C19shapes")

    def gen():
        rots = _rot_grid()
        for i, rot in enumerate(rots):
            yield {"rot": float(rot), "kind": ["hex", "rect", "circle"][i % 3], "seed": int(r.randint(1 << 30))}
            if i % 4 == 0:
                yield {"rot": float(rot), "kind": ["hex", "rect"][(i // 4) % 2], "seed": int(r.randint(1 << 30)), "far": [3e5, 1e6, 2e4][(i // 8) % 3]}

    def check(case):
        rr = np.random.RandomState(case["seed"])
        pos = complex(rr.uniform(-50, 50), rr.uniform(-50, 50))
        rad = float(10 ** rr.uniform(-2, 2))
        if case.get("far"):
            # "every position": a cell that is small compared with its coordinates (a 50 m cell in map coordinates of thousands of km)
            pos = complex(rr.uniform(-1, 1), rr.uniform(-1, 1)) * rad * case["far"]
        far_slack = 1e-13 * abs(pos)          # coordinates of size |pos| carry a rounding error of that order
        rot = case["rot"]
        if case["kind"] == "hex":
            sh = shapes.Hexagon(pos, rad, rot)
        elif case["kind"] == "rect":
            w = h = rad * rr.uniform(0.3, 1)          # squares here; non-square border points: native/rectangle_non_square_border_point
            if (not (rr.rand() >= 0.5)):
                hh = rad * rr.uniform(0.3, 1)
                shc = shapes.Rectangle(pos - w - 1j * hh, pos + w + 1j * hh, rot)
                vc = shc.vertices
                for _ in range(40):
                    p = pos + rad * 1.5 * complex(rr.uniform(-1, 1), rr.uniform(-1, 1))
                    want = _poly_member(vc, p)
                    if want is not None and bool(shc.is_point_inside_shape(p)) != want:
                        return {"shape": "rect (non-square)", "rotation": rot, "point": str(p), "is_point_inside_shape": bool(shc.is_point_inside_shape(p)),
                                "inside own vertices": want}
            sh = shapes.Rectangle(pos - w - 1j * h, pos + w + 1j * h, rot)
            rad = abs(w + 1j * h)
        else:
            sh = shapes.Circle(pos, rad)
        v = sh.vertices
        for _ in range(40):
            p = pos + rad * 1.3 * complex(rr.uniform(-1, 1), rr.uniform(-1, 1))
            got = bool(sh.is_point_inside_shape(p))
            if case["kind"] == "circle":
                if (not (abs(abs(p - pos) - rad) >= 1e-9 * rad)):
                    continue
                want = abs(p - pos) < rad
            else:
                want = _poly_member(v, p)
                if want is None:
                    continue
            if got != want:
                return {"shape": case["kind"], "pos": str(pos), "radius": rad, "rotation": rot, "point": str(p),
                        "is_point_inside_shape": got, "inside own vertices": want}
        for ang in np.arange(-180, 180, 7.5 if quick() else 0.5):
            for ratio in (None, 1.0, 0.3, 0.0):
                bp = sh.get_border_point(float(ang), ratio)
                full = sh.get_border_point(float(ang), 1.0)
                if case["kind"] == "circle":
                    onb = abs(abs(full - pos) - rad) <= 1e-9 * rad
                else:
                    onb = _on_boundary(v, full, 1e-9 * rad + far_slack)
                if not onb:
                    return {"shape": case["kind"], "pos": str(pos), "radius": rad, "rotation": rot, "angle": float(ang), "border point not on the boundary": str(full)}
                d = (full - pos) / abs(full - pos)
                want_dir = np.exp(1j * np.pi * ang / 180)
                if (not (abs(d - want_dir) <= 1e-7 + far_slack / rad)):
                    return {"shape": case["kind"], "pos": str(pos), "radius": rad, "rotation": rot, "angle": float(ang), "direction": [str(d), str(want_dir)]}
                rt = 1.0 if ratio is None else ratio
                if (not (abs(bp - (pos + rt * (full - pos))) <= 1e-9 * rad + far_slack)):
                    return {"shape": case["kind"], "rotation": rot, "angle": float(ang), "ratio": ratio,
                            "border point": str(bp), "expected": str(pos + rt * (full - pos))}
        return None
    return bounded(gen(), check)


@obligation("native/users_inside_cells", kind="bounded", timeout=1500,
            desc="Cell, CellSquare, Cell3Sec (also after changing radius / rotation / pos through the setters and after moving the populated "
                 "cell with pos = / move_by_relative_coordinate / move_by_relative_polar_coordinate): add_random_user(s) with "
                 "min_dist_ratio, add_random_users_in_sector, add_border_user incl. ratio 0 and 1: every user inside the polygon of the "
                 "cell's own vertices, at least ratio*radius from the centre; border users on the ray at ratio * boundary distance")
def ob_native_users():
    from pyphysim.cell import cell as cm
    r = stable_rng("C19users")

    def gen():
        for i in range(60 if quick() else 600):
            yield {"seed": int(r.randint(1 << 30)), "kind": ["hex", "square", "3sec"][i % 3]}
            if i % 6 < 2:
                yield {"seed": int(r.randint(1 << 30)), "kind": ["hex", "square"][i % 6], "demanding": True}
            if i < 8:
                # 3-sector cells re-sized (and turned / moved) through the setters before users are placed in the sectors
                yield {"seed": int(r.randint(1 << 30)), "kind": "3sec", "ops": [["shrink"], ["grow"], ["shrink", 1], ["grow", "shrink"],
                                                                              [1, "shrink"], [2, "grow"], ["shrink", 3], ["grow", 1]][i]}

    def hull_ok(v, p, rad):
        if len(v) == 6 or len(v) == 4:
            m = _poly_member(v, p)
            return True if m is None else m
        return True

    def check(case):
        rr = np.random.RandomState(case["seed"])
        np.random.seed(case["seed"] % (2**31))
        pos = complex(rr.uniform(-20, 20), rr.uniform(-20, 20))
        rad = float(10 ** rr.uniform(-1, 1.5))
        rot = float(rr.choice([0, 30, 45, 90, -17.5, 200, 361]))
        if case["kind"] == "hex":
            ce = cm.Cell(pos, rad, 1, rot)
        elif case["kind"] == "square":
            ce = cm.CellSquare(pos, rad, 1, rot)
        else:
            ce = cm.Cell3Sec(pos, rad, 1, rot)
            forced = list(case.get("ops", []))
            for _ in range(len(forced) if forced else int(rr.randint(0, 3))):
                w = forced.pop(0) if forced else rr.randint(4)
                if w == "shrink":
                    ce.radius = float(rad * 0.3)
                elif w == "grow":
                    ce.radius = float(rad * 2.5)
                elif w == 0:
                    ce.radius = float(rad * rr.uniform(0.2, 2))
                elif w == 1:
                    ce.rotation = float(rr.uniform(-90, 90))
                elif w == 2:
                    ce.pos = complex(rr.uniform(-20, 20), rr.uniform(-20, 20))
                else:
                    ce.move_by_relative_coordinate(complex(rr.uniform(-20, 20), rr.uniform(-20, 20)))
        md = float(rr.choice([0.0, 0.3, 0.6]))
        nusers = 8
        if case.get("demanding"):
            # many users at a minimum distance that leaves only a small part of the cell (corners of a square, rim of a hexagon):
            # "always inside their cell and no closer to its centre than requested" - for every user, not for most
            md = float(rr.choice([0.65, 0.7] if case["kind"] == "square" else [0.8, 0.85]))
            nusers = 150 if quick() else 1500
        ce.add_random_users(nusers, None, md)
        if case["kind"] == "3sec":
            for sct in (1, 2, 3):
                ce.add_random_users_in_sector(5, sct)
        # a populated cell may be moved: its users (and sectors) move with it
        mv = case["seed"] % 4
        if mv == 1:
            ce.move_by_relative_coordinate(complex(rr.uniform(-20, 20), rr.uniform(-20, 20)))
        elif mv == 2:
            ce.move_by_relative_polar_coordinate(float(rr.uniform(0, 30)), float(rr.uniform(-4, 4)))
        elif mv == 3:
            ce.pos = complex(rr.uniform(-20, 20), rr.uniform(-20, 20))
        v = ce.vertices
        for u in ce.users:
            if case["kind"] == "3sec":
                # the 3-sector cell is the union of three hexagons: use the cell's own containment of its outline
                inside = any(_poly_member(s.vertices, u.pos) is not False for s in (ce._sec1, ce._sec2, ce._sec3))
                # outline given by the cell's own vertices (12 points, non-convex): ray casting
                x, y = u.pos.real, u.pos.imag
                cnt = 0
                for i in range(len(v)):
                    a, b = v[i], v[(i + 1) % len(v)]
                    if (a.imag > y) != (b.imag > y):
                        xi = a.real + (y - a.imag) * (b.real - a.real) / (b.imag - a.imag)
                        if (not (xi <= x)):
                            cnt += 1
                inside_outline = cnt % 2 == 1
                dmin = min(abs(u.pos - (a + min(max(((u.pos - a) * (b - a).conjugate()).real / abs(b - a) ** 2, 0), 1) * (b - a)))
                           for a, b in zip(v, np.roll(v, -1)))
                if not inside_outline and (not (dmin <= 1e-9 * ce.radius)):
                    return {"3-sector cell: user outside the cell's own vertices": str(u.pos), "pos": str(ce.pos), "radius": ce.radius,
                            "rotation": ce.rotation}
            else:
                m = _poly_member(v, u.pos)
                if m is False:
                    return {"user outside the cell": str(u.pos), "kind": case["kind"], "rotation": rot}
        for u in ce.users[:nusers]:
            if (not (abs(u.pos - ce.pos) >= md * ce.radius * (1 - 1e-12))):
                return {"user closer than min_dist_ratio*radius": [abs(u.pos - ce.pos), md * ce.radius]}
        if case["kind"] != "3sec":
            for ang in (0.0, 10.0, 90.0, 200.0):
                for ratio in (0.0, 0.5, 1.0):
                    n0 = ce.num_users
                    ce.add_border_user(ang, ratio)
                    u = ce.users[-1]
                    full = ce.get_border_point(ang, 1.0)
                    want = ce.pos + min(ratio, 1 - 1e-15) * (full - ce.pos)
                    if ce.num_users != n0 + 1 or (not (abs(u.pos - want) <= 1e-9 * ce.radius)):
                        return {"border user": str(u.pos), "expected": str(want), "angle": ang, "ratio": ratio}
        return None
    return bounded(gen(), check)


@obligation("native/wrapped_cells_follow_the_original", kind="bounded", timeout=600,
            desc="CellWrap of a hexagonal / square / 3-sector cell, queried, then the ORIGINAL cell's radius / rotation changed through its "
                 "setters (the wrap takes both from the original), queried again: each time is_point_inside_shape of the wrap agrees with "
                 "the polygon of the wrap's own current vertices on random points (edge band excluded)")
def ob_native_wrap():
    from pyphysim.cell import cell as cm
    r = stable_rng("C19wrap")

    def gen():
        for i in range(40 if quick() else 400):
            yield {"seed": int(r.randint(1 << 30)), "kind": ["hex", "square", "3sec"][i % 3]}

    def check(case):
        rr = np.random.RandomState(case["seed"])
        pos = complex(rr.uniform(-5, 5), rr.uniform(-5, 5))
        rad = float(10 ** rr.uniform(-0.5, 1))
        rot = float(rr.choice([0, 30, 45, -17.5]))
        orig = {"hex": cm.Cell, "square": cm.CellSquare, "3sec": cm.Cell3Sec}[case["kind"]](pos, rad, 1, rot)
        w = cm.CellWrap(complex(rr.uniform(-30, 30), rr.uniform(-30, 30)), orig)
        for step in range(4):
            v = np.asarray(w.vertices)
            ext = 2.5 * max(abs(v - w.pos))
            for _ in range(60):
                p = w.pos + complex(rr.uniform(-ext, ext), rr.uniform(-ext, ext))
                m = _polygon_member(v, p) if case["kind"] == "3sec" else _poly_member(v, p)      # the 3-sector outline is concave
                if m is None:
                    continue
                got = bool(w.is_point_inside_shape(p))
                if got != m:
                    return {"step": step, "kind": case["kind"], "radius": w.radius, "rotation": w.rotation, "point": str(p),
                            "is_point_inside_shape": got, "inside the wrap's own vertices": m}
            if step % 2 == 0:
                orig.radius = float(orig.radius * rr.choice([0.4, 2.5]))
            else:
                orig.rotation = float(orig.rotation + rr.choice([15.0, 40.0, -75.0]))
        return None
    return bounded(gen(), check)


@obligation("native/cluster_layout", kind="bounded", timeout=1500,
            desc="Cluster of every supported size {1,3,4,7,13,19} (hexagon, 3sec) and square grids {1,4,9,16} x rotations x radii x positions: "
                 "cells congruent, neighbouring centres exactly two apothems (squares: one side) apart and none closer (no overlap), "
                 "hexagon clusters keep their documented centring under rotation, user-to-cell distance matrix == Euclidean distances; "
                 "non-square num_cells rejected for square grids")
def ob_native_cluster():
    from pyphysim.cell import cell as cm
    r = stable_rng("C19cluster")

    def gen():
        rots = [0, 30, 45, 90, -60, 17.3, 360, -720] if quick() else list(range(-720, 721, 15)) + [17.3]
        for rot in rots:
            for n in (1, 3, 4, 7, 13, 19):
                for typ in ("simple", "3sec"):
                    yield {"n": n, "type": typ, "rot": float(rot), "seed": int(r.randint(1 << 30))}
            for n in (1, 4, 9, 16):
                yield {"n": n, "type": "square", "rot": float(rot), "seed": int(r.randint(1 << 30))}

    def check(case):
        rr = np.random.RandomState(case["seed"])
        np.random.seed(case["seed"] % (2**31))
        rad = float(10 ** rr.uniform(-2, 2))
        pos = complex(rr.uniform(-30, 30), rr.uniform(-30, 30))
        cl = cm.Cluster(rad, case["n"], pos, None, case["type"], case["rot"])
        cells = list(cl)
        if len(cells) != case["n"]:
            return {"cells": len(cells)}
        P = np.array([c_.pos for c_ in cells])
        v0 = cells[0].vertices - cells[0].pos
        for c_ in cells[1:]:
            if (not (np.abs((c_.vertices - c_.pos) - v0).max() <= 1e-9 * rad)):
                return {"cells not congruent": True}
        if (not (case["n"] <= 1)):
            D = np.abs(P.reshape(-1, 1) - P.reshape(1, -1))
            np.fill_diagonal(D, np.inf)
            step = rad if case["type"] == "square" else 2 * rad * math.sqrt(3) / 2
            if (not (abs(D.min() - step) <= 1e-9 * rad)):
                return {"closest centres": float(D.min()), "expected": step, "n": case["n"], "type": case["type"], "rot": case["rot"]}
            if np.any(np.abs(D.min(axis=1) - step) > 1e-9 * rad):
                return {"a cell has no neighbour at the lattice distance": True}
        # rotation about the cluster position preserves mutual distances: compare with the unrotated cluster
        cl0 = cm.Cluster(rad, case["n"], pos, None, case["type"], 0.0)
        P0 = np.array([c_.pos for c_ in cl0])
        if (not (np.abs(np.abs(P.reshape(-1, 1) - P.reshape(1, -1)) - np.abs(P0.reshape(-1, 1) - P0.reshape(1, -1))).max() <= 1e-8 * rad)):
            return {"rotation changed mutual distances": case["rot"]}
        if (not (np.abs(np.abs(P - pos) - np.abs(P0 - pos)).max() <= 1e-8 * rad)):
            return {"rotation is not about the cluster position": case["rot"]}
        cl.add_random_users(None, 2)
        users = cl.get_all_users()
        M = cl.calc_dist_all_users_to_each_cell_no_wrap_around()
        want = np.abs(np.array([u.pos for u in users]).reshape(-1, 1) - P.reshape(1, -1))
        if M.shape != want.shape or (not (np.abs(M - want).max() <= 1e-12 * max(1.0, np.abs(want).max()))):
            return {"distance matrix": True}
        # both distance matrices are functions of the CURRENT positions: also after a cell was moved (its users travel with it)
        for step in ("as built", "pos setter", "relative move"):
            if step == "pos setter":
                k = int(rr.randint(len(cells)))
                cells[k].pos = cells[k].pos + complex(rr.uniform(-3, 3), rr.uniform(-3, 3)) * rad
            elif step == "relative move":
                k = int(rr.randint(len(cells)))
                cells[k].move_by_relative_coordinate(complex(rr.uniform(-3, 3), rr.uniform(-3, 3)) * rad)
            users = cl.get_all_users()
            Pc = np.array([c_.pos for c_ in cl])
            want = np.abs(np.array([u.pos for u in users]).reshape(-1, 1) - Pc.reshape(1, -1))
            for meth in ("calc_dist_all_users_to_each_cell", "calc_dist_all_users_to_each_cell_no_wrap_around"):
                M = getattr(cl, meth)()
                if M.shape != want.shape or (not (np.abs(M - want).max() <= 1e-9 * max(1.0, np.abs(want).max()))):
                    return {"distance matrix": meth, "state": step, "max |matrix - Euclidean distance to the current cell centres|":
                            float(np.abs(M - want).max()) if M.shape == want.shape else "shape"}
        return None
    res = bounded(gen(), check)
    if res["status"] == "held":
        for bad in (2, 3, 5, 8):
            try:
                cm.Cluster(1.0, bad, 0j, None, "square", 0.0)
                res["status"] = "failed"
                res["failures"].append({"case": {"square grid num_cells": bad}, "detail": "accepted"})
            except Exception:
                pass
    return res


@obligation("native/distance_matrices_far_from_origin", kind="bounded",
            desc="binary64: clusters in map coordinates (cluster position up to 5e6 with cells of 50 .. 500) and near the origin, hexagon / "
                 "square / 3-sector cells: both user-to-cell distance matrices equal |u - c| computed from the current positions within "
                 "1e-9 * cell radius + 1e-12 * |position| (a formula that is algebraically the same but cancels - |u|^2 + |c|^2 - 2 u.c - loses "
                 "all accuracy there; the ideal-real proof is blind to it by design)")
def ob_native_far_distances():
    from pyphysim.cell import cell as cm
    r = stable_rng("C19far")

    def gen():
        for i in range(24 if quick() else 240):
            yield {"seed": int(r.randint(1 << 30)), "type": ["simple", "square", "3sec"][i % 3], "n": [3, 4, 7][i % 3] if i % 3 != 1 else 4,
                   "pos": [0j, 448251 + 5411932j, -3e6 + 2e6j, 1e4 - 5e6j][(i // 3) % 4], "rad": [1.0, 500.0, 50.0, 200.0][(i // 3) % 4]}

    def check(case):
        rr = np.random.RandomState(case["seed"])
        np.random.seed(case["seed"] % (2 ** 31))
        pos, rad = case["pos"], case["rad"]
        cl = cm.Cluster(rad, case["n"], pos, None, case["type"], float(rr.choice([0.0, 20.0, -35.0])))
        cl.add_random_users(None, 4)
        U = np.array([u.pos for u in cl.get_all_users()])
        P = np.array([x.pos for x in cl])
        want = np.abs(U.reshape(-1, 1) - P.reshape(1, -1))
        for meth in ("calc_dist_all_users_to_each_cell", "calc_dist_all_users_to_each_cell_no_wrap_around"):
            M = getattr(cl, meth)()
            if M.shape != want.shape or (not (np.abs(M - want).max() <= 1e-9 * rad + 1e-12 * abs(pos))):
                return {"cluster position": str(pos), "cell radius": rad, "method": meth,
                        "max |matrix - Euclidean distance|": float(np.abs(M - want).max()) if M.shape == want.shape else "shape"}
        return None
    return bounded(gen(), check)


@obligation("native/rectangle_non_square_border_point", kind="bounded",
            desc="Rectangle 2x1 (non-square), rotation 0: get_border_point(angle) lies on the rectangle boundary in the requested direction")
def ob_rect_border():
    from pyphysim.cell import shapes

    def check(case):
        sh = shapes.Rectangle(-2 - 1j, 2 + 1j, case["rot"])
        v = sh.vertices
        for ang in np.arange(-180, 180, 2.5):
            bp = sh.get_border_point(float(ang), 1.0)
            d = (bp - sh.pos) / abs(bp - sh.pos)
            if not _on_boundary(v, bp, 1e-9) or (not (abs(d - np.exp(1j * np.pi * ang / 180)) <= 1e-7)):
                return {"angle": float(ang), "border point": str(bp), "not on the boundary / wrong direction": True}
        return None
    return bounded([{"rot": 0.0}], check)
