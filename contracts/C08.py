"""C08  Multi-user channel matrix views stay coherent across any sequence of updates.

Functions under contract: MultiUserChannelMatrix.__init__/randomize/init_from_channel_matrix/set_pathloss/
_update_pathloss_big_matrix/H/big_H/get_Hkl/get_Hk/noise_var(setter)/set_post_filter/W/big_W/
corrupt_concatenated_data/corrupt_data/_from_small_matrix_to_big_matrix, the MultiUserChannelMatrixExtInt overrides,
conversion.single_matrix_to_matrix_of_matrices.

Structure (user count, antenna splits) is concrete per configuration; EVERY matrix entry, path-loss value, noise
draw, filter entry and data symbol is symbolic.  Ghost state: (raw global matrix, antenna split, current path loss).
"""
import itertools

import numpy as np
import z3

from pyvc import sym
from pyvc.sym import lift, SComplex
from pyvc.interp import PyRaise
from pyvc.oblig import obligation, verify, bounded, Goal, merge, Inapplicable
from .common import stable_rng, quick, Frame, num

LEVEL = "proof"
EXPLANATION = ("Histories: every sequence of <=3 mutators from {randomize(split A), randomize(split B with the same antenna totals), "
               "init_from_channel_matrix(split B), set_pathloss(P1), set_pathloss(P2), set_pathloss(None)} is symbolically executed on "
               "the real class; after EACH mutator all views are read (which also fills the caches) and compared entry by entry with "
               "the ghost state: H[k,l] == block_kl(big_H) == sqrt(PL_current[k,l]) * raw[k,l], get_Hkl/get_Hk/big_H_no_ext_int alike. "
               "Inductive step: from ANY state whose caches are either empty or coherent, each mutator re-establishes coherence "
               "(any history length, this representation).  Transmission: out == W^H (big_H x + n) with n == last_noise, split by "
               "receive antennas, for all combinations of noise on/off and post-filter on/off.")
ASSUMPTIONS = [
    "configuration-concrete: K=2 users with unequal antenna splits (and one external interference source for the ExtInt class); "
    "entries symbolic complex/real; ideal-real arithmetic; sqrt uninterpreted",
    "random draws (channel, noise) are fresh uninterpreted complex values",
    "history length 3 for the representation-independent form; the inductive step covers any length for the current fields",
]
TRUSTED_BASE = ["numpy slicing/dot/hstack/vstack and scipy block_diag executed natively on object arrays"]
BOUNDS = {"history_length": 3, "K": 2, "splits": "Nr [1,2]/[2,1], Nt [2,1]/[1,2]"}

MU = "pyphysim.channels.multiuser"
SPLIT_A = (np.array([1, 2]), np.array([2, 1]))
SPLIT_B = (np.array([2, 1]), np.array([1, 2]))      # same totals, different block boundaries


def _cmat(c, tag, r, k):
    m = np.empty((r, k), dtype=object)
    for i in range(r):
        for j in range(k):
            m[i, j] = c.var("%s_%d_%d" % (tag, i, j), "complex")
    return m


def _pmat(c, tag, r, k):
    m = np.empty((r, k), dtype=object)
    for i in range(r):
        for j in range(k):
            m[i, j] = c.var("%s_%d_%d" % (tag, i, j), "real")
            c.assume((m[i, j] >= 0) & (m[i, j] <= 1))
    return m


class Ghost:
    def __init__(self):
        self.raw = None
        self.Nr = self.Nt = None
        self.pl = None          # K x Kt or None
        self.K = 2
        self.ext = 0


def _install_models(c, it, draws):
    import pyphysim.util.misc as misc

    def m_randn(interp, RS, *shape):
        m = np.empty(shape, dtype=object)
        for pos in np.ndindex(*shape):
            m[pos] = c.fresh_var("draw", "complex")
        draws.append(m)
        return m
    it.models[misc.randn_c_RS] = m_randn


def _ceq(a, b):
    a, b = sym.to_complex(a), sym.to_complex(b)
    return z3.And((a.re == b.re).t, (a.im == b.im).t)


def _view_goals(c, it, o, g, tag, ext=False):
    """all views against the ghost state"""
    goals = []
    cumr = np.hstack([0, np.cumsum(g.Nr)])
    cumt = np.hstack([0, np.cumsum(g.Nt)])
    K, Kt = g.K, g.K + g.ext
    bigH = it.getattr(o, "big_H")
    H = it.getattr(o, "H")
    shape_ok = isinstance(bigH, np.ndarray) and bigH.shape == (int(cumr[-1]), int(cumt[-1]))
    goals.append(Goal("[%s] big_H shape" % tag, shape_ok))
    if not shape_ok:
        return goals
    conj = []
    for k in range(K):
        for l in range(Kt):
            blk_raw = g.raw[cumr[k]:cumr[k + 1], cumt[l]:cumt[l + 1]]
            scale = 1 if g.pl is None else lift(g.pl[k, l]).sqrt()
            Hkl = H[k, l]
            Hkl2 = it.call(it.getattr(o, "get_Hkl"), [k, l]) if l < K or not ext else Hkl
            if np.shape(Hkl) != blk_raw.shape or np.shape(Hkl2) != blk_raw.shape:
                goals.append(Goal("[%s] H[%d,%d] shape" % (tag, k, l), False))
                continue
            for i in range(blk_raw.shape[0]):
                for j in range(blk_raw.shape[1]):
                    spec = blk_raw[i, j] * scale
                    conj.append(_ceq(Hkl[i, j], spec))
                    conj.append(_ceq(Hkl2[i, j], spec))
                    conj.append(_ceq(bigH[cumr[k] + i, cumt[l] + j], spec))
    goals.append(Goal("[%s] H[k,l] == block(big_H) == sqrt(PL_current) raw, all entries" % tag, sym.SBool(z3.And(conj))))
    conj = []
    for k in range(K):
        Hk = it.call(it.getattr(o, "get_Hk"), [k])
        ok = np.shape(Hk) == (int(g.Nr[k]), int(cumt[-1]))
        if not ok:
            goals.append(Goal("[%s] get_Hk(%d) shape" % (tag, k), False))
            continue
        for i in range(Hk.shape[0]):
            for j in range(Hk.shape[1]):
                conj.append(_ceq(Hk[i, j], bigH[cumr[k] + i, j]))
    goals.append(Goal("[%s] get_Hk rows of big_H" % tag, sym.SBool(z3.And(conj)) if conj else True))
    if ext:
        nt_users = int(cumt[K])
        b2 = it.getattr(o, "big_H_no_ext_int")
        ok = np.shape(b2) == (int(cumr[-1]), nt_users)
        goals.append(Goal("[%s] big_H_no_ext_int shape" % tag, ok))
        if ok:
            goals.append(Goal("[%s] big_H_no_ext_int == user columns of big_H" % tag, sym.SBool(z3.And(
                [_ceq(b2[i, j], bigH[i, j]) for i in range(b2.shape[0]) for j in range(b2.shape[1])]))))
        # the remaining views of the ext-int class: per-receiver rows with / without the external interferers' columns, H without them
        conj, shapes_ok = [], True
        Hn = it.getattr(o, "H_no_ext_int")
        for k in range(K):
            full = np.asarray(it.call(it.getattr(o, "get_Hk_with_ext_int"), [k]), dtype=object)
            part = np.asarray(it.call(it.getattr(o, "get_Hk_without_ext_int"), [k]), dtype=object)
            if full.shape != (int(g.Nr[k]), int(cumt[-1])) or part.shape != (int(g.Nr[k]), nt_users) or np.shape(Hn) != (K, K):
                shapes_ok = False
                continue
            for i in range(full.shape[0]):
                for j in range(full.shape[1]):
                    conj.append(_ceq(full[i, j], bigH[cumr[k] + i, j]))
                    if j < nt_users:
                        conj.append(_ceq(part[i, j], bigH[cumr[k] + i, j]))
            for l in range(K):
                blk = np.asarray(Hn[k, l], dtype=object)
                if blk.shape != (int(g.Nr[k]), int(g.Nt[l])):
                    shapes_ok = False
                    continue
                for i in range(blk.shape[0]):
                    for j in range(blk.shape[1]):
                        conj.append(_ceq(blk[i, j], bigH[cumr[k] + i, cumt[l] + j]))
        goals.append(Goal("[%s] get_Hk_with_ext_int / get_Hk_without_ext_int / H_no_ext_int shapes" % tag, shapes_ok))
        goals.append(Goal("[%s] get_Hk_with_ext_int / get_Hk_without_ext_int / H_no_ext_int are the corresponding blocks of big_H" % tag,
                          sym.SBool(z3.And(conj)) if conj else True))
    return goals


MUTATORS = ("randA", "randB", "initB", "pl1", "pl2", "plNone")


def _apply(c, it, o, g, op, draws, ext, uid):
    if op in ("randA", "randB"):
        Nr, Nt = SPLIT_A if op == "randA" else SPLIT_B
        n0 = len(draws)
        a_nr, a_nt = Nr.copy(), Nt.copy()          # the CALLER's arrays with the antenna counts
        if ext:
            it.call(it.getattr(o, "randomize"), [a_nr, a_nt, 2, 1])
            g.Nr, g.Nt = Nr.copy(), np.hstack([Nt, [1]])
        else:
            it.call(it.getattr(o, "randomize"), [a_nr, a_nt, 2])
            g.Nr, g.Nt = Nr.copy(), Nt.copy()
        a_nr[:] = 5           # ... which the caller goes on using for the next scenario: the channel keeps ITS antenna split
        a_nt[:] = 4
        g.raw = draws[n0]
    elif op == "initB":
        Nr, Nt = SPLIT_B
        cols = int(Nt.sum()) + (1 if ext else 0)
        M = _cmat(c, "M%s" % uid, int(Nr.sum()), cols)
        a_nr, a_nt = Nr.copy(), Nt.copy()
        if ext:
            it.call(it.getattr(o, "init_from_channel_matrix"), [M, a_nr, a_nt, 2, 1])
            g.Nr, g.Nt = Nr.copy(), np.hstack([Nt, [1]])
        else:
            it.call(it.getattr(o, "init_from_channel_matrix"), [M, a_nr, a_nt, 2])
            g.Nr, g.Nt = Nr.copy(), Nt.copy()
        a_nr[:] = 5
        a_nt[:] = 4
        g.raw = M
    elif op in ("pl1", "pl2"):
        P = _pmat(c, "P%s" % uid, 2, 2)
        g.caller_P = P
        if ext:
            E = _pmat(c, "E%s" % uid, 2, 1)
            it.call(it.getattr(o, "set_pathloss"), [P, E])
            g.pl = np.hstack([P, E])
        else:
            it.call(it.getattr(o, "set_pathloss"), [P])
            g.pl = P
    elif op == "plNone":
        it.call(it.getattr(o, "set_pathloss"), [])
        g.pl = None
    else:
        raise KeyError(op)


def _new(c, it, ext):
    import pyphysim.channels.multiuser as mu
    cls = mu.MultiUserChannelMatrixExtInt if ext else mu.MultiUserChannelMatrix
    o = it.call(cls, [])
    g = Ghost()
    g.ext = 1 if ext else 0
    return o, g


def _native_views(o, raw, Nr, Nt, pl, K, n_ext):
    """the views of a real channel object against an independent ghost (raw channel, current split, current path loss)"""
    cumr, cumt = np.hstack([0, np.cumsum(Nr)]), np.hstack([0, np.cumsum(Nt)])
    big = np.array(raw, dtype=complex)
    Kt = K + n_ext
    if pl is not None:
        for k in range(K):
            for l in range(Kt):
                big[cumr[k]:cumr[k + 1], cumt[l]:cumt[l + 1]] *= np.sqrt(pl[k, l])
    if np.shape(o.big_H) != big.shape or (not (np.abs(o.big_H - big).max() <= 1e-12)):
        return {"view": "big_H", "differs from sqrt(path loss) * raw by": float(np.abs(o.big_H - big).max()) if np.shape(o.big_H) == big.shape else "shape"}
    H = o.H
    for k in range(K):
        if (not (np.abs(o.get_Hk(k) - big[cumr[k]:cumr[k + 1]]).max() <= 1e-12)):
            return {"view": "get_Hk(%d)" % k}
        for l in range(Kt):
            blk = big[cumr[k]:cumr[k + 1], cumt[l]:cumt[l + 1]]
            if H[k, l].shape != blk.shape or (not (np.abs(H[k, l] - blk).max() <= 1e-12)):
                return {"view": "H[%d,%d]" % (k, l), "observed": np.asarray(H[k, l]).tolist().__repr__()[:200], "expected": blk.tolist().__repr__()[:200]}
            if l < K and (not (np.abs(o.get_Hkl(k, l) - blk).max() <= 1e-12)):
                return {"view": "get_Hkl(%d,%d)" % (k, l)}
    if n_ext and (not (np.abs(o.big_H_no_ext_int - big[:, :cumt[K]]).max() <= 1e-12)):
        return {"view": "big_H_no_ext_int"}
    return None


def _native_history(seq, ext, seed=0):
    """the mutator history of an obligation on a real object with generic values; first view that disagrees, or None"""
    import pyphysim.channels.multiuser as mu
    rr = np.random.RandomState(1234 + seed)
    o = mu.MultiUserChannelMatrixExtInt() if ext else mu.MultiUserChannelMatrix()
    st = {"raw": None, "Nr": None, "Nt": None, "pl": None}
    done = []
    for op in ("randA",) + tuple(seq):
        if op in ("randA", "randB", "initB"):
            Nr, Nt = SPLIT_A if op == "randA" else SPLIT_B
            if op == "initB":
                M = rr.randn(int(Nr.sum()), int(Nt.sum()) + (1 if ext else 0)) + 1j * rr.randn(int(Nr.sum()), int(Nt.sum()) + (1 if ext else 0))
                a_nr, a_nt = Nr.copy(), Nt.copy()
                o.init_from_channel_matrix(*([M.copy(), a_nr, a_nt, 2] + ([1] if ext else [])))
                a_nr[:] = 5
                a_nt[:] = 4
                st["raw"] = M
            else:
                a_nr, a_nt = Nr.copy(), Nt.copy()
                o.randomize(*([a_nr, a_nt, 2] + ([1] if ext else [])))
                a_nr[:] = 5
                a_nt[:] = 4
                st["raw"] = np.array(o._big_H_no_pathloss)
            st["Nr"], st["Nt"] = Nr.copy(), (np.hstack([Nt, [1]]) if ext else Nt.copy())
        elif op in ("pl1", "pl2"):
            P, E = rr.rand(2, 2), rr.rand(2, 1)
            if ext:
                o.set_pathloss(P.copy(), E.copy())
                st["pl"] = np.hstack([P, E])
            else:
                o.set_pathloss(P.copy())
                st["pl"] = P
        elif op == "plNone":
            o.set_pathloss()
            st["pl"] = None
        done.append(op)
        bad = _native_views(o, st["raw"], st["Nr"], st["Nt"], st["pl"], 2, 1 if ext else 0)
        if bad:
            bad.update({"confirmed": True, "history": ">".join(done), "ext_int": bool(ext)})
            return bad
    return None


def _one_history(seq, ext):
    def rp(model):
        for seed in range(3):
            bad = _native_history(seq, ext, seed)
            if bad:
                return bad
        return {"confirmed": False, "history": ">".join(("randA",) + tuple(seq)),
                "note": "views of the real object agree with the ghost for generic values along this history"}

    def body(c, it):
        draws = []
        _install_models(c, it, draws)
        c.axioms_on = False
        o, g = _new(c, it, ext)
        _apply(c, it, o, g, "randA", draws, ext, "0")
        goals = _view_goals(c, it, o, g, "randA", ext)
        for i, op in enumerate(seq):
            _apply(c, it, o, g, op, draws, ext, str(i + 1))
            goals += _view_goals(c, it, o, g, "randA>" + ">".join(seq[:i + 1]), ext)
        return goals
    return verify(body, check_side=False, timeout_ms=60000, replay=rp)


@obligation("views/rejected_reinitialisation_is_atomic", params=[{"ext": e} for e in (False, True)], timeout=300,
            desc="exceptional postcondition: init_from_channel_matrix with inconsistent arguments (matrix shape not matching the antenna "
                 "sums; K different from the number of entries of Nr/Nt) raises ValueError and leaves the object as it was - all views still "
                 "agree with sqrt(path loss) * raw for the OLD split, also after a later set_pathloss")
def ob_rejected_init(ext):
    def body(c, it):
        draws = []
        _install_models(c, it, draws)
        c.axioms_on = False
        o, g = _new(c, it, ext)
        _apply(c, it, o, g, "randA", draws, ext, "0")
        _apply(c, it, o, g, "pl1", draws, ext, "1")
        goals = _view_goals(c, it, o, g, "randA>pl1", ext)
        Nr, Nt = SPLIT_A
        tot_r, tot_t = int(Nr.sum()), int(Nt.sum()) + (1 if ext else 0)
        bad = [("matrix with one row too many", _cmat(c, "B0", tot_r + 1, tot_t), Nr.copy(), Nt.copy(), 2),
               ("K = 3 with two entries in Nr/Nt", _cmat(c, "B1", tot_r, tot_t), Nr.copy(), Nt.copy(), 3),
               ("K = 1 with two entries in Nr/Nt", _cmat(c, "B2", tot_r, tot_t), Nr.copy(), Nt.copy(), 1)]
        for label, M, a, b, K in bad:
            args = [M, a, b, K] + ([1] if ext else [])
            try:
                it.call(it.getattr(o, "init_from_channel_matrix"), args)
                goals.append(Goal("%s: rejected" % label, False))
            except PyRaise as pr:
                goals.append(Goal("%s: ValueError" % label, isinstance(pr.exc, ValueError)))
            goals += _view_goals(c, it, o, g, "after rejected init (%s)" % label, ext)
        _apply(c, it, o, g, "pl2", draws, ext, "9")
        goals += _view_goals(c, it, o, g, "rejected inits > pl2", ext)
        return goals
    return verify(body, check_side=False, timeout_ms=60000)


@obligation("views/histories", params=[{"first": m, "ext": e} for e in (False, True) for m in MUTATORS], timeout=900,
            desc="all mutator sequences of length <=3 starting with `first` (after an initial randomize): after every step all views "
                 "(H, big_H, get_Hkl, get_Hk, big_H_no_ext_int) agree entry-wise with sqrt(CURRENT path loss) * raw for the CURRENT split")
def ob_histories(first, ext):
    seqs = [(first,)] + [(first, b) for b in MUTATORS] + [(first, b, d) for b in MUTATORS for d in MUTATORS]
    if quick():
        seqs = [s for s in seqs if len(s) < 3 or (s[1] != s[2])]
    return merge([_one_history(s, ext) for s in seqs])


@obligation("views/reported_pathloss_cannot_drift", params=[{"ext": e, "via": v} for e in (False, True) for v in ("callers_array", "reported_property")],
            timeout=300,
            desc="the path loss the object REPORTS is the one its views use: after set_pathloss(P) (symbolic P) an element of the caller's array "
                 "P, resp. of the array returned by .pathloss, is overwritten in place (no new set_pathloss call) - either the write is refused "
                 "(read-only array, nothing changes) or every view (H, big_H, get_Hkl, get_Hk) follows the path loss that .pathloss reports "
                 "now; the same after a later randomize")
def ob_pathloss_drift(ext, via):
    def body(c, it):
        draws = []
        _install_models(c, it, draws)
        o, g = _new(c, it, ext)
        _apply(c, it, o, g, "randA", draws, ext, "0")
        _apply(c, it, o, g, "pl1", draws, ext, "1")
        goals = _view_goals(c, it, o, g, "set_pathloss", ext)
        q = c.var("q", "real")
        c.assume((q >= 0) & (q <= 1))
        wrote = False
        try:
            arr = g.caller_P if via == "callers_array" else it.getattr(o, "pathloss")
            arr[0, 1] = q
            wrote = True
        except ValueError:
            wrote = False          # read-only: the object protected itself
        rep = it.getattr(o, "pathloss")
        goals.append(Goal("a path loss is still reported (receivers x all transmitters)", isinstance(rep, np.ndarray) and rep.shape == (2, 2 + g.ext)))
        if not goals[-1].cond:
            return goals
        g.pl = np.asarray(rep, dtype=object)
        goals += _view_goals(c, it, o, g, "in-place write %s" % ("went through" if wrote else "refused"), ext)
        _apply(c, it, o, g, "randB", draws, ext, "2")
        g.pl = np.asarray(it.getattr(o, "pathloss"), dtype=object)
        goals += _view_goals(c, it, o, g, "then randomize", ext)
        return goals

    def rp(mv):
        import pyphysim.channels.multiuser as mu
        try:
            rr = np.random.RandomState(5)
            o = mu.MultiUserChannelMatrixExtInt() if ext else mu.MultiUserChannelMatrix()
            Nr, Nt = SPLIT_A
            o.randomize(*([Nr.copy(), Nt.copy(), 2] + ([1] if ext else [])))
            raw = np.array(o._big_H_no_pathloss)
            P, E = rr.rand(2, 2), rr.rand(2, 1)
            o.set_pathloss(*([P, E] if ext else [P]))
            try:
                (P if via == "callers_array" else o.pathloss)[0, 1] = 0.0625
                wrote = True
            except ValueError:
                wrote = False
            pl = np.array(o.pathloss)
            bad = _native_views(o, raw, Nr, np.hstack([Nt, [1]]) if ext else Nt, pl, 2, 1 if ext else 0)
            if bad:
                return dict(bad, confirmed=True, history="randomize, set_pathloss(P), %s[0, 1] = 0.0625 (%s)" % (
                    "P" if via == "callers_array" else "channel.pathloss", "accepted" if wrote else "refused"),
                    reported_pathloss=np.array(o.pathloss).tolist())
            return {"confirmed": False, "in-place write": "accepted" if wrote else "refused (read-only)"}
        except Exception as e:
            return {"confirmed": False, "error": "replay crashed: %r" % (e,)}
    return verify(body, check_side=False, timeout_ms=60000, replay=rp)


@obligation("views/inductive_cache_coherence", params=[{"ext": e} for e in (False, True)], timeout=600,
            desc="inductive step: from ANY state in which each cache (_big_H_with_pathloss, _H_with_pathloss) is either empty or holds "
                 "the coherent value, every mutator leaves all views coherent (any history length)")
def ob_inductive(ext):
    res = []
    for op in MUTATORS:
        for cache_state in itertools.product((False, True), repeat=2):
            for had_pl in (False, True):
                def body(c, it, op=op, cache_state=cache_state, had_pl=had_pl):
                    draws = []
                    _install_models(c, it, draws)
                    c.axioms_on = False
                    o, g = _new(c, it, ext)
                    _apply(c, it, o, g, "randA", draws, ext, "0")
                    if had_pl:
                        _apply(c, it, o, g, "pl1", draws, ext, "p")
                    frame = {"_big_H_no_pathloss", "_H_no_pathloss", "_big_H_with_pathloss", "_H_with_pathloss", "_Nr", "_Nt", "_K",
                             "_pathloss_matrix", "_pathloss_big_matrix", "_RS_channel", "_RS_noise", "_last_noise", "_noise_var",
                             "_W", "_big_W", "_extIntK", "_extIntNt"}
                    if set(o.fields) - frame:
                        raise Inapplicable("fields %s" % sorted(set(o.fields) - frame))
                    # caches: filled coherently (by reading) or left empty
                    if cache_state[0]:
                        it.getattr(o, "big_H")
                    if cache_state[1]:
                        it.getattr(o, "H")
                    _apply(c, it, o, g, op, draws, ext, "x")
                    return _view_goals(c, it, o, g, "%s from caches %s pl=%s" % (op, cache_state, had_pl), ext)
                res.append(verify(body, check_side=False, timeout_ms=60000))
    return merge(res)


def _native_transmission(o, ext, W, rr, tag):
    """one corrupt_data on a real object against  W^H (big_H x + last_noise)  (W None: unfiltered)"""
    Nt = [2, 1]
    data = np.empty(2, dtype=object)
    for k in range(2):
        data[k] = rr.randn(Nt[k], 2) + 1j * rr.randn(Nt[k], 2)
    if ext:
        xe = np.empty(1, dtype=object)
        xe[0] = rr.randn(1, 2) + 1j * rr.randn(1, 2)
        out = o.corrupt_data(data, xe)
        xs = np.vstack(list(data) + list(xe))
    else:
        out = o.corrupt_data(data)
        xs = np.vstack(list(data))
    y = o.big_H @ xs
    if o.noise_var is not None:
        if o.last_noise is None or o.last_noise.shape != y.shape:
            return {"confirmed": True, "step": tag, "last_noise": "missing although a noise variance is set"}
        y = y + o.last_noise
    elif o.last_noise is not None:
        return {"confirmed": True, "step": tag, "last_noise": "present although no noise variance is set"}
    rows = [1, 2]
    if W is not None:
        from scipy.linalg import block_diag
        y = block_diag(*[np.asarray(w) for w in W]).conj().T @ y
        rows = [1, 1]
    r0 = 0
    for k in range(2):
        want = y[r0:r0 + rows[k]]
        r0 += rows[k]
        if np.shape(out[k]) != want.shape or (not (np.abs(out[k] - want).max() <= 1e-10 * max(1.0, np.abs(want).max()))):
            return {"confirmed": True, "step": tag, "receiver": k, "observed": repr(np.asarray(out[k]).tolist())[:160],
                    "expected W^H (big_H x + n)": repr(want.tolist())[:160]}
    return None


def _replay_transmit(ext, noise, filt):
    def rp(model):
        import pyphysim.channels.multiuser as mu
        try:
            for seed in range(3):
                rr = np.random.RandomState(77 + seed)
                o = mu.MultiUserChannelMatrixExtInt() if ext else mu.MultiUserChannelMatrix()
                Nr, Nt = SPLIT_A
                o.randomize(*([Nr.copy(), Nt.copy(), 2] + ([1] if ext else [])))
                for _ in range(2):
                    o.set_pathloss(*([rr.rand(2, 2)] + ([rr.rand(2, 1)] if ext else [])))
                    o.big_H
                nv = model.get("noise_var") if isinstance(model, dict) else None
                o.noise_var = (float(num(nv, 0.3)) or 0.3) if noise else None
                W = None
                if filt:
                    W = np.empty(2, dtype=object)
                    for k in range(2):
                        W[k] = rr.randn(int(Nr[k]), 1) + 1j * rr.randn(int(Nr[k]), 1)
                    o.set_post_filter(W)
                bad = _native_transmission(o, ext, W, rr, "noise=%s filter=%s" % (noise, filt))
                if bad:
                    return bad
            return {"confirmed": False, "note": "real object transmits as specified for generic values in this configuration"}
        except Exception as e:
            return {"confirmed": False, "error": "replay crashed: %r" % (e,)}
    return rp


def _replay_filter_history(ext):
    def rp(model):
        import pyphysim.channels.multiuser as mu
        try:
            rr = np.random.RandomState(5)
            o = mu.MultiUserChannelMatrixExtInt() if ext else mu.MultiUserChannelMatrix()
            Nr, Nt = SPLIT_A
            o.randomize(*([Nr.copy(), Nt.copy(), 2] + ([1] if ext else [])))
            o.noise_var = None
            mk = lambda k: rr.randn(int(Nr[k]), 1) + 1j * rr.randn(int(Nr[k]), 1)     # noqa: E731
            W = np.empty(2, dtype=object)
            W[0], W[1] = mk(0), mk(1)
            o.set_post_filter(W)
            bad = _native_transmission(o, ext, W, rr, "first")
            if not bad:
                W[1] = mk(1)
                o.set_post_filter(W)
                bad = _native_transmission(o, ext, W, rr, "same container, one filter replaced")
            if not bad:
                W2 = np.empty(2, dtype=object)
                W2[0], W2[1] = mk(0), mk(1)
                o.set_post_filter(W2)
                bad = _native_transmission(o, ext, W2, rr, "fresh container")
            return bad or {"confirmed": False, "note": "real object filters with the filters handed over last along this history"}
        except Exception as e:
            return {"confirmed": False, "error": "replay crashed: %r" % (e,)}
    return rp


@obligation("transmit/output_is_WH_H_x_plus_noise", params=[{"ext": e} for e in (False, True)], timeout=600,
            desc="corrupt_data / corrupt_concatenated_data: out == big_W^H (big_H x + n) with n == last_noise (None without noise), "
                 "split per receiver by its antenna count, for noise on/off x post-filter on/off, after a path-loss change")
def ob_transmit(ext):
    res = []
    for noise in (False, True):
        for filt in (False, True):
            def body(c, it, noise=noise, filt=filt):
                draws = []
                _install_models(c, it, draws)
                o, g = _new(c, it, ext)
                _apply(c, it, o, g, "randA", draws, ext, "0")
                _apply(c, it, o, g, "pl1", draws, ext, "1")
                it.getattr(o, "big_H")
                _apply(c, it, o, g, "pl2", draws, ext, "2")
                nv = None
                if noise:
                    nv = c.var("noise_var", "real")
                    c.assume(nv >= 0)
                it.setattr(o, "noise_var", nv)
                W = None
                if filt:
                    W = np.empty(2, dtype=object)
                    for k in range(2):
                        W[k] = _cmat(c, "W%d" % k, int(g.Nr[k]), 1)
                    it.call(it.getattr(o, "set_post_filter"), [W])
                ncol = 1
                data = np.empty(2, dtype=object)
                for k in range(2):
                    data[k] = _cmat(c, "x%d" % k, int(g.Nt[k]), ncol)
                n0 = len(draws)
                if ext:
                    xe = np.empty(1, dtype=object)
                    xe[0] = _cmat(c, "xe", 1, ncol)
                    out = it.call(it.getattr(o, "corrupt_data"), [data, xe])
                    xs = np.vstack(list(data) + list(xe))
                else:
                    out = it.call(it.getattr(o, "corrupt_data"), [data])
                    xs = np.vstack(list(data))
                goals = []
                last = it.getattr(o, "last_noise")
                bigH = it.getattr(o, "big_H")
                cumr = np.hstack([0, np.cumsum(g.Nr)])
                y = np.dot(bigH, xs)
                if noise:
                    ok = isinstance(last, np.ndarray) and last.shape == y.shape and len(draws) == n0 + 1
                    goals.append(Goal("last_noise is the noise that was added", ok))
                    if not ok:
                        return goals
                    import math
                    n_spec = draws[n0] * lift(nv).sqrt()
                    goals.append(Goal("last_noise == draw*sqrt(noise_var)", sym.SBool(z3.And(
                        [_ceq(last[i, j], n_spec[i, j]) for i in range(last.shape[0]) for j in range(last.shape[1])]))))
                    y = y + last
                else:
                    goals.append(Goal("no noise => last_noise is None", last is None))
                if filt:
                    from scipy.linalg import block_diag
                    bw = np.zeros((int(cumr[-1]), 2), dtype=object)
                    for k in range(2):
                        bw[cumr[k]:cumr[k + 1], k:k + 1] = W[k]
                    y = np.dot(np.frompyfunc(lambda v: v.conjugate() if hasattr(v, "conjugate") else v, 1, 1)(bw).T, y)
                    rows = [1, 1]
                else:
                    rows = [int(x) for x in g.Nr]
                ok = isinstance(out, np.ndarray) and out.shape == (2,) and all(np.shape(out[k]) == (rows[k], ncol) for k in range(2))
                if filt and ok is False:
                    goals.append(Goal("per-receiver output shapes", False))
                    return goals
                if not filt:
                    goals.append(Goal("per-receiver output split by antenna count", ok))
                    if not ok:
                        return goals
                conj = []
                r0 = 0
                for k in range(2):
                    for i in range(np.shape(out[k])[0]):
                        for j in range(ncol):
                            conj.append(_ceq(out[k][i, j], y[r0 + i, j]))
                    r0 += np.shape(out[k])[0]
                goals.append(Goal("out == W^H (big_H x + n), noise=%s filter=%s" % (noise, filt), sym.SBool(z3.And(conj))))
                return goals
            res.append(verify(body, check_side=False, timeout_ms=120000, replay=_replay_transmit(ext, noise, filt)))
    return merge(res)


@obligation("transmit/post_filter_history", params=[{"ext": e} for e in (False, True)], timeout=300,
            desc="history of set_post_filter on one object: filters W set and used, then ONE receiver's filter replaced inside the same "
                 "container and the container handed over again, then a fresh container: each transmission is filtered with the filters "
                 "most recently handed over (the W property and the filtering agree)")
def ob_filter_history(ext):
    def body(c, it):
        draws = []
        _install_models(c, it, draws)
        o, g = _new(c, it, ext)
        _apply(c, it, o, g, "randA", draws, ext, "0")
        it.setattr(o, "noise_var", None)
        cumr = np.hstack([0, np.cumsum(g.Nr)])
        goals = []

        def transmit(tag, W):
            data = np.empty(2, dtype=object)
            for k in range(2):
                data[k] = _cmat(c, "x%s%d" % (tag, k), int(g.Nt[k]), 1)
            if ext:
                xe = np.empty(1, dtype=object)
                xe[0] = _cmat(c, "xe" + tag, 1, 1)
                out = it.call(it.getattr(o, "corrupt_data"), [data, xe])
                xs = np.vstack(list(data) + list(xe))
            else:
                out = it.call(it.getattr(o, "corrupt_data"), [data])
                xs = np.vstack(list(data))
            y = np.dot(it.getattr(o, "big_H"), xs)
            bw = np.zeros((int(cumr[-1]), 2), dtype=object)
            for k in range(2):
                bw[cumr[k]:cumr[k + 1], k:k + 1] = W[k]
            y = np.dot(np.frompyfunc(lambda v: v.conjugate() if hasattr(v, "conjugate") else v, 1, 1)(bw).T, y)
            ok = isinstance(out, np.ndarray) and out.shape == (2,) and all(np.shape(out[k]) == (1, 1) for k in range(2))
            goals.append(Goal("[%s] output shapes" % tag, ok))
            if ok:
                goals.append(Goal("[%s] filtered with the filters handed over last" % tag,
                                  sym.SBool(z3.And([_ceq(out[k][0, 0], y[k, 0]) for k in range(2)]))))
            Wp = it.getattr(o, "W")
            goals.append(Goal("[%s] W property returns those filters" % tag, Wp is not None and all(Wp[k] is W[k] for k in range(2))))
        W = np.empty(2, dtype=object)
        for k in range(2):
            W[k] = _cmat(c, "W%d" % k, int(g.Nr[k]), 1)
        it.call(it.getattr(o, "set_post_filter"), [W])
        transmit("first", W)
        W[1] = _cmat(c, "V1", int(g.Nr[1]), 1)             # replaced inside the same container
        it.call(it.getattr(o, "set_post_filter"), [W])
        transmit("same container, one filter replaced", W)
        W2 = np.empty(2, dtype=object)
        for k in range(2):
            W2[k] = _cmat(c, "U%d" % k, int(g.Nr[k]), 1)
        it.call(it.getattr(o, "set_post_filter"), [W2])
        transmit("fresh container", W2)
        return goals
    return verify(body, check_side=False, timeout_ms=60000, replay=_replay_filter_history(ext))


# ------------------------------------------------------------------ bounded native
@obligation("native/random_histories", kind="bounded", timeout=900,
            desc="native complex128: random 8-step interleavings of randomize / init_from_channel_matrix / set_pathloss(M|None) / "
                 "noise_var= / set_post_filter / reads / corrupt_data on plain and ext-int channels, K 2..4, unequal and changing "
                 "antenna splits (incl. same totals): views coherent with an independent ghost model (1e-12), transmission equation")
def ob_native():
    import pyphysim.channels.multiuser as mu
    r = stable_rng("C08native")

    def gen():
        for i in range(150 if quick() else 2000):
            yield {"seed": int(r.randint(1 << 30)), "ext": bool(i % 2), "K": int(2 + (i // 2) % 3)}

    def check(case):
        rr = np.random.RandomState(case["seed"])
        K, ext = case["K"], case["ext"]
        o = mu.MultiUserChannelMatrixExtInt() if ext else mu.MultiUserChannelMatrix()
        g = {"raw": None, "Nr": None, "Nt": None, "pl": None, "W": None, "nv": None}
        NtE = [int(rr.randint(1, 3))] if ext else []

        def split(total_like=None):
            if total_like is not None and (not (rr.rand() >= 0.5)):
                p = rr.permutation(len(total_like))
                return np.array(total_like)[p]
            return rr.randint(1, 4, size=K)

        def do_random():
            Nr, Nt = split(g["Nr"]), split(g["Nt"][:K] if g["Nt"] is not None else None)
            if ext:
                o.randomize(Nr.copy(), Nt.copy(), K, list(NtE))
                g["Nt"] = np.hstack([Nt, NtE])
            else:
                o.randomize(Nr.copy(), Nt.copy(), K)
                g["Nt"] = Nt
            g["Nr"] = Nr
            g["raw"] = o._big_H_no_pathloss.copy()
            g["W"] = g["W"] if g["W"] is not None and all(w.shape[0] == n for w, n in zip(g["W"], Nr)) else None
            if g["W"] is None:
                o.set_post_filter(None) if False else None

        def do_init():
            Nr, Nt = split(g["Nr"]), split(g["Nt"][:K] if g["Nt"] is not None else None)
            cols = int(Nt.sum() + sum(NtE))
            M = (rr.randn(int(Nr.sum()), cols) + 1j * rr.randn(int(Nr.sum()), cols))
            if ext:
                o.init_from_channel_matrix(M.copy(), Nr.copy(), Nt.copy(), K, list(NtE))
                g["Nt"] = np.hstack([Nt, NtE])
            else:
                o.init_from_channel_matrix(M.copy(), Nr.copy(), Nt.copy(), K)
                g["Nt"] = Nt
            g["Nr"] = Nr
            g["raw"] = M

        def views():
            cumr = np.hstack([0, np.cumsum(g["Nr"])])
            cumt = np.hstack([0, np.cumsum(g["Nt"])])
            big = g["raw"].copy()
            Kt = K + len(NtE)
            if g["pl"] is not None:
                for k in range(K):
                    for l in range(Kt):
                        big[cumr[k]:cumr[k + 1], cumt[l]:cumt[l + 1]] *= np.sqrt(g["pl"][k, l])
            if (not (np.abs(o.big_H - big).max() <= 1e-12)):
                return {"big_H stale/wrong": float(np.abs(o.big_H - big).max())}
            H = o.H
            for k in range(K):
                if (not (np.abs(o.get_Hk(k) - big[cumr[k]:cumr[k + 1]]).max() <= 1e-12)):
                    return {"get_Hk": k}
                for l in range(Kt):
                    blk = big[cumr[k]:cumr[k + 1], cumt[l]:cumt[l + 1]]
                    if H[k, l].shape != blk.shape or (not (np.abs(H[k, l] - blk).max() <= 1e-12)):
                        return {"H[k,l] != block of big_H": [k, l]}
                    if (not (l >= K)) and (not (np.abs(o.get_Hkl(k, l) - blk).max() <= 1e-12)):
                        return {"get_Hkl": [k, l]}
            if ext and (not (np.abs(o.big_H_no_ext_int - big[:, :cumt[K]]).max() <= 1e-12)):
                return {"big_H_no_ext_int": True}
            return None

        do_random()
        for step in range(8):
            w = rr.randint(8)
            if w == 0:
                do_random()
                g["W"] = None
                o.set_post_filter(None)
            elif w == 1:
                do_init()
                g["W"] = None
                o.set_post_filter(None)
            elif w in (2, 3):
                P = rr.rand(K, K)
                if ext:
                    E = rr.rand(K, len(NtE))
                    o.set_pathloss(P.copy(), E.copy())
                    g["pl"] = np.hstack([P, E])
                else:
                    o.set_pathloss(P.copy())
                    g["pl"] = P
            elif w == 4:
                o.set_pathloss()
                g["pl"] = None
            elif w == 5:
                g["nv"] = None if (not (rr.rand() >= 0.3)) else float(rr.rand())
                o.noise_var = g["nv"]
            elif w == 6:
                g["W"] = [rr.randn(int(n), 1) + 1j * rr.randn(int(n), 1) for n in g["Nr"]]
                Wo = np.empty(K, dtype=object)
                for k in range(K):
                    Wo[k] = g["W"][k]
                o.set_post_filter(Wo)
            bad = views()
            if bad:
                bad["step"] = step
                return bad
            if (not (rr.rand() >= 0.6)):
                data = np.empty(K, dtype=object)
                for k in range(K):
                    data[k] = rr.randn(int(g["Nt"][k]), 3) + 1j * rr.randn(int(g["Nt"][k]), 3)
                if ext:
                    xe = np.empty(len(NtE), dtype=object)
                    for e in range(len(NtE)):
                        xe[e] = rr.randn(NtE[e], 3) + 1j * rr.randn(NtE[e], 3)
                    fr = Frame(data=data, ext_data=xe)
                    out = o.corrupt_data(data, xe)
                    xs = np.vstack(list(data) + list(xe))
                else:
                    fr = Frame(data=data)
                    out = o.corrupt_data(data)
                    xs = np.vstack(list(data))
                if fr.changed():
                    return {"corrupt_data frame": fr.changed()}
                y = o.big_H @ xs
                if g["nv"] is not None:
                    if o.last_noise is None or o.last_noise.shape != y.shape:
                        return {"last_noise missing": True}
                    y = y + o.last_noise
                elif o.last_noise is not None:
                    return {"last_noise should be None": True}
                cumr = np.hstack([0, np.cumsum(g["Nr"])])
                if g["W"] is not None:
                    from scipy.linalg import block_diag
                    y = block_diag(*g["W"]).conj().T @ y
                # the statement: "split per receiver by its antenna count" (rows cumNr[k]:cumNr[k+1] of the filtered signal)
                for k in range(K):
                    want = y[cumr[k]:cumr[k + 1]]
                    if out[k].shape != want.shape or (want.size and (not (np.abs(out[k] - want).max() <= 1e-10))):
                        return {"receive equation / split": k, "step": step}
        return None
    return bounded(gen(), check)
