"""C20  Subspace and linear-algebra kernels satisfy their defining identities.

Deductive (symbolic entries, configuration-concrete sizes): Projection.*, metrics.calc_chordal_distance_2, misc.peig/leig/
least_right_singular_vectors/get_principal_component_matrix (selection logic against the svd/eig library contract),
misc.update_inv_sum_diag, conversion.dB2Linear/linear2dB/dBm2Linear/linear2dBm/SNR_dB_to_EbN0_dB/EbN0_dB_to_SNR_dB.
Bounded: misc.gmd, calc_whitening_matrix, QR/SVD based chordal distances and principal angles, float conversions.
"""
import itertools
import math

import numpy as np
import z3

from pyvc import sym
from pyvc.sym import lift, SComplex, cfrac_eq, frac_eq
from pyvc.interp import PyRaise
from pyvc.oblig import obligation, verify, bounded, exhaustive, Goal, merge
from .common import stable_rng, quick, Frame
from .C08 import _cmat

LEVEL = "proof"
EXPLANATION = ("Matrices with fully symbolic entries (complex n x 1 for n <= 3, real 3 x 2) go through the real Projection class: the engine "
               "keeps the exact numerator/denominator polynomials of every entry (inverse by the adjugate contract) and the identities "
               "Q^H = Q, Q^2 = Q, QA = A, oQ = I - Q, Q + oQ = I, oQ A = 0, reflect(reflect(M)) = M, project + oProject = M - also after "
               "earlier reflect/oProject calls on the same object - are proved cross-multiplied as exact polynomial identities; chordal "
               "distance (projector form) symmetric, zero for equal subspaces, invariant to a change of basis.  Selectors: with the "
               "library contract of svd/eig (symbolic factors) the real peig/leig/least_right_singular_vectors/"
               "get_principal_component_matrix return exactly the columns/values their names say (real argsort on symbolic values, one "
               "path per ordering).  Sherman-Morrison diagonal update equals the true inverse (2x2 symbolic; larger sizes bounded).  dB/linear/dBm/EbN0 "
               "conversions mutually inverse for all reals.  GMD for p >= 4 and QR/SVD-based distances are bounded native checks; whitening / decorrelation are proved through the eig "
               "contract for distinct eigenvalues (R = V diag(L) V^H, V any orthogonal / unitary matrix written with angle atoms).")
ASSUMPTIONS = [
    "np.linalg.inv/solve contract (adjugate/determinant, det != 0 as requires = full column rank); svd/eig outputs uninterpreted "
    "symbolic factors in the selector obligations",
    "sizes configuration-concrete (values symbolic); ideal reals; log10/pow10 axioms as in C13",
    "gmd (Givens sweep with data-dependent permutations): proved for p = 2, 3 singular values (all s0 >= .. > 0 by case analysis; ideal "
    "reals, x**(1/p) as the exact p-th root), p >= 4 bounded; QR/principal-angle variants and whitening: bounded, sizes 1..8, cond <= 1e4",
]
TRUSTED_BASE = ["numpy dot/indexing/argsort executed natively on object arrays", "LAPACK svd/eig/qr in the bounded part"]


def _rmat(c, tag, r, k):
    m = np.empty((r, k), dtype=object)
    for i in range(r):
        for j in range(k):
            m[i, j] = c.var("%s_%d_%d" % (tag, i, j), "real")
    return m


def _conjT(m):
    return np.frompyfunc(lambda v: v.conjugate() if hasattr(v, "conjugate") else v, 1, 1)(m).T


def _meq(A, B):
    A, B = np.asarray(A, dtype=object), np.asarray(B, dtype=object)
    if A.shape != B.shape:
        return sym.SBool(z3.BoolVal(False))
    return sym.SBool(z3.And([cfrac_eq(a, b).t for a, b in zip(A.flat, B.flat)]))


@obligation("projection/identities", params=[{"shape": s} for s in ("c2x1", "c3x1", "r3x2", "r2x2")], timeout=300,
            desc="Projection(A), symbolic A: Q Hermitian, idempotent, QA = A, oQ = I - Q, Q + oQ = I, oQ A = 0, project(M)+oProject(M) = M, "
                 "reflect(reflect(M)) = M and the object still satisfies all of it after reflect/oProject were called (no aliasing)")
def ob_projection(shape):
    def body(c, it):
        import pyphysim.subspace.projections as pr
        n, k = int(shape[1]), int(shape[3])
        A = _cmat(c, "A", n, k) if shape[0] == "c" else _rmat(c, "A", n, k)
        M = _cmat(c, "M", n, 1) if shape[0] == "c" else _rmat(c, "M", n, 1)
        P = it.call(pr.Projection, [A])
        I = np.eye(n, dtype=object)
        goals = []

        def core(tag):
            Q, oQ = it.getattr(P, "Q"), it.getattr(P, "oQ")
            goals.append(Goal(tag + "Q^H == Q", _meq(_conjT(Q), Q)))
            goals.append(Goal(tag + "Q Q == Q", _meq(np.dot(Q, Q), Q)))
            goals.append(Goal(tag + "Q A == A", _meq(np.dot(Q, A), A)))
            goals.append(Goal(tag + "oQ == I - Q", _meq(oQ, I - Q)))
            goals.append(Goal(tag + "oQ A == 0", _meq(np.dot(oQ, A), np.zeros((n, k), dtype=object))))
            pm = it.call(it.getattr(P, "project"), [M])
            om = it.call(it.getattr(P, "oProject"), [M])
            goals.append(Goal(tag + "project(M) + oProject(M) == M", _meq(pm + om, M)))
        core("")
        r1 = it.call(it.getattr(P, "reflect"), [M])
        r2 = it.call(it.getattr(P, "reflect"), [r1])
        goals.append(Goal("reflect(reflect(M)) == M", _meq(r2, M)))
        core("after reflect twice: ")
        return goals
    return verify(body, check_side=False, timeout_ms=60000)


@obligation("chordal/projector_form", params=[{"shape": s} for s in ("c2x1", "c3x1", "r3x2")], timeout=300,
            desc="calc_chordal_distance_2(A,B) == ||X||_F / sqrt(2) with X == P_A - P_B entry-wise (Frobenius norm used through its library "
                 "contract); X(B,A) == -X(A,B) (symmetric), X(A,A) == 0 (zero for equal subspaces), X(A t, B) == X(A, B) for every "
                 "invertible change of basis t")
def ob_chordal(shape):
    def body(c, it):
        import pyphysim.subspace.metrics as mt
        import pyphysim.subspace.projections as pr
        n, k = int(shape[1]), int(shape[3])
        mk = _cmat if shape[0] == "c" else _rmat
        A, B = mk(c, "A", n, k), mk(c, "B", n, k)
        T = mk(c, "T", k, k)
        calls = []

        def m_norm(interp, X, ord=None, *a, **kw):
            v = c.fresh_var("fro", "real")
            c.assume(v >= 0)
            calls.append((np.asarray(X, dtype=object), ord, v))
            return v
        it.models[np.linalg.norm] = m_norm
        dAB = it.call(mt.calc_chordal_distance_2, [A, B])
        dBA = it.call(mt.calc_chordal_distance_2, [B, A])
        dAA = it.call(mt.calc_chordal_distance_2, [A, A])
        dAtB = it.call(mt.calc_chordal_distance_2, [np.dot(A, T), B])
        goals = [Goal("one Frobenius norm per call", len(calls) == 4 and all(o == 'fro' for _, o, _ in calls))]
        if not goals[0].cond:
            return goals
        PA = it.call(pr.Projection.calcProjectionMatrix, [A])
        PB = it.call(pr.Projection.calcProjectionMatrix, [B])
        XAB, XBA, XAA, XAtB = [x for x, _, _ in calls]
        goals.append(Goal("value == norm / sqrt(2)", lift(dAB) == calls[0][2] / math.sqrt(2)))
        goals.append(Goal("norm argument == P_A - P_B", _meq(XAB, PA - PB)))
        goals.append(Goal("symmetric: X(B,A) == -X(A,B)", _meq(XBA, -XAB)))
        goals.append(Goal("equal subspaces: X(A,A) == 0", _meq(XAA, np.zeros((n, n), dtype=object))))
        goals.append(Goal("basis change: X(A T, B) == X(A, B)", _meq(XAtB, XAB)))
        return goals
    return verify(body, check_side=False, timeout_ms=60000)


def _svd_model(c, draws):
    def m_svd(interp, A, full_matrices=True, **k):
        A = np.asarray(A, dtype=object)
        m, n = A.shape
        kk = min(m, n)
        U = _cmat(c, "U%d" % len(draws), m, m if full_matrices else kk)
        S = np.empty(kk, dtype=object)
        for i in range(kk):
            S[i] = c.var("S%d_%d" % (len(draws), i), "real")
        Vh = _cmat(c, "Vh%d" % len(draws), n if full_matrices else kk, n)
        draws.append((U, S, Vh))
        return U, S, Vh
    return m_svd


@obligation("selectors/svd_based", timeout=300,
            desc="with svd returning arbitrary (symbolic) factors: least_right_singular_vectors(A,n) returns V0 = the last n columns of V "
                 "(last first), V1 = the others, S1 = their singular values; get_principal_component_matrix keeps exactly the first k triplets")
def ob_sel_svd():
    def body(c, it):
        import pyphysim.util.misc as misc
        draws = []
        it.models[np.linalg.svd] = _svd_model(c, draws)
        goals = []
        for (m, n, nn) in ((3, 3, 1), (3, 3, 2), (2, 3, 1), (4, 3, 1)):
            A = _cmat(c, "A%d%d%d" % (m, n, nn), m, n)
            V0, V1, S1 = it.call(misc.least_right_singular_vectors, [A, nn])
            U, S, Vh = draws[-1]
            V = _conjT(Vh)
            cols = list(reversed(range(n)))
            goals.append(Goal("%dx%d n=%d: V0 == last n right singular vectors" % (m, n, nn), _meq(V0, V[:, cols[:nn]])))
            goals.append(Goal("%dx%d n=%d: V1 == remaining vectors" % (m, n, nn), _meq(V1, V[:, cols[nn:]])))
            want_S = [S[i] for i in cols[nn:] if i < len(S)]
            goals.append(Goal("%dx%d n=%d: S1 == singular values of V1" % (m, n, nn),
                              len(S1) == len(cols[nn:]) and all(bool(sym.lift(a) is b) or a is b for a, b in zip(S1, want_S))))
        A = _cmat(c, "B", 3, 3)
        for k in (1, 2):
            out = it.call(misc.get_principal_component_matrix, [A, k])
            U, S, Vh = draws[-1]
            spec = np.zeros((3, k), dtype=object)
            for i in range(k):
                spec = spec + np.outer(U[:, i], Vh[i, :k]) * S[i]
            goals.append(Goal("principal component matrix k=%d: sum of the first k triplets" % k, _meq(out, spec)))
        return goals
    return verify(body, check_side=False, timeout_ms=60000)


@obligation("selectors/eig_based", timeout=600,
            desc="with eig returning arbitrary (symbolic) eigenpairs: peig(A,n) returns the pairs at the n largest real parts in descending "
                 "order, leig(A,n) the n smallest ascending (every ordering explored); n > columns -> ValueError")
def ob_sel_eig():
    def body(c, it):
        import pyphysim.util.misc as misc
        n = 3
        D = np.empty(n, dtype=object)
        for i in range(n):
            D[i] = c.var("d%d" % i, "complex")
        V = _cmat(c, "V", n, n)
        it.models[np.linalg.eig] = lambda interp, A: (D, V)
        A = _cmat(c, "A", n, n)
        goals = []
        for fn, largest in ((misc.peig, True), (misc.leig, False)):
            for k in (1, 2):
                Vk, Dk = it.call(fn, [A, k])
                ok = np.shape(Vk) == (n, k) and np.shape(Dk) == (k,)
                goals.append(Goal("%s n=%d shapes" % (fn.__name__, k), ok))
                if not ok:
                    continue
                idx = []
                for j in range(k):
                    hit = [i for i in range(n) if Dk[j] is D[i]]
                    if len(hit) != 1 or not all(Vk[r, j] is V[r, hit[0]] for r in range(n)):
                        goals.append(Goal("%s n=%d: returned pairs are eigenpairs of the library result" % (fn.__name__, k), False))
                        break
                    idx.append(hit[0])
                else:
                    rest = [i for i in range(n) if i not in idx]
                    conj = []
                    for a, b in zip(idx, idx[1:]):
                        conj.append((D[a].re >= D[b].re).t if largest else (D[a].re <= D[b].re).t)
                    for a in idx:
                        for b in rest:
                            conj.append((D[a].re >= D[b].re).t if largest else (D[a].re <= D[b].re).t)
                    goals.append(Goal("%s n=%d: the %s real parts, ordered" % (fn.__name__, k, "largest" if largest else "smallest"),
                                      sym.SBool(z3.And(conj)) if conj else True))
            try:
                it.call(fn, [A, n + 1])
                goals.append(Goal("%s: n > columns rejected" % fn.__name__, False))
            except PyRaise as pr:
                goals.append(Goal("%s: n > columns -> ValueError" % fn.__name__, isinstance(pr.exc, ValueError)))
        return goals
    return verify(body, check_side=False, timeout_ms=30000, max_paths=5000)


@obligation("sherman_morrison/update_inv_sum_diag", params=[{"n": n} for n in (2,)], timeout=300,
            desc="update_inv_sum_diag(inv(A), d) * (A + diag(d)) == I for symbolic real A (n x n) and d (denominators non-zero as requires)")
def ob_sm(n):
    def body(c, it):
        import pyphysim.util.misc as misc
        from pyvc.interp import _det_inv
        A = _rmat(c, "A", n, n)
        d = np.empty(n, dtype=object)
        for i in range(n):
            d[i] = c.var("d%d" % i, "real")
        adj, det = _det_inv(A)
        invA = np.frompyfunc(lambda x: x / det, 1, 1)(adj)
        out = it.call(misc.update_inv_sum_diag, [invA, d])
        B = A + np.diag(d)
        prod = np.dot(out, B)
        return [Goal("new_inv (A + diag d) == I", _meq(prod, np.eye(n, dtype=object)))]
    return verify(body, check_side=False, timeout_ms=120000)


@obligation("conversions/mutually_inverse",
            desc="for all reals: linear2dB(dB2Linear(x)) == x, dB2Linear(linear2dB(y)) == y (y>0), dBm variants (x1000 <-> +30 dB), "
                 "EbN0_dB_to_SNR_dB(SNR_dB_to_EbN0_dB(s,k),k) == s and the reverse for every bits-per-symbol k >= 1")
def ob_conv():
    def body(c, it):
        import pyphysim.util.conversion as cv
        x, y, s = c.var("x", "real"), c.var("y", "real"), c.var("s", "real")
        k = c.var("k", "int")
        c.assume((y > 0) & (k >= 1))
        goals = []
        goals.append(Goal("linear2dB(dB2Linear(x)) == x", it.call(cv.linear2dB, [it.call(cv.dB2Linear, [x])]) == x))
        goals.append(Goal("dB2Linear(linear2dB(y)) == y", it.call(cv.dB2Linear, [it.call(cv.linear2dB, [y])]) == y))
        lin = it.call(cv.dBm2Linear, [x])
        c.add_fact((lin * 1000.).log10() == lin.log10() + 3, "log10(a*10^k)=log10(a)+k")
        goals.append(Goal("linear2dBm(dBm2Linear(x)) == x", it.call(cv.linear2dBm, [lin]) == x))
        c.add_fact((y * 1000.).log10() == y.log10() + 3, "log10(a*10^k)=log10(a)+k")
        dbm = it.call(cv.linear2dBm, [y])
        goals.append(Goal("dBm2Linear(linear2dBm(y)) == y", it.call(cv.dBm2Linear, [dbm]) == y))
        goals.append(Goal("dBm = dB + 30", dbm == it.call(cv.linear2dB, [y]) + 30))
        goals.append(Goal("dBm2Linear(x) == dB2Linear(x)/1000", lin == it.call(cv.dB2Linear, [x]) / 1000.))
        e = it.call(cv.SNR_dB_to_EbN0_dB, [s, k])
        goals.append(Goal("EbN0 -> SNR inverse", it.call(cv.EbN0_dB_to_SNR_dB, [e, k]) == s))
        goals.append(Goal("SNR -> EbN0 inverse", it.call(cv.SNR_dB_to_EbN0_dB, [it.call(cv.EbN0_dB_to_SNR_dB, [s, k]), k]) == s))
        goals.append(Goal("EbN0 == SNR - 10 log10 k", e == s - 10 * k.to_real().log10()))
        return goals
    return verify(body, timeout_ms=30000)


# ------------------------------------------------------------------ bounded native
def _rand_c(rr, m, n):
    return rr.randn(m, n) + 1j * rr.randn(m, n)


GMD_FAMILIES = {2: ("generic", "all_equal"), 3: ("generic", "all_equal", "top_equal", "bottom_equal", "middle_is_mean")}


def _gmd_inputs(c, p, family):
    """singular values s0 >= ... >= s_{p-1} > 0; the families partition this domain (generic = strictly decreasing and, for p = 3,
    the middle value different from the geometric mean), so that each degenerate branch of gmd is reached with inputs that make
    the degeneracy a polynomial fact"""
    S = np.empty(p, dtype=object)
    if family == "generic":
        for i in range(p):
            S[i] = c.var("s%d" % i, "real")
        for i in range(p - 1):
            c.assume(S[i] > S[i + 1])
        c.assume(S[p - 1] > 0)
        if p == 3:
            c.assume(S[1] * S[1] != S[0] * S[2])
    elif family == "all_equal":
        s = c.var("s", "real")
        c.assume(s > 0)
        for i in range(p):
            S[i] = s
    elif family in ("top_equal", "bottom_equal"):
        a, b = c.var("a", "real"), c.var("b", "real")
        c.assume((a > b) & (b > 0))
        S[0], S[1], S[2] = (a, a, b) if family == "top_equal" else (a, b, b)
    elif family == "middle_is_mean":
        t, r = c.var("t", "real"), c.var("r", "real")
        c.assume((t > 0) & (r > 1))
        S[0], S[1], S[2] = t * r, t, t / r
    c.inputs.update(S=list(S))
    return S


def _gmd_replay(p):
    def rp(mv):
        import pyphysim.util.misc as misc
        try:
            S = np.array([float(x) for x in mv["S"]])
            if not (np.all(np.diff(S) <= 0) and S[-1] > 0):
                return {"confirmed": False, "note": "model outside the domain in binary64", "S": S.tolist()}
            r = stable_rng("C20gmd")
            A = r.standard_normal((p, p))
            U, _, Vh = np.linalg.svd(A)
            out = {"S": S.tolist()}
            import warnings
            with warnings.catch_warnings():
                warnings.simplefilter("ignore")
                try:
                    Q, R, P = misc.gmd(U, S, Vh)
                except Exception as e:
                    out.update(confirmed=True, observed="raised %r" % e)
                    return out
            A0 = U @ np.diag(S) @ Vh
            gm = float(np.prod(S) ** (1.0 / p))
            bad = (not np.all(np.isfinite(Q)) or not np.all(np.isfinite(R)) or not np.all(np.isfinite(P))
                   or np.abs(Q @ R @ P.conj().T - A0).max() > 1e-9 * S[0] or np.abs(Q.conj().T @ Q - np.eye(p)).max() > 1e-9
                   or np.abs(P.conj().T @ P - np.eye(p)).max() > 1e-9 or np.abs(np.tril(R, -1)).max() > 1e-9 * S[0]
                   or np.abs(np.diag(R) - gm).max() > 1e-9 * gm)
            out.update(confirmed=bool(bad), diag_R=np.diag(R).tolist(), geometric_mean=gm,
                       reconstruction_error=float(np.nan_to_num(np.abs(Q @ R @ P.conj().T - A0).max(), nan=1e300)))
            return out
        except Exception as e:
            return {"confirmed": False, "error": repr(e)}
    return rp


@obligation("gmd/geometric_mean_decomposition", params=[{"p": p, "family": f} for p in (2, 3) for f in GMD_FAMILIES[p]], timeout=300,
            desc="gmd(U, S, V^H) symbolically executed for p = 2, 3 singular values (ALL s0 >= .. >= s_{p-1} > 0, by the case analysis of "
                 "GMD_FAMILIES; geometric mean through the n-th-root contract root(x)^p == x): with U = V = I the result satisfies "
                 "Q R P^T == diag(S), Q^T Q == I, P^T P == I, R upper triangular with every diagonal entry the positive p-th root of "
                 "prod(S); no division by zero / sqrt of a negative on any path (repeated singular values included); and for GENERIC "
                 "symbolic U, V the routine only recombines columns: Q == U X, P == V Y, R unchanged (so A == Q R P^H for every A = U S V^H)")
def ob_gmd(p, family):
    def body(c, it):
        import pyphysim.util.misc as misc
        S = _gmd_inputs(c, p, family)
        I = np.eye(p)
        X, R, Y = it.call(misc.gmd, [I, S, I])
        goals = [Goal("shapes", np.shape(X) == (p, p) and np.shape(R) == (p, p) and np.shape(Y) == (p, p))]
        if not goals[0].cond:
            return goals
        X, R, Y = (np.asarray(x, dtype=object) for x in (X, R, Y))
        if family != "generic":
            sig = lift(R[p - 1, p - 1])
            for i in range(p):
                if c.add_ring_equality(sig, S[i], 3000):
                    break
        D = np.zeros((p, p), dtype=object)
        for i in range(p):
            D[i, i] = S[i]
        goals.append(Goal("Q R P^T == diag(S)", _meq(X.dot(R).dot(Y.T), D)))
        goals.append(Goal("Q^T Q == I", _meq(X.T.dot(X), np.eye(p, dtype=object))))
        goals.append(Goal("P^T P == I", _meq(Y.T.dot(Y), np.eye(p, dtype=object))))
        low = [R[i, j] for i in range(p) for j in range(i)]
        goals.append(Goal("R upper triangular", all((not sym.is_sym(x) and x == 0) or bool(z3.is_true(z3.simplify((lift(x) == 0).t))) for x in low)))
        prod = S[0]
        for i in range(1, p):
            prod = prod * S[i]
        for i in range(p):
            pw = lift(R[i, i])
            for _ in range(p - 1):
                pw = pw * R[i, i]
            goals.append(Goal("R[%d,%d]^p == prod(S) and R[%d,%d] > 0" % (i, i, i, i), frac_eq(pw, prod) & (lift(R[i, i]) > 0)))
        # frame: only column operations on U and V^H^H
        U, V = _rmat(c, "U", p, p), _rmat(c, "V", p, p)
        Q, R2, P = it.call(misc.gmd, [U, S, V.T])
        Q, R2, P = (np.asarray(x, dtype=object) for x in (Q, R2, P))
        goals.append(Goal("generic U: Q == U X", _meq(Q, U.dot(X))))
        goals.append(Goal("generic V: P == V Y", _meq(P, V.dot(Y))))
        goals.append(Goal("R does not depend on U, V", _meq(R2, R)))
        return goals
    return verify(body, check_side=True, timeout_ms=20000, max_paths=50, replay=_gmd_replay(p))


@obligation("native/kernels", kind="bounded", timeout=900,
            desc="complex/real matrices of sizes 1..8 (condition number <= 1e4): projection identities, the three chordal-distance routines "
                 "agree (1e-9), symmetric, zero for equal subspaces, invariant to basis change and to a common unitary rotation; gmd "
                 "reconstructs the matrix with orthonormal factors and an upper-triangular factor of constant diagonal (also for singular "
                 "values in geometric progression); selectors; Sherman-Morrison; repeated reflect/oProject on one object")
def ob_native():
    import pyphysim.subspace.projections as pr
    import pyphysim.subspace.metrics as mt
    import pyphysim.util.misc as misc
    r = stable_rng("C20native")

    def gen():
        for i in range(120 if quick() else 1500):
            yield {"seed": int(r.randint(1 << 30)), "n": int(1 + i % 8), "real": bool((i // 8) % 2)}

    def check(case):
        rr = np.random.RandomState(case["seed"])
        n = case["n"]
        k = int(rr.randint(1, n + 1))
        mk = (lambda a, b: rr.randn(a, b)) if case["real"] else (lambda a, b: _rand_c(rr, a, b))
        A = mk(n, k)
        if (not (np.linalg.cond(A) <= 1e4)):
            return None
        fr = Frame(A=A)
        P = pr.Projection(A)
        M = mk(n, 2)
        fr.watch(M=M, Q=P.Q, oQ=P.oQ)
        tol = 1e-9
        if (not (np.abs(P.Q - P.Q.conj().T).max() <= tol)) or (not (np.abs(P.Q @ P.Q - P.Q).max() <= tol)) or (not (np.abs(P.Q @ A - A).max() <= tol * max(1, np.abs(A).max()))):
            return {"projection identities": n}
        r1 = P.reflect(M)
        r2 = P.reflect(r1)
        if (not (np.abs(r2 - M).max() <= 1e-8 * max(1, np.abs(M).max()))):
            return {"reflect twice != identity": float(np.abs(r2 - M).max())}
        if (not (np.abs(P.project(M) + P.oProject(M) - M).max() <= tol * max(1, np.abs(M).max()))) or (not (np.abs(P.oProject(A)).max() <= 1e-8 * max(1, np.abs(A).max()))):
            return {"project + oProject != M (after reflect)": True}
        if fr.changed():
            return {"frame: an input or the projector itself changed through use": fr.changed()}
        if (not (np.abs(P.oQ - (np.eye(n) - P.Q)).max() <= tol)):
            return {"oQ != I - Q after use": True}
        B = mk(n, k)
        if (not (np.linalg.cond(B) >= 1e4)):
            d1, d2 = mt.calc_chordal_distance(A, B), mt.calc_chordal_distance_2(A, B)
            d3 = mt.calc_chordal_distance_from_principal_angles(mt.calc_principal_angles(A, B))
            if (not (max(abs(d1 - d2), abs(d1 - d3)) <= 1e-7)):
                return {"chordal distance routines disagree": [d1, d2, d3]}
            if (not (abs(mt.calc_chordal_distance(B, A) - d1) <= 1e-9)) or (not (mt.calc_chordal_distance(A, A) <= 1e-7)):
                return {"chordal symmetry / zero": True}
            T = mk(k, k)
            if (not (np.linalg.cond(T) >= 1e3)):
                if (not (abs(mt.calc_chordal_distance(A @ T, B) - d1) <= 1e-7)) or (not (abs(mt.calc_chordal_distance_2(A @ T, B) - d2) <= 1e-7)):
                    return {"basis change": True}
            Uq = np.linalg.qr(mk(n, n))[0]
            if (not (abs(mt.calc_chordal_distance(Uq @ A, Uq @ B) - d1) <= 1e-7)):
                return {"unitary rotation": True}
        # close but unequal subspaces: one basis vector tilted by a known small angle out of span(A); the distance is sin(theta) in
        # all three routines and in particular not zero
        if n > k:
            Qf = np.linalg.qr(np.hstack([A, mk(n, n - k)]))[0]
            for theta in (3e-3, 1e-3, 1e-4):
                Bc = Qf[:, :k].copy()
                Bc[:, 0] = math.cos(theta) * Qf[:, 0] + math.sin(theta) * Qf[:, k]
                Tc = mk(k, k)
                if (not (np.linalg.cond(Tc) <= 1e2)):
                    Tc = np.eye(k)
                Bc = Bc @ Tc
                ds = [mt.calc_chordal_distance(A, Bc), mt.calc_chordal_distance_2(A, Bc),
                      mt.calc_chordal_distance_from_principal_angles(mt.calc_principal_angles(A, Bc))]
                if (not (max(abs(d - math.sin(theta)) for d in ds) <= 1e-7)):
                    return {"subspaces at the known small principal angle": theta, "chordal distances (three routines)": [float(d) for d in ds],
                            "expected": math.sin(theta)}
        # gmd (incl. exactly repeated singular values: scaled identities, permutations, diag(4,2,2,1)-like)
        H = mk(n, n)
        if case["seed"] % 3 == 0:
            sv = 2.0 ** np.arange(n, 0, -1)
            H = np.linalg.qr(mk(n, n))[0] @ np.diag(sv) @ np.linalg.qr(mk(n, n))[0]
        special = [H]
        if case["seed"] % 3 == 1:
            special = [3.0 * np.eye(n), np.eye(n)[rr.permutation(n)], 1j * np.eye(n),
                       np.diag(([4.0, 2.0, 2.0, 1.0, 1.0, 0.5, 0.5, 0.25])[:n])]
        for H in special:
            if (not (np.linalg.cond(H) >= 1e4)):
                U, S, Vh = np.linalg.svd(H)
                with np.errstate(all="ignore"):
                    Q, R, Pm = misc.gmd(U, S, Vh)
                if not (np.all(np.isfinite(Q)) and np.all(np.isfinite(R)) and np.all(np.isfinite(Pm))):
                    return {"gmd returned non-finite factors": n, "singular values": S.tolist()}
                if not (not (np.abs(Q @ R @ Pm.conj().T - H).max() > 1e-8 * max(1, np.abs(H).max()))):
                    return {"gmd reconstruction": float(np.abs(Q @ R @ Pm.conj().T - H).max()), "n": n}
                if not ((not (np.abs(Q.conj().T @ Q - np.eye(n)).max() > 1e-8)) and (not (np.abs(Pm.conj().T @ Pm - np.eye(n)).max() > 1e-8))):
                    return {"gmd factors not orthonormal": n}
                if not ((not (np.abs(np.tril(R, -1)).max() > 1e-9)) and (not (np.abs(np.diag(R) - np.prod(S) ** (1.0 / n)).max() > 1e-8 * max(1, S.max())))):
                    return {"gmd R not upper triangular with constant diagonal": n}
        # selectors on Hermitian matrices with distinct eigenvalues
        Hm = mk(n, n)
        Hm = Hm @ Hm.conj().T + np.diag(np.arange(n))
        kk = int(rr.randint(1, n + 1))
        for fn, largest in ((misc.peig, True), (misc.leig, False)):
            V, D = fn(Hm, kk)
            w = np.sort(np.linalg.eigvalsh(Hm))
            want = w[::-1][:kk] if largest else w[:kk]
            if (not (np.abs(np.sort(D.real) - np.sort(want)).max() <= 1e-7 * max(1, np.abs(w).max()))) or (not (np.abs(Hm @ V - V * D).max() <= 1e-6 * max(1, np.abs(w).max()))):
                return {fn.__name__: "not the requested eigenpairs"}
        if n >= 2:
            W = mk(n, n)
            nn = int(rr.randint(1, n))
            V0, V1, S1 = misc.least_right_singular_vectors(W, nn)
            s = np.linalg.svd(W, compute_uv=False)
            if V0.shape != (n, nn) or (not (np.abs(np.sort(np.linalg.norm(W @ V0, axis=0)) - np.sort(s[-nn:])).max() <= 1e-8 * max(1, s.max()))):
                return {"least_right_singular_vectors": "V0 not the least singular directions"}
            if (not (np.abs(np.sort(S1) - np.sort(s[:n - nn])).max() <= 1e-9 * max(1, s.max()))):
                return {"least_right_singular_vectors": "S1"}
        Am = mk(n, n) + n * np.eye(n)
        dd = rr.rand(n) + 0.1
        out = misc.update_inv_sum_diag(np.linalg.inv(Am), dd)
        if (not (np.abs(out @ (Am + np.diag(dd)) - np.eye(n)).max() <= 1e-7)):
            return {"update_inv_sum_diag": float(np.abs(out @ (Am + np.diag(dd)) - np.eye(n)).max())}
        return None
    return bounded(gen(), check)


@obligation("whitening/identity_through_the_eig_contract", params=[{"kind": k} for k in ("r2", "r3", "c2")], timeout=300,
            desc="calc_whitening_matrix / calc_decorrelation_matrix with np.linalg.eig under its library contract for Hermitian positive "
                 "definite matrices with DISTINCT eigenvalues: R := V diag(L) V^H with every orthogonal / unitary V of the size (angle atoms, "
                 "as in C04) and symbolic L_i > 0 - every such covariance is of this form and eig applied to exactly this R returns (L, V) up "
                 "to the order / phase of the columns, which the identities below do not depend on: W^H R W == I for the whitening matrix "
                 "W = V diag(1/sqrt L) (sqrt(x)^2 = x), D^H R D == diag(L) and D^H D == I for the decorrelation matrix.  (Repeated eigenvalues, "
                 "where numpy's eig does not return orthogonal vectors, are the recorded known finding.)")
def ob_whitening_eig(kind):
    def body(c, it):
        import pyphysim.util.misc as misc
        from .C04 import _unitary
        n = int(kind[1])
        V = _unitary(c, "V", n, "r" if kind[0] == "r" else "c")
        L = np.empty(n, dtype=object)
        for i in range(n):
            L[i] = c.var("l%d" % i, "real")
            c.assume(L[i] > 0)
        D = np.zeros((n, n), dtype=object)
        for i in range(n):
            D[i, i] = L[i]
        R = V.dot(D).dot(_conjT(V))
        calls = []

        def m_eig(interp, A):
            A = np.asarray(A, dtype=object)
            calls.append(A.shape == R.shape and all(a is b or bool(z3.is_true(z3.simplify(cfrac_eq(a, b).t))) for a, b in zip(A.flat, R.flat)))
            return L.copy(), V.copy()
        it.models[np.linalg.eig] = m_eig
        W = np.asarray(it.call(misc.calc_whitening_matrix, [R]), dtype=object)
        goals = [Goal("eig asked for the covariance itself", calls == [True]), Goal("whitening matrix n x n", W.shape == (n, n))]
        if W.shape != (n, n):
            return goals
        goals.append(Goal("W^H R W == I", _meq(_conjT(W).dot(R).dot(W), np.eye(n, dtype=object))))
        Dm = np.asarray(it.call(misc.calc_decorrelation_matrix, [R]), dtype=object)
        goals.append(Goal("decorrelation: D^H R D == diag(L)", _meq(_conjT(Dm).dot(R).dot(Dm), D)))
        goals.append(Goal("decorrelation: D^H D == I", _meq(_conjT(Dm).dot(Dm), np.eye(n, dtype=object))))
        return goals

    def rp(mv):
        # replay on the real routines: covariances with distinct eigenvalues (those of the counter-model when it has them), generic unitary factors
        import pyphysim.util.misc as misc
        from .common import num
        try:
            n = int(kind[1])
            rr = np.random.RandomState(17)
            Ls = []
            try:
                cand = [float(num(mv.get("l%d" % i), 0.0)) for i in range(n)]
                if min(cand) > 0 and len(set(cand)) == n:
                    Ls.append(cand)
            except Exception:
                pass
            Ls += [list(np.linspace(0.5, 3.0, n)), list(10.0 ** -np.arange(9, 9 + n))]
            for L in Ls:
                A = rr.randn(n, n) + (1j * rr.randn(n, n) if kind[0] == "c" else 0)
                V, _ = np.linalg.qr(A)
                R = V @ np.diag(L) @ V.conj().T
                W = misc.calc_whitening_matrix(R)
                e = float(np.abs(W.conj().T @ R @ W - np.eye(n)).max())
                if not (e <= 1e-8):
                    return {"confirmed": True, "eigenvalues of the covariance": [float(x) for x in L], "max |W^H R W - I|": e}
            return {"confirmed": False, "note": "real whitening matrices whiten these covariances"}
        except Exception as e:
            return {"confirmed": False, "error": "replay crashed: %r" % (e,)}
    return verify(body, check_side=False, timeout_ms=120000, replay=rp)


@obligation("native/whitening_distinct_eigenvalues", kind="bounded",
            desc="calc_whitening_matrix on Hermitian positive definite covariances with distinct eigenvalues (sizes 1..8, absolute scales 1e-16 .. 1e6): W^H R W == I (1e-8)")
def ob_whiten_ok():
    import pyphysim.util.misc as misc
    r = stable_rng("C20white")

    def gen():
        for i in range(100 if quick() else 1000):
            yield {"seed": int(r.randint(1 << 30)), "n": int(1 + i % 8), "scale": [1.0, 1e-9, 1e-13, 1e6, 1e-16, 1e-11][(i // 8) % 6]}

    def check(case):
        rr = np.random.RandomState(case["seed"])
        n = case["n"]
        X = _rand_c(rr, n, n + 3)
        R = X @ X.conj().T / (n + 3) + 0.05 * np.eye(n)
        # covariances in physical units (interference plus noise in Watt: -60 ... -130 dBm) are as positive definite as unit-scale ones
        R = R * case.get("scale", 1.0)
        W = misc.calc_whitening_matrix(R)
        e = np.abs(W.conj().T @ R @ W - np.eye(n)).max()
        return {"|W^H R W - I|": float(e), "n": n, "scale of the covariance": case.get("scale", 1.0)} if (not (e <= 1e-8)) else None
    return bounded(gen(), check)


@obligation("native/whitening_repeated_eigenvalues", kind="bounded",
            desc="calc_whitening_matrix on R = h h^H + 0.5 I, h = (1, j, 2) (Hermitian positive definite, eigenvalue 0.5 repeated): W^H R W == I")
def ob_whiten_repeated():
    import pyphysim.util.misc as misc

    def check(case):
        h = np.array([[1], [1j], [2]])
        R = h @ h.conj().T + 0.5 * np.eye(3)
        W = misc.calc_whitening_matrix(R)
        e = np.abs(W.conj().T @ R @ W - np.eye(3)).max()
        return {"|W^H R W - I|": float(e)} if (not (e <= 1e-8)) else None
    return bounded([{"R": "hh^H + 0.5 I"}], check)


@obligation("native/least_right_singular_vectors_wide", kind="bounded",
            desc="least_right_singular_vectors on a wide 2x4 matrix with n in {0,1} (n < cols - rows) returns the n least right singular vectors")
def ob_lrsv_wide():
    import pyphysim.util.misc as misc

    def check(case):
        rr = np.random.RandomState(3)
        A = rr.randn(2, 4)
        try:
            V0, V1, S1 = misc.least_right_singular_vectors(A, case["n"])
        except IndexError as e:
            return {"raised IndexError": str(e)[:80]}
        return None
    return bounded([{"n": 1}, {"n": 0}], check)


@obligation("conversions/representation_independent", kind="exhaustive",
            desc="the proofs treat the argument of a conversion as a number: on the real code the result must not depend on how the number "
                 "is stored - every value of a fixed set as Python int, numpy scalar and array of every integer type that can hold it "
                 "(uint8..uint64, int8..int64), float32/float64: dB2Linear, dBm2Linear, linear2dB, linear2dBm, SNR_dB_to_EbN0_dB, "
                 "EbN0_dB_to_SNR_dB give the float64 result (1e-12 relative; 1e-6 for float32) and the round trips return the value")
def ob_conv_representation():
    import pyphysim.util.conversion as cv
    values = [0, 1, 3, 10, 23, 29, 30, 31, 60, 100, 127, -1, -30, -98, -100, -128, 200, 255, 1000, 2500]
    dtypes = [np.uint8, np.uint16, np.uint32, np.uint64, np.int8, np.int16, np.int32, np.int64, np.float32, np.float64]

    def cases():
        for v in values:
            for dt in dtypes:
                if np.issubdtype(dt, np.integer):
                    info = np.iinfo(dt)
                    if not (info.min <= v <= info.max):
                        continue
                if dt is np.float32 and abs(v) > 300:
                    continue          # float32 operands are computed in float32 (10^30 is representable, 10^100 is not)
                for form in ("scalar", "array", "0d"):
                    yield {"value": v, "dtype": np.dtype(dt).name, "form": form}
            yield {"value": v, "dtype": "python int", "form": "scalar"}

    def check(case):
        v = case["value"]
        if case["dtype"] == "python int":
            x = int(v)
        else:
            dt = np.dtype(case["dtype"]).type
            x = dt(v) if case["form"] == "scalar" else (np.array([v, v], dtype=dt) if case["form"] == "array" else np.array(v, dtype=dt))
        tol = 1e-6 if case["dtype"] == "float32" else 1e-12
        f = float(v)
        with np.errstate(all="ignore"):
            for name, fn, ref in (("dB2Linear", cv.dB2Linear, 10 ** (f / 10)), ("dBm2Linear", cv.dBm2Linear, 10 ** (f / 10) / 1000),
                                  ("SNR_dB_to_EbN0_dB", lambda z: cv.SNR_dB_to_EbN0_dB(z, 4), f - 10 * math.log10(4)),
                                  ("EbN0_dB_to_SNR_dB", lambda z: cv.EbN0_dB_to_SNR_dB(z, 4), f + 10 * math.log10(4))):
                got = np.asarray(fn(x), dtype=float).ravel()
                if ref > 1e300 or (not np.all(np.abs(got - ref) <= tol * max(abs(ref), 1e-300) + (tol if "EbN0" in name or "SNR" in name else 0))):
                    if ref > 1e300:
                        continue
                    return {name: got.tolist()[:2], "expected": ref, "argument stored as": case["dtype"], "form": case["form"], "value": v}
            if v > 0:
                for name, fn, ref in (("linear2dB", cv.linear2dB, 10 * math.log10(f)), ("linear2dBm", cv.linear2dBm, 10 * math.log10(f) + 30)):
                    got = np.asarray(fn(x), dtype=float).ravel()
                    if not np.all(np.abs(got - ref) <= tol * max(abs(ref), 1.0)):
                        return {name: got.tolist()[:2], "expected": ref, "argument stored as": case["dtype"], "form": case["form"], "value": v}
            if abs(f) <= 300:
                back = np.asarray(cv.linear2dBm(cv.dBm2Linear(x)), dtype=float).ravel()
                if not np.all(np.abs(back - f) <= 1e-9 * max(1.0, abs(f)) + (1e-4 if case["dtype"] == "float32" else 0)):
                    return {"linear2dBm(dBm2Linear(x))": back.tolist()[:2], "x": v, "argument stored as": case["dtype"], "form": case["form"]}
        return None
    return exhaustive(cases(), check)


@obligation("native/conversions_float", kind="bounded",
            desc="binary64 over 30 decades: linear2dB(dB2Linear(x)) etc. mutually inverse to rel 1e-12, scalars and arrays")
def ob_conv_float():
    import pyphysim.util.conversion as cv

    def check(case):
        x = np.linspace(-150, 150, 601)
        y = 10 ** np.linspace(-15, 15, 601)
        if (not (np.abs(cv.linear2dB(cv.dB2Linear(x)) - x).max() <= 1e-10)) or (not (np.abs(cv.dB2Linear(cv.linear2dB(y)) / y - 1).max() <= 1e-12)):
            return {"dB": True}
        if (not (np.abs(cv.linear2dBm(cv.dBm2Linear(x)) - x).max() <= 1e-10)) or (not (np.abs(cv.dBm2Linear(cv.linear2dBm(y)) / y - 1).max() <= 1e-12)):
            return {"dBm": True}
        if (not (abs(cv.dBm2Linear(60) - 1000.0) <= 1e-9)) or (not (abs(cv.linear2dBm(1000) - 60) <= 1e-12)):
            return {"dBm anchor": True}
        for k in (1, 2, 4, 6, 10):
            if (not (np.abs(cv.EbN0_dB_to_SNR_dB(cv.SNR_dB_to_EbN0_dB(x, k), k) - x).max() <= 1e-10)):
                return {"EbN0": k}
        if (not (abs(cv.dB2Linear(30.0) - 1000) <= 1e-9)) or (not (abs(float(cv.linear2dB(1000)) - 30) <= 1e-12)):
            return {"dB anchor": True}
        return None
    return bounded([{}], check)
