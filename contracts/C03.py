"""C03  TDL channel output is the convolution with the impulse response it reports.

Functions under contract: TdlChannelProfile._calc_discretized_tap_powers_and_delays/get_discretize_profile, TdlImpulseResponse.*
(sparse/dense views, get_freq_response, __mul__/__rmul__, concatenate_samples), TdlChannel.generate_impulse_response/
corrupt_data/corrupt_data_in_freq_domain, SuChannel.corrupt_data/corrupt_data_in_freq_domain/get_last_impulse_response/
set_pathloss, MuChannel.corrupt_data/corrupt_data_in_freq_domain/set_pathloss.
The fading generator is an abstract callee: every requested sample is a fresh symbolic complex value (covers Jakes and Rayleigh).
"""
import itertools
import math

import numpy as np
import z3

from pyvc import sym
from pyvc.sym import lift, cfrac_eq, frac_eq
from pyvc.interp import PyRaise, SObj, _dft_matrix
from pyvc.oblig import obligation, verify, bounded, Goal, merge
from .common import stable_rng, quick, Frame, num
from .C08 import _cmat
from .C20 import _meq

LEVEL = "proof"
EXPLANATION = ("The real corrupt_data / corrupt_data_in_freq_domain are symbolically executed with a symbolic input signal, an abstract "
               "fading generator (fresh symbolic sample per request) and concrete delay profiles (incl. profiles whose first tap is not at "
               "0 and non-contiguous delays): the output equals the time-varying convolution of the input with the impulse response "
               "reported AFTERWARDS by get_last_impulse_response (sparse taps at the profile's delays), has length input + memory; "
               "MIMO in both link directions with unequal antenna counts; two consecutive transmissions; frequency-domain "
               "transmission equals per-block multiplication by the DFT (size 4, exact) of the block's reported response for None / "
               "index list / slice selections incl. slice steps that do not divide the span, with the generator advanced by fft_size-1 "
               "between blocks and the reported response the concatenation of the block responses.  Single/multi-user wrappers: output "
               "and reported response are both scaled by sqrt(path loss) for every path loss in [0,1] incl. exactly 0; multi-user "
               "superposition per receiver.  Discretisation: unique sorted integer delays, colliding taps merged, powers sum to one.")
ASSUMPTIONS = [
    "delay profiles and lengths configuration-concrete (signal values, tap samples, path loss, tap powers symbolic); ideal reals",
    "np.fft.fft contract = DFT matrix (exact for fft size 4); np.unique/round executed natively on concrete delays",
    "linearity in the input is a corollary of the proved convolution form (the spec is linear in x)",
]
TRUSTED_BASE = ["numpy slicing / in-place sliced += / concatenate executed natively on object arrays"]


class SymFading:
    """abstract fading generator: fresh symbolic complex samples; logs every request (ghost position)"""

    def __init__(self, c, shape=None):
        self.c = c
        self._shape = shape
        self._samples = None
        self.log = []
        self.n = 0

    @property
    def shape(self):
        return self._shape

    @shape.setter
    def shape(self, v):
        self._shape = v

    def generate_more_samples(self, num_samples=None):
        num_samples = 1 if num_samples is None else int(num_samples)
        shp = tuple(self._shape or ()) + (num_samples,)
        out = np.empty(shp, dtype=object)
        for pos in np.ndindex(*shp):
            out[pos] = self.c.var("g%d_%s" % (self.n, "_".join(map(str, pos))), "complex")
        self.n += 1
        self._samples = out
        self.log.append(("gen", num_samples))

    def get_samples(self):
        return self._samples

    def skip_samples_for_next_generation(self, num_samples):
        self.log.append(("skip", int(num_samples)))

    def get_similar_fading_generator(self):
        return SymFading(self.c, self._shape)


def _profile(delays, powers_dB=None):
    from pyphysim.channels import fading
    delays = np.array(delays, dtype=float)
    p = fading.TdlChannelProfile(np.zeros(len(delays)) if powers_dB is None else np.array(powers_dB, dtype=float), delays)
    return p.get_discretize_profile(1.0)


def _sig(c, tag, *shape):
    a = np.empty(shape, dtype=object)
    for pos in np.ndindex(*shape):
        a[pos] = c.var("%s%s" % (tag, "_".join(map(str, pos))), "complex")
    return a


def _conv_spec(x, taps, delays, N):
    """out[n] = sum_i taps[i][n - d_i] * x[n - d_i]   (time-varying sparse convolution)"""
    L = N + int(delays[-1])
    out = np.zeros(L, dtype=object)
    for i, d in enumerate(delays):
        d = int(d)
        for m in range(N):
            out[d + m] = out[d + m] + taps[i][m] * x[m]
    return out


PROFILES = {"contig": [0, 1, 2], "sparse": [0, 2, 5], "late": [2, 3, 5], "single_late": [3]}


@obligation("siso/output_is_convolution_with_reported_response", params=[{"profile": p} for p in PROFILES], timeout=200,
            desc="TdlChannel.corrupt_data (SISO), symbolic signal of 4 samples, two consecutive transmissions: output == time-varying "
                 "convolution with the response reported afterwards; length == input + memory; reported delays == profile delays")
def ob_siso(profile):
    def body(c, it):
        from pyphysim.channels import fading
        prof = _profile(PROFILES[profile])
        gen = SymFading(c)
        ch = it.call(fading.TdlChannel, [gen, prof])
        goals = []
        for rnd in range(2):
            N = 4 - rnd
            x = _sig(c, "x%d_" % rnd, N)
            out = it.call(it.getattr(ch, "corrupt_data"), [x])
            ir = it.call(it.getattr(ch, "get_last_impulse_response"), [])
            taps = it.getattr(ir, "tap_values_sparse")
            delays = it.getattr(ir, "tap_indexes_sparse")
            goals.append(Goal("round %d: reported delays are the profile delays" % rnd, list(map(int, delays)) == PROFILES[profile]))
            goals.append(Goal("round %d: one reported sample per input sample" % rnd, np.shape(taps) == (len(delays), N)))
            mem = PROFILES[profile][-1]
            goals.append(Goal("round %d: output length == input + memory" % rnd, np.shape(out) == (N + mem,)))
            if np.shape(taps) == (len(delays), N) and np.shape(out) == (N + mem,):
                goals.append(Goal("round %d: output == conv(x, reported response)" % rnd, _meq(out, _conv_spec(x, taps, delays, N))))
                dense = it.getattr(ir, "tap_values")
                ok = np.shape(dense) == (mem + 1, N)
                goals.append(Goal("round %d: dense view has memory+1 rows, zeros off the profile delays" % rnd, ok and all(
                    (dense[d, m] is taps[list(delays).index(d), m]) if d in list(delays) else (dense[d, m] == 0)
                    for d in range(mem + 1) for m in range(N))))
        return goals
    return verify(body, check_side=False, timeout_ms=60000)


@obligation("mimo/both_directions", params=[{"switched": s, "profile": p, "ants": a, "form": f}
                                            for s in (False, True) for p in ("sparse", "late") for a in ("1x2", "2x1")
                                            for f in ("2d", "1d") if (f == "2d" and a == "1x2") or
                                            (f == "1d" and p == "sparse" and (a == "1x2") == s)], timeout=200,
            desc="TdlChannel with Nr x Nt = 1x2 / 2x1 antennas (unequal on purpose): forward out[rx] = sum_tx conv(x[tx], g[:,rx,tx]); "
                 "switched direction out[tx] = sum_rx conv(x[rx], g[:,rx,tx]); row count Nr resp. Nt; length input + memory; a single "
                 "input stream may be given as a 1-D array (form=1d) with the same result")
def ob_mimo(switched, profile, ants="1x2", form="2d"):
    def body(c, it):
        from pyphysim.channels import fading
        prof = _profile(PROFILES[profile])
        gen = SymFading(c)
        ch = it.call(fading.TdlChannel, [gen, prof])
        Nr, Nt = (1, 2) if ants == "1x2" else (2, 1)
        it.call(it.getattr(ch, "set_num_antennas"), [Nr, Nt])
        it.setattr(ch, "switched_direction", switched)
        N = 3
        nin, nout = (Nr, Nt) if switched else (Nt, Nr)
        x = _sig(c, "x", nin, N)
        out = it.call(it.getattr(ch, "corrupt_data"), [x[0] if form == "1d" else x])
        ir = it.call(it.getattr(ch, "get_last_impulse_response"), [])
        taps = it.getattr(ir, "tap_values_sparse")
        delays = PROFILES[profile]
        mem = delays[-1]
        goals = [Goal("reported response shape (taps, Nr, Nt, N)", np.shape(taps) == (len(delays), Nr, Nt, N)),
                 Goal("output shape", np.shape(out) == (nout, N + mem))]
        if not all(g.cond for g in goals):
            return goals
        for o in range(nout):
            spec = np.zeros(N + mem, dtype=object)
            for i_ in range(nin):
                g = taps[:, i_, o, :] if switched else taps[:, o, i_, :]
                spec = spec + _conv_spec(x[i_], g, delays, N)
            goals.append(Goal("output antenna %d is the superposition of the per-link convolutions" % o, _meq(out[o], spec)))
        return goals
    return verify(body, check_side=False, timeout_ms=60000)


SELECTIONS = {"all": None, "list": [0, 2, 3], "array": "np[3,1]", "slice_step_divides": slice(0, 4, 2), "slice_step_not_dividing": slice(0, 4, 3),
              "slice_open": slice(1, None, None),
              # selections with exactly fft_size entries that are NOT 'all carriers in natural order'
              "perm_all": "np[2,0,3,1]", "slice_reversed": slice(None, None, -1), "repeats_full_length": [1, 1, 2, 3],
              # fft_size 8 (DFT contract with h = sqrt(1/2))
              "fft8_all": None, "fft8_slice_step3": slice(1, 8, 3), "fft8_array": "np[7,2,5]"}


@obligation("freq/per_block_dft_of_reported_response", params=[{"sel": s} for s in SELECTIONS], timeout=200,
            desc="corrupt_data_in_freq_domain(x, fft_size=4 (and 8), selection) for every selection kind: block size == number of selected "
                 "carriers, block b of the output == DFT_4(dense response of block b)[selection] * x[block b]; generator advanced by one "
                 "sample + fft_size-1 skipped per block; reported response == concatenation of the block responses; wrong input length "
                 "-> ValueError")
def ob_freq(sel):
    def body(c, it):
        from pyphysim.channels import fading
        selection = SELECTIONS[sel]
        if isinstance(selection, str):
            selection = {"np[3,1]": np.array([3, 1]), "np[7,2,5]": np.array([7, 2, 5]), "np[2,0,3,1]": np.array([2, 0, 3, 1])}[selection]
        prof = _profile([0, 2])
        gen = SymFading(c)
        ch = it.call(fading.TdlChannel, [gen, prof])
        fft = 8 if sel.startswith("fft8") else 4
        idx = list(range(fft)) if selection is None else (list(range(*selection.indices(fft))) if isinstance(selection, slice) else list(selection))
        B = len(idx)
        nblocks = 2
        x = _sig(c, "x", B * nblocks)
        out = it.call(it.getattr(ch, "corrupt_data_in_freq_domain"), [x, fft, selection])
        goals = [Goal("output has one value per input symbol", np.shape(out) == (B * nblocks,))]
        ir = it.call(it.getattr(ch, "get_last_impulse_response"), [])
        taps = it.getattr(ir, "tap_values_sparse")
        goals.append(Goal("reported response has one sample per block", np.shape(taps) == (2, nblocks)))
        goals.append(Goal("generator: one sample then fft_size-1 skipped, per block",
                          gen.log == [("gen", 1), ("skip", fft - 1)] * nblocks))
        if not all(g.cond for g in goals):
            return goals
        F = _dft_matrix(fft, False)
        for b in range(nblocks):
            dense = np.zeros(fft, dtype=object)
            dense[0], dense[2] = taps[0, b], taps[1, b]
            Hf = np.dot(F, dense)
            spec = np.array([Hf[k] * x[b * B + j] for j, k in enumerate(idx)], dtype=object)
            goals.append(Goal("block %d == DFT(reported response of block %d)[selection] * x" % (b, b), _meq(out[b * B:(b + 1) * B], spec)))
        try:
            it.call(it.getattr(ch, "corrupt_data_in_freq_domain"), [_sig(c, "y", B + 1), fft, selection])
            if (B + 1) % B != 0:
                goals.append(Goal("length not a multiple of the block size rejected", False))
        except PyRaise as pr:
            goals.append(Goal("length not a multiple of the block size -> ValueError", isinstance(pr.exc, ValueError)))
        return goals
    return verify(body, check_side=False, timeout_ms=60000)


@obligation("freq/mimo_per_block_dft", params=[{"ants": a, "switched": sw, "sel": sl} for a in ("1x2", "2x1") for sw in (False, True)
                                               for sl in ("all", "array")], timeout=200,
            desc="MIMO corrupt_data_in_freq_domain (fft 4, symbolic signals and tap samples, both link directions, all carriers or an index "
                 "array): out[o, block] == sum_i DFT_4(dense response of the block for the antenna pair)[selection] * x[i, block]; one row "
                 "per output antenna")
def ob_freq_mimo(ants, switched, sel):
    def body(c, it):
        from pyphysim.channels import fading
        prof = _profile([0, 2])
        gen = SymFading(c)
        ch = it.call(fading.TdlChannel, [gen, prof])
        Nr, Nt = (1, 2) if ants == "1x2" else (2, 1)
        it.call(it.getattr(ch, "set_num_antennas"), [Nr, Nt])
        it.setattr(ch, "switched_direction", switched)
        fft = 4
        selection = None if sel == "all" else np.array([3, 0, 1])
        idx = list(range(fft)) if selection is None else list(selection)
        B, nblocks = len(idx), 2
        nin, nout = (Nr, Nt) if switched else (Nt, Nr)
        x = _sig(c, "x", nin, B * nblocks)
        out = it.call(it.getattr(ch, "corrupt_data_in_freq_domain"), [x, fft, selection])
        ir = it.call(it.getattr(ch, "get_last_impulse_response"), [])
        taps = it.getattr(ir, "tap_values_sparse")
        goals = [Goal("output shape (outputs, symbols)", np.shape(out) == (nout, B * nblocks)),
                 Goal("reported response (taps, Nr, Nt, blocks)", np.shape(taps) == (2, Nr, Nt, nblocks))]
        if not all(g.cond for g in goals):
            return goals
        F = _dft_matrix(fft, False)
        for b in range(nblocks):
            for o in range(nout):
                spec = np.zeros(B, dtype=object)
                for i_ in range(nin):
                    dense = np.zeros(fft, dtype=object)
                    pair = (i_, o) if switched else (o, i_)
                    dense[0], dense[2] = taps[0, pair[0], pair[1], b], taps[1, pair[0], pair[1], b]
                    Hf = np.dot(F, dense)
                    spec = spec + np.array([Hf[k] * x[i_, b * B + j] for j, k in enumerate(idx)], dtype=object)
                goals.append(Goal("block %d, output antenna %d" % (b, o), _meq(out[o, b * B:(b + 1) * B], spec)))
        return goals
    return verify(body, check_side=False, timeout_ms=60000)


@obligation("su/pathloss_scales_output_and_reported_response", params=[{"domain": d} for d in ("time", "freq")], timeout=200,
            desc="SuChannel with a symbolic path loss p in [0,1] (p == 0 and p == 1 included): output == sqrt(p) * convolution/DFT product of "
                 "the UNSCALED taps and the reported response == sqrt(p) * unscaled taps (same factor at both sites); without path loss "
                 "both unscaled; p outside [0,1] -> ValueError")
def ob_su(domain):
    def body(c, it):
        from pyphysim.channels import singleuser
        prof = _profile([0, 2])
        gen = SymFading(c)
        su = it.call(singleuser.SuChannel, [gen, prof])
        p = c.var("p", "real")
        c.inputs["p"] = p
        goals = []
        try:
            it.call(it.getattr(su, "set_pathloss"), [p])
            goals.append(Goal("accepted => 0 <= p <= 1", (p >= 0) & (p <= 1)))
        except PyRaise as pr:
            return [Goal("rejected with ValueError", isinstance(pr.exc, ValueError)), Goal("rejected => outside [0,1]", (p < 0) | (p > 1))]
        N = 4
        x = _sig(c, "x", N)
        if domain == "time":
            out = it.call(it.getattr(su, "corrupt_data"), [x])
        else:
            out = it.call(it.getattr(su, "corrupt_data_in_freq_domain"), [x, 4])
        ir = it.call(it.getattr(su, "get_last_impulse_response"), [])
        taps = it.getattr(ir, "tap_values_sparse")
        raw = it.getattr(it.call(it.getattr(it.getattr(su, "_tdlchannel"), "get_last_impulse_response"), []), "tap_values_sparse")
        s = p.sqrt()
        goals.append(Goal("reported response == sqrt(p) * unscaled taps", _meq(taps, raw * s)))
        if domain == "time":
            spec = _conv_spec(x, raw, [0, 2], N) * s
        else:
            F = _dft_matrix(4, False)
            dense = np.zeros(4, dtype=object)
            dense[0], dense[2] = raw[0, 0], raw[1, 0]
            spec = np.dot(F, dense) * x * s
        goals.append(Goal("output == sqrt(p) * channel(x) with the unscaled taps", _meq(out, spec)))
        return goals
    return verify(body, check_side=False, timeout_ms=60000)


def _su_history_native(seq, with_reads=True):
    """the transmission history on a real SuChannel with path loss: after every transmission the reported response is sqrt(p) times
    the response the underlying tapped-delay line reports for THAT transmission, and the output is the channel applied with it"""
    from pyphysim.channels import singleuser, fading, fading_generators
    rr = np.random.RandomState(21)
    jakes = fading_generators.JakesSampleGenerator(Fd=0.01, Ts=1.0, L=8, RS=np.random.RandomState(4))
    su = singleuser.SuChannel(jakes, _profile([0, 2]))
    p = 0.37
    su.set_pathloss(p)
    done = []
    for dom in seq:
        N = 4 if dom == "time" else 8
        x = rr.randn(N) + 1j * rr.randn(N)
        out = su.corrupt_data(x) if dom == "time" else su.corrupt_data_in_freq_domain(x, 4)
        done.append(dom)
        ir = su.get_last_impulse_response()
        raw = su._tdlchannel.get_last_impulse_response()
        where = {"confirmed": True, "history": ">".join(done), "pathloss": p}
        if np.shape(ir.tap_values_sparse) != np.shape(raw.tap_values_sparse):
            return dict(where, reported_response_samples=list(np.shape(ir.tap_values_sparse)), last_transmission_samples=list(np.shape(raw.tap_values_sparse)))
        if (not (np.abs(ir.tap_values_sparse - math.sqrt(p) * raw.tap_values_sparse).max() <= 1e-12)):
            return dict(where, what="reported response is not sqrt(p) * the response of the last transmission",
                        max_abs_difference=float(np.abs(ir.tap_values_sparse - math.sqrt(p) * raw.tap_values_sparse).max()))
        if dom == "freq":
            fr = ir.get_freq_response(4)
            want = (fr[:, :2].T.reshape(-1) if False else None)
            blocks = x.reshape(-1, 4)
            want = np.concatenate([blocks[b] * fr[:, b] for b in range(blocks.shape[0])])
            if np.shape(out) != want.shape or (not (np.abs(out - want).max() <= 1e-9)):
                return dict(where, what="frequency-domain output is not the per-block product with the reported response",
                            max_abs_difference=float(np.abs(out - want).max()) if np.shape(out) == want.shape else "shape")
    return None


@obligation("su/reported_response_follows_last_transmission",
            params=[{"seq": "-".join(q)} for q in itertools.product(("time", "freq"), repeat=2)] +
            [{"seq": "time-freq-freq"}, {"seq": "freq-time-freq"}], timeout=300,
            desc="history on one SuChannel with a symbolic path loss: time- and frequency-domain transmissions in every order, the "
                 "reported response read after each: it is sqrt(p) * the unscaled response of THAT transmission (number of samples "
                 "included) and the output is the channel applied with exactly that response")
def ob_su_history(seq):
    ops = seq.split("-")

    def rp(model):
        try:
            return _su_history_native(ops) or {"confirmed": False, "note": "real SuChannel reports the response of the last transmission along this history"}
        except Exception as e:
            return {"confirmed": False, "error": "replay crashed: %r" % (e,)}

    def body(c, it):
        from pyphysim.channels import singleuser
        gen = SymFading(c)
        su = it.call(singleuser.SuChannel, [gen, _profile([0, 2])])
        p = c.var("p", "real")
        c.assume((p >= 0) & (p <= 1))
        it.call(it.getattr(su, "set_pathloss"), [p])
        s = p.sqrt()
        goals = []
        for k, dom in enumerate(ops):
            N = 4 if dom == "time" else 8
            x = _sig(c, "x%d_" % k, N)
            if dom == "time":
                out = it.call(it.getattr(su, "corrupt_data"), [x])
            else:
                out = it.call(it.getattr(su, "corrupt_data_in_freq_domain"), [x, 4])
            ir = it.call(it.getattr(su, "get_last_impulse_response"), [])
            taps = it.getattr(ir, "tap_values_sparse")
            raw = it.getattr(it.call(it.getattr(it.getattr(su, "_tdlchannel"), "get_last_impulse_response"), []), "tap_values_sparse")
            tag = ">".join(ops[:k + 1])
            ok = np.shape(taps) == np.shape(raw)
            goals.append(Goal("[%s] reported response has the samples of this transmission" % tag, ok))
            if not ok:
                continue
            goals.append(Goal("[%s] reported response == sqrt(p) * unscaled taps of this transmission" % tag, _meq(taps, raw * s)))
            # reading the report is an observation: asking again (and again) gives the same response, also through its dense form
            first = np.array(taps, dtype=object, copy=True)
            for again in (2, 3):
                ir2 = it.call(it.getattr(su, "get_last_impulse_response"), [])
                it.getattr(ir2, "tap_values")
                t2 = it.getattr(ir2, "tap_values_sparse")
                goals.append(Goal("[%s] read number %d of the reported response == the first read" % (tag, again),
                                  np.shape(t2) == np.shape(first) and _meq(t2, first)))
                goals.append(Goal("[%s] the response object handed out earlier still holds its values (read %d)" % (tag, again),
                                  _meq(it.getattr(ir, "tap_values_sparse"), first)))
            if dom == "time":
                spec = _conv_spec(x, raw, [0, 2], N) * s
            else:
                F = _dft_matrix(4, False)
                parts = []
                for b in range(N // 4):
                    dense = np.zeros(4, dtype=object)
                    dense[0], dense[2] = raw[0, b], raw[1, b]
                    parts.append(np.dot(F, dense) * x[4 * b:4 * b + 4] * s)
                spec = np.concatenate(parts)
            goals.append(Goal("[%s] output == sqrt(p) * channel(x) with that response" % tag, np.shape(out) == np.shape(spec) and _meq(out, spec)))
        return goals
    return verify(body, check_side=False, timeout_ms=60000, replay=rp)


@obligation("mu/per_link_superposition", params=[{"domain": d} for d in ("time", "freq")], timeout=300,
            desc="MuChannel (2 receivers x 2 transmitters, symbolic path-loss matrix incl. zero entries): out[rx] == sum_tx sqrt(PL[rx,tx]) * "
                 "link_{rx,tx}(x[tx]) with each link's own reported response")
def ob_mu(domain):
    def body(c, it):
        from pyphysim.channels import multiuser
        prof = _profile([0, 1])
        gen = SymFading(c)
        mu = it.call(multiuser.MuChannel, [2, gen, prof])
        PL = np.empty((2, 2), dtype=object)
        for i in range(2):
            for j in range(2):
                PL[i, j] = c.var("pl%d%d" % (i, j), "real")
                c.assume((PL[i, j] >= 0) & (PL[i, j] <= 1))
        it.call(it.getattr(mu, "set_pathloss"), [PL])
        N = 4 if domain == "freq" else 3
        x = _sig(c, "x", 2, N)
        if domain == "time":
            out = it.call(it.getattr(mu, "corrupt_data"), [x])
        else:
            out = it.call(it.getattr(mu, "corrupt_data_in_freq_domain"), [x, 4])
        goals = [Goal("one output per receiver", np.shape(out) == (2,))]
        F = _dft_matrix(4, False)
        for rx in range(2):
            spec = 0
            for tx in range(2):
                ir = it.call(it.getattr(mu, "get_last_impulse_response"), [rx, tx])
                taps = it.getattr(ir, "tap_values_sparse")            # already scaled by sqrt(PL)
                if domain == "time":
                    spec = spec + _conv_spec(x[tx], taps, [0, 1], N)
                else:
                    dense = np.zeros(4, dtype=object)
                    dense[0], dense[1] = taps[0, 0], taps[1, 0]
                    spec = spec + np.dot(F, dense) * x[tx]
            goals.append(Goal("receiver %d == superposition over transmitters of the links' reported responses" % rx, _meq(out[rx], spec)))
        return goals
    return verify(body, check_side=False, timeout_ms=120000)


@obligation("mu/switched_direction_non_square", params=[{"switched": sw} for sw in (False, True)] + [{"switched": sw, "domain": "freq"} for sw in (False, True)],
            timeout=300,
            desc="MuChannel with 2 receivers and 1 transmitter (a NON-square link matrix, symbolic path losses) in both link directions: "
                 "original direction - receiver rx gets link_{rx,0}(x_0); switched direction (set through the MuChannel property, which has to "
                 "reach every link) - the single receiver gets link_{0,0}(x_0) + link_{1,0}(x_1); each with the response reported for that link")
def ob_mu_switched(switched, domain="time"):
    def body(c, it):
        from pyphysim.channels import multiuser
        delays = [0, 1]
        prof = _profile(delays)
        gen = SymFading(c)
        mu = it.call(multiuser.MuChannel, [(2, 1), gen, prof])
        PL = np.empty((2, 1), dtype=object)
        for i in range(2):
            PL[i, 0] = c.var("pl%d" % i, "real")
            c.assume((PL[i, 0] >= 0) & (PL[i, 0] <= 1))
        it.call(it.getattr(mu, "set_pathloss"), [PL])
        if switched:
            it.setattr(mu, "switched_direction", True)
        goals = [Goal("the direction is reported", bool(it.getattr(mu, "switched_direction")) == switched)]
        N = 3 if domain == "time" else 4
        nin = 2 if switched else 1
        x = _sig(c, "x", nin, N)
        if domain == "time":
            out = it.call(it.getattr(mu, "corrupt_data"), [x])
        else:
            out = it.call(it.getattr(mu, "corrupt_data_in_freq_domain"), [x, 4])
        nout = 1 if switched else 2
        goals.append(Goal("one output per receiving end", np.shape(out) == (nout,)))
        if np.shape(out) != (nout,):
            return goals
        irs = [it.getattr(it.call(it.getattr(mu, "get_last_impulse_response"), [rx, 0]), "tap_values_sparse") for rx in range(2)]
        if domain == "freq":
            Fm = _dft_matrix(4, False)

            def _conv_spec(sig, taps, dl, n_):          # frequency domain: per-carrier product with the DFT of the (dense) taps
                dense = np.zeros(4, dtype=object)
                dense[0], dense[1] = taps[0, 0], taps[1, 0]
                return np.dot(Fm, dense) * sig
        else:
            from contracts.C03 import _conv_spec
        if switched:
            spec = _conv_spec(x[0], irs[0], delays, N) + _conv_spec(x[1], irs[1], delays, N)
            goals.append(Goal("switched: the single receiver gets the superposition of both links", _meq(out[0], spec)))
        else:
            for rx in range(2):
                goals.append(Goal("receiver %d gets its own link applied to the transmitter's signal" % rx, _meq(out[rx], _conv_spec(x[0], irs[rx], delays, N))))
        return goals

    def rp(mv):
        # history replay on the real classes (Jakes fading, generic values)
        from pyphysim.channels import multiuser, fading_generators as fgen
        try:
            rr = np.random.RandomState(8)
            jk = fgen.JakesSampleGenerator(Fd=0.01, Ts=1.0, L=8, RS=np.random.RandomState(5))
            mu = multiuser.MuChannel((2, 1), jk, _profile([0, 1]))
            mu.set_pathloss(np.array([[0.4], [0.09]]))
            if switched:
                mu.switched_direction = True
            N = 6
            x = rr.randn(2 if switched else 1, N) + 1j * rr.randn(2 if switched else 1, N)
            out = mu.corrupt_data(x)

            def conv(sig, ir):
                t = ir.tap_values_sparse
                y = np.zeros(N + 1, dtype=complex)
                for i_, d_ in enumerate([0, 1]):
                    y[d_:d_ + N] += t[i_] * sig
                return y
            irs = [mu.get_last_impulse_response(rx_, 0) for rx_ in range(2)]
            if switched:
                want = [conv(x[0], irs[0]) + conv(x[1], irs[1])]
            else:
                want = [conv(x[0], irs[0]), conv(x[0], irs[1])]
            if len(out) != len(want) or any(np.shape(a) != np.shape(b) or not (np.abs(a - b).max() <= 1e-9) for a, b in zip(out, want)):
                return {"confirmed": True, "MuChannel": "2 receivers x 1 transmitter", "switched_direction": switched,
                        "outputs": len(out), "expected outputs": len(want),
                        "max difference from the superposition of the links' reported responses":
                            float(max(np.abs(a - b).max() for a, b in zip(out, want))) if len(out) == len(want) and all(np.shape(a) == np.shape(b) for a, b in zip(out, want)) else "shape"}
            return {"confirmed": False, "note": "real MuChannel agrees in this direction"}
        except Exception as e:
            return {"confirmed": False, "error": "replay crashed: %r" % (e,)}
    return verify(body, check_side=False, timeout_ms=120000, replay=rp if domain == "time" else None)


@obligation("su_mimo/pathloss_and_antennas", params=[{"switched": sw} for sw in (False, True)], timeout=300,
            desc="SuMimoChannel(2 antennas) with a symbolic path loss p in [0,1]: every tap is a 2 x 2 matrix of fading samples; the output "
                 "of antenna o is sqrt(p) * sum_i conv(x_i, g) with the UNSCALED taps of link (o, i) (switched direction: (i, o)), the "
                 "reported response is sqrt(p) * the unscaled taps, two output rows of length input + memory")
def ob_su_mimo(switched):
    def body(c, it):
        from pyphysim.channels import singleuser
        delays = [0, 2]
        prof = _profile(delays)
        gen = SymFading(c)
        su = it.call(singleuser.SuMimoChannel, [2, gen, prof])
        goals = []
        p = c.var("p", "real")
        c.assume((p >= 0) & (p <= 1))
        it.call(it.getattr(su, "set_pathloss"), [p])
        if switched:
            it.setattr(su, "switched_direction", True)
        N = 3
        x = _sig(c, "x", 2, N)
        out = it.call(it.getattr(su, "corrupt_data"), [x])
        ir = it.call(it.getattr(su, "get_last_impulse_response"), [])
        taps = it.getattr(ir, "tap_values_sparse")
        raw = it.getattr(it.call(it.getattr(it.getattr(su, "_tdlchannel"), "get_last_impulse_response"), []), "tap_values_sparse")
        s_ = p.sqrt()
        goals.append(Goal("shapes: response (taps, 2, 2, N), output (2, N + memory)", np.shape(taps) == (2, 2, 2, N) and np.shape(out) == (2, N + 2)))
        if not goals[-1].cond:
            return goals
        goals.append(Goal("reported response == sqrt(p) * unscaled taps", _meq(taps, raw * s_)))
        for o in range(2):
            spec = np.zeros(N + 2, dtype=object)
            for i_ in range(2):
                g = raw[:, i_, o, :] if switched else raw[:, o, i_, :]
                spec = spec + _conv_spec(x[i_], g, delays, N)
            goals.append(Goal("output antenna %d == sqrt(p) * superposition of the per-link convolutions" % o, _meq(out[o], spec * s_)))
        return goals
    return verify(body, check_side=False, timeout_ms=120000)


@obligation("mu_mimo/per_link_superposition", timeout=300,
            desc="MuMimoChannel (2 receivers x 2 transmitters, 1 receive and 2 transmit antennas per link, symbolic path-loss matrix): every "
                 "link is a 1 x 2 MIMO link; out[rx] == sum_tx (link_{rx,tx} applied to the 2 streams of transmitter tx) with each link's own "
                 "reported (path-loss scaled) response; each output has one row")
def ob_mu_mimo():
    def body(c, it):
        from pyphysim.channels import multiuser
        delays = [0, 1]
        prof = _profile(delays)
        gen = SymFading(c)
        mu = it.call(multiuser.MuMimoChannel, [2, 1, 2, gen, prof])
        PL = np.empty((2, 2), dtype=object)
        for i in range(2):
            for j in range(2):
                PL[i, j] = c.var("pl%d%d" % (i, j), "real")
                c.assume((PL[i, j] >= 0) & (PL[i, j] <= 1))
        it.call(it.getattr(mu, "set_pathloss"), [PL])
        N = 3
        xs = np.empty(2, dtype=object)
        for tx in range(2):
            xs[tx] = _sig(c, "x%d" % tx, 2, N)
        out = it.call(it.getattr(mu, "corrupt_data"), [xs])
        goals = [Goal("one output per receiver", np.shape(out) == (2,))]
        if not goals[0].cond:
            return goals
        for rx in range(2):
            spec = np.zeros(N + 1, dtype=object)
            for tx in range(2):
                ir = it.call(it.getattr(mu, "get_last_impulse_response"), [rx, tx])
                taps = it.getattr(ir, "tap_values_sparse")            # (taps, 1, 2, N), already scaled by sqrt(PL)
                if np.shape(taps) != (2, 1, 2, N):
                    return goals + [Goal("link (%d,%d) response shape (taps, 1, 2, N)" % (rx, tx), False)]
                for i_ in range(2):
                    spec = spec + _conv_spec(xs[tx][i_], taps[:, 0, i_, :], delays, N)
            o = np.asarray(out[rx], dtype=object)
            goals.append(Goal("receiver %d: one row of length input + memory" % rx, o.shape == (1, N + 1)))
            if o.shape == (1, N + 1):
                goals.append(Goal("receiver %d == superposition over transmitters and their antennas of the links' reported responses" % rx,
                                  _meq(o[0], spec)))
        return goals
    return verify(body, check_side=False, timeout_ms=120000)


@obligation("profile/discretisation", params=[{"case": k} for k in ("collide", "distinct", "unsorted")],
            desc="get_discretize_profile(Ts) with symbolic positive tap powers: delays are the unique sorted round(tau/Ts); colliding taps are "
                 "merged by adding their powers; the discretised linear powers sum to one and keep their proportions")
def ob_discretise(case):
    def body(c, it):
        from pyphysim.channels import fading
        delays, Ts = {"collide": ([0.0, 0.9e-6, 1.1e-6, 3.2e-6], 1e-6), "distinct": ([0.0, 2e-6, 5e-6], 1e-6),
                      "unsorted": ([3e-6, 0.0, 1.4e-6, 1.6e-6, 3.3e-6], 1e-6)}[case]
        p = np.empty(len(delays), dtype=object)
        for i in range(len(delays)):
            p[i] = c.var("pw%d" % i, "real")
            c.assume(p[i] > 0)
        prof = fading.TdlChannelProfile(np.zeros(len(delays)), np.array(delays))
        prof._tap_powers_linear = p                       # arbitrary positive linear powers
        dB, d = it.call(it.getattr(prof, "_calc_discretized_tap_powers_and_delays"), [Ts])
        idx = [int(round(t / Ts)) for t in delays]
        uniq = sorted(set(idx))
        goals = [Goal("delays unique, sorted, integer", list(map(int, d)) == uniq and np.asarray(d).dtype.kind == 'i')]
        S = 0
        for v in p:
            S = S + v
        lin = [(lift(x) / 10.0).to_real().pow10() for x in dB]
        conj = []
        for m, u in enumerate(uniq):
            merged = 0
            for i, k in enumerate(idx):
                if k == u:
                    merged = merged + p[i]
            conj.append((lin[m] * S == merged).t)
        goals.append(Goal("linear powers: merged colliding taps / total", sym.SBool(z3.And(conj))))
        tot = 0
        for v in lin:
            tot = tot + v
        goals.append(Goal("powers sum to one", tot * S == S))
        c.inputs["powers"] = list(p)
        return goals

    def rp(model):
        """the counter-model's linear tap powers (or generic ones) through the public constructor of the real class"""
        from pyphysim.channels import fading
        try:
            delays, Ts = {"collide": ([0.0, 0.9e-6, 1.1e-6, 3.2e-6], 1e-6), "distinct": ([0.0, 2e-6, 5e-6], 1e-6),
                          "unsorted": ([3e-6, 0.0, 1.4e-6, 1.6e-6, 3.3e-6], 1e-6)}[case]
            cands = []
            if isinstance(model, dict) and model.get("powers"):
                pw = [float(num(v, 0.0)) for v in model["powers"]]
                if all(x > 0 for x in pw):
                    cands.append(pw)
            cands.append([1.0, 0.5, 0.25, 0.125, 0.0625][:len(delays)])
            cands.append([0.1, 0.7, 0.05, 0.3, 0.2][:len(delays)])
            for pw in cands:
                pw = np.array(pw, dtype=float)
                prof = fading.TdlChannelProfile(10 * np.log10(pw), np.array(delays)).get_discretize_profile(Ts)
                idx = [int(round(t / Ts)) for t in delays]
                uniq = sorted(set(idx))
                want = np.array([sum(pw[i] for i, k in enumerate(idx) if k == u) for u in uniq]) / pw.sum()
                got = np.asarray(prof.tap_powers_linear, dtype=float)
                if list(map(int, prof.tap_delays)) != uniq or got.shape != want.shape or (not (np.abs(got - want).max() <= 1e-9)):
                    return {"confirmed": True, "tap delays": delays, "tap powers (linear)": pw.tolist(), "Ts": Ts,
                            "discretised delays": [int(x) for x in prof.tap_delays], "discretised linear powers": got.tolist(),
                            "expected delays": uniq, "expected powers (colliding taps added, normalised)": want.tolist()}
            return {"confirmed": False, "note": "real class discretises these profiles as specified"}
        except Exception as e:
            return {"confirmed": False, "error": "replay crashed: %r" % (e,)}
    return verify(body, timeout_ms=60000, replay=rp)


# ------------------------------------------------------------------ bounded native
def _ref_conv(x, taps, delays):
    N = x.shape[-1]
    out = np.zeros(N + int(delays[-1]), dtype=complex)
    for i, d in enumerate(delays):
        out[int(d):int(d) + N] += taps[i] * x
    return out


@obligation("native/channels", kind="bounded", timeout=900,
            desc="native complex128: random tap profiles (colliding / late / sparse delays), Jakes and Rayleigh generators, SISO and MIMO with "
                 "Nr != Nt in both directions, SuChannel/MuChannel with path loss incl. exact 0, consecutive transmissions, all subcarrier "
                 "selection kinds (None, arrays, slices with any step): output == convolution / per-block DFT product with the reported "
                 "response (1e-10), length input + memory, linear in the input")
def ob_native():
    from pyphysim.channels import fading, fading_generators as fg, singleuser, multiuser
    r = stable_rng("C03native")

    def gen():
        for i in range(100 if quick() else 1200):
            yield {"seed": int(r.randint(1 << 30)), "kind": ["siso", "mimo", "su", "mu", "freq", "sufreq", "mufreq"][i % 7]}

    def mkprofile(rr):
        k = int(rr.randint(1, 6))
        delays = np.sort(rr.choice(np.arange(0, 12), size=k, replace=False)).astype(float) * 1e-6
        if (not (rr.rand() >= 0.3)) and k > 1:
            delays[1] = delays[0] + 0.2e-6
        if (not (rr.rand() >= 0.4)):
            delays = delays + 3e-6
        return fading.TdlChannelProfile(rr.uniform(-25, 0, k), delays)

    def mkgen(rr, seed):
        if (not (rr.rand() >= 0.5)):
            return fg.JakesSampleGenerator(float(rr.uniform(0, 50)), 1e-6, 8, None, np.random.RandomState(seed))
        return fg.RayleighSampleGenerator()

    def check(case):
        rr = np.random.RandomState(case["seed"])
        np.random.seed(case["seed"] % (2**31))
        prof = mkprofile(rr)
        kind = case["kind"]
        N = int(rr.randint(1, 20))
        if kind in ("siso", "mimo"):
            ch = fading.TdlChannel(mkgen(rr, case["seed"]), prof, Ts=1e-6)
            nr, nt = (1, 1)
            if kind == "mimo":
                nr, nt = int(rr.randint(1, 4)), int(rr.randint(1, 4))
                ch.set_num_antennas(nr, nt)
                ch.switched_direction = bool(rr.randint(2))
            for rnd in range(2):
                nin, nout = ((nr, nt) if ch.switched_direction else (nt, nr)) if kind == "mimo" else (1, 1)
                x = rr.randn(nin, N) + 1j * rr.randn(nin, N) if kind == "mimo" else rr.randn(N) + 1j * rr.randn(N)
                # a single input stream may be handed over as a 1-D array
                arg = x[0].copy() if (kind == "mimo" and nin == 1 and rnd == 1) else x.copy()
                if rnd == 0:
                    fr = Frame()
                fr.watch(**{"signal%d" % rnd: arg})
                out = ch.corrupt_data(arg)
                ir = ch.get_last_impulse_response()
                d, t = ir.tap_indexes_sparse, ir.tap_values_sparse
                if fr.changed():
                    return {"frame (input, or output / reported response of the previous transmission)": fr.changed(), "kind": kind}
                fr.watch(**{"output%d" % rnd: out, "reported_taps%d" % rnd: t})
                if list(d) != sorted(set(d.tolist())):
                    return {"delays not unique/sorted": d.tolist()}
                if kind == "siso":
                    ref = _ref_conv(x, t, d)
                else:
                    ref = np.zeros((nout, N + int(d[-1])), dtype=complex)
                    for o in range(nout):
                        for i_ in range(nin):
                            g = t[:, i_, o, :] if ch.switched_direction else t[:, o, i_, :]
                            ref[o] += _ref_conv(x[i_], g, d)
                if out.shape != ref.shape or (not (np.abs(out - ref).max() <= 1e-10 * max(1, np.abs(ref).max()))):
                    return {"kind": kind, "switched": bool(getattr(ch, "switched_direction", False)), "Nr": nr, "Nt": nt, "delays": d.tolist(),
                            "max error": float(np.abs(out - ref).max()) if out.shape == ref.shape else "shape %s vs %s" % (out.shape, ref.shape)}
            p = ch.channel_profile
            if (not (abs(p.tap_powers_linear.sum() - 1) <= 1e-9)):
                return {"discretised powers do not sum to one": float(p.tap_powers_linear.sum())}
            return None
        if kind in ("su", "sufreq"):
            su = singleuser.SuChannel(mkgen(rr, case["seed"]), prof, Ts=1e-6)
            pl = [None, 0.0, 1.0, float(rr.rand())][rr.randint(4)]
            su.set_pathloss(pl)
            if kind == "su":
                x = rr.randn(N) + 1j * rr.randn(N)
                out = su.corrupt_data(x.copy())
                ir = su.get_last_impulse_response()
                ref = _ref_conv(x, ir.tap_values_sparse, ir.tap_indexes_sparse)
            else:
                fft = int(2 ** rr.randint(4, 7))
                sel = [None, np.sort(rr.choice(fft, size=int(rr.randint(1, fft)), replace=False)),
                       slice(int(rr.randint(0, 4)), int(rr.randint(fft - 4, fft + 1)), int(rr.randint(1, 5)))][rr.randint(3)]
                idx = np.arange(fft)[sel] if sel is not None else np.arange(fft)
                if len(idx) == 0:
                    return None
                nb = int(rr.randint(1, 4))
                x = rr.randn(len(idx) * nb) + 1j * rr.randn(len(idx) * nb)
                try:
                    out = su.corrupt_data_in_freq_domain(x.copy(), fft, sel)
                except ValueError as e:
                    return {"valid selection rejected": repr(sel), "fft": fft, "error": str(e)[:80]}
                ir = su.get_last_impulse_response()
                F = ir.get_freq_response(fft)
                ref = np.concatenate([F[idx, b] * x[b * len(idx):(b + 1) * len(idx)] for b in range(nb)])
                if ir.num_samples != nb:
                    return {"reported response samples": ir.num_samples, "blocks": nb}
            if out.shape != ref.shape or (not (np.abs(out - ref).max() <= 1e-10 * max(1, np.abs(ref).max()))):
                return {"kind": kind, "pathloss": pl, "max error": float(np.abs(out - ref).max()) if out.shape == ref.shape else "shape"}
            return None
        if kind in ("mu", "mufreq"):
            mu = multiuser.MuChannel((2, 3), mkgen(rr, case["seed"]), prof, Ts=1e-6)
            PL = rr.rand(2, 3)
            PL[rr.randint(2), rr.randint(3)] = 0.0
            mu.set_pathloss(PL)
            if kind == "mu":
                x = rr.randn(3, N) + 1j * rr.randn(3, N)
                out = mu.corrupt_data(x.copy())
                for rx in range(2):
                    ref = 0
                    for tx in range(3):
                        ir = mu.get_last_impulse_response(rx, tx)
                        ref = ref + _ref_conv(x[tx], ir.tap_values_sparse, ir.tap_indexes_sparse)
                    if (not (np.abs(out[rx] - ref).max() <= 1e-10 * max(1, np.abs(ref).max()))):
                        return {"mu receiver": rx, "max error": float(np.abs(out[rx] - ref).max())}
            else:
                fft = 16
                x = rr.randn(3, fft * 2) + 1j * rr.randn(3, fft * 2)
                out = mu.corrupt_data_in_freq_domain(x.copy(), fft)
                for rx in range(2):
                    ref = 0
                    for tx in range(3):
                        F = mu.get_last_impulse_response(rx, tx).get_freq_response(fft)
                        ref = ref + np.concatenate([F[:, b] * x[tx, b * fft:(b + 1) * fft] for b in range(2)])
                    if (not (np.abs(out[rx] - ref).max() <= 1e-10 * max(1, np.abs(ref).max()))):
                        return {"mu freq receiver": rx, "pathloss": PL.tolist(), "max error": float(np.abs(out[rx] - ref).max())}
            return None
        # freq on the plain TdlChannel incl. MIMO
        ch = fading.TdlChannel(mkgen(rr, case["seed"]), prof, Ts=1e-6)
        fft = 16
        sel = [None, [0, 3, 5, 9], slice(0, 15, 2), slice(1, 16, 7),
               rr.permutation(fft), slice(None, None, -1), list(rr.randint(0, fft, fft))][rr.randint(7)]   # incl. full-length, not in natural order
        idx = np.arange(fft)[sel] if sel is not None else np.arange(fft)
        x = rr.randn(len(idx) * 2) + 1j * rr.randn(len(idx) * 2)
        try:
            out = ch.corrupt_data_in_freq_domain(x.copy(), fft, sel)
        except ValueError as e:
            return {"valid selection rejected": repr(sel), "error": str(e)[:80]}
        F = ch.get_last_impulse_response().get_freq_response(fft)
        ref = np.concatenate([F[idx, b] * x[b * len(idx):(b + 1) * len(idx)] for b in range(2)])
        if (not (np.abs(out - ref).max() <= 1e-10 * max(1, np.abs(ref).max()))):
            return {"freq": repr(sel), "max error": float(np.abs(out - ref).max())}
        return None
    return bounded(gen(), check)


@obligation("native/mimo_frequency_domain_and_mimo_wrappers", kind="bounded", timeout=900,
            desc="complex128: (a) TdlChannel with Nr x Nt antennas in the FREQUENCY domain, both link directions, every selection kind: "
                 "out[o, block] == sum_i DFT(reported response of the block)[sel, rx, tx] * x[i, block]; (b) SuMimoChannel with path loss "
                 "incl. 0 in the time domain, both directions; (c) MuMimoChannel (2 receivers x 3 transmitters, several antennas, path-loss "
                 "matrix with zeros): every receiver == superposition of its links' reported responses")
def ob_native_mimo():
    from pyphysim.channels import fading, singleuser, multiuser
    from pyphysim.channels import fading_generators as fg
    r = stable_rng("C03mimo")

    def gen():
        for i in range(60 if quick() else 600):
            yield {"seed": int(r.randint(1 << 30)), "kind": ["tdlfreq", "sumimo", "mumimo"][i % 3]}

    def mkprof(rr):
        k = int(rr.randint(1, 4))
        d = np.sort(rr.choice(np.arange(0, 6), size=k, replace=False)).astype(float)
        return fading.TdlChannelProfile(rr.uniform(-10, 0, k), d * 1e-6)

    def mkgen(rr, seed):
        return fg.JakesSampleGenerator(float(rr.choice([0.0, 30.0, 200.0])), 1e-6, 4, None, np.random.RandomState(seed))

    def check(case):
        rr = np.random.RandomState(case["seed"])
        prof = mkprof(rr)
        kind = case["kind"]
        if kind == "tdlfreq":
            nr, nt = int(rr.randint(1, 4)), int(rr.randint(1, 4))
            ch = fading.TdlChannel(mkgen(rr, case["seed"]), prof, Ts=1e-6)
            ch.set_num_antennas(nr, nt)
            ch.switched_direction = bool(rr.randint(2))
            fft = 8
            sel = [None, [0, 3, 5], slice(1, 8, 3), rr.permutation(fft), slice(None, None, -1)][rr.randint(5)]
            idx = np.arange(fft)[sel] if sel is not None else np.arange(fft)
            nin, nout = (nr, nt) if ch.switched_direction else (nt, nr)
            nb = 2
            x = rr.randn(nin, len(idx) * nb) + 1j * rr.randn(nin, len(idx) * nb)
            fr = Frame(signal=x)
            out = ch.corrupt_data_in_freq_domain(x, fft, sel)
            if fr.changed():
                return {"frame": fr.changed()}
            F = ch.get_last_impulse_response().get_freq_response(fft)
            ref = np.zeros((nout, len(idx) * nb), dtype=complex)
            for b in range(nb):
                blk = slice(b * len(idx), (b + 1) * len(idx))
                for o in range(nout):
                    for i_ in range(nin):
                        g = F[idx, i_, o, b] if ch.switched_direction else F[idx, o, i_, b]
                        ref[o, blk] += g * x[i_, blk]
            if out.shape != ref.shape or (not (np.abs(out - ref).max() <= 1e-10 * max(1, np.abs(ref).max()))):
                return {"kind": kind, "switched": bool(ch.switched_direction), "Nr": nr, "Nt": nt, "selection": repr(sel),
                        "max error": float(np.abs(out - ref).max()) if out.shape == ref.shape else "shape %s vs %s" % (out.shape, ref.shape)}
            return None
        N = int(rr.randint(1, 12))
        if kind == "sumimo":
            na = int(rr.randint(1, 4))
            su = singleuser.SuMimoChannel(na, mkgen(rr, case["seed"]), prof, Ts=1e-6)
            pl = [None, 0.0, 1.0, float(rr.rand())][rr.randint(4)]
            su.set_pathloss(pl)
            su.switched_direction = bool(rr.randint(2))
            x = rr.randn(na, N) + 1j * rr.randn(na, N)
            out = su.corrupt_data(x.copy())
            ir = su.get_last_impulse_response()
            t, d = ir.tap_values_sparse, ir.tap_indexes_sparse
            ref = np.zeros((na, N + int(d[-1])), dtype=complex)
            for o in range(na):
                for i_ in range(na):
                    g = t[:, i_, o, :] if su.switched_direction else t[:, o, i_, :]
                    ref[o] += _ref_conv(x[i_], g, d)
            if out.shape != ref.shape or (not (np.abs(out - ref).max() <= 1e-10 * max(1, np.abs(ref).max()))):
                return {"kind": kind, "pathloss": pl, "antennas": na, "switched": bool(su.switched_direction),
                        "max error": float(np.abs(out - ref).max()) if out.shape == ref.shape else "shape"}
            return None
        nr, nt = int(rr.randint(1, 3)), int(rr.randint(1, 3))
        mu = multiuser.MuMimoChannel((2, 3), nr, nt, mkgen(rr, case["seed"]), prof, Ts=1e-6)
        PL = rr.rand(2, 3)
        PL[rr.randint(2), rr.randint(3)] = 0.0
        mu.set_pathloss(PL)
        x = rr.randn(3, nt, N) + 1j * rr.randn(3, nt, N)
        out = mu.corrupt_data(x.copy())
        for rx in range(2):
            ref = 0
            for tx in range(3):
                ir = mu.get_last_impulse_response(rx, tx)
                t, d = ir.tap_values_sparse, ir.tap_indexes_sparse
                link = np.zeros((nr, N + int(d[-1])), dtype=complex)
                for o in range(nr):
                    for i_ in range(nt):
                        link[o] += _ref_conv(x[tx][i_], t[:, o, i_, :], d)
                ref = ref + link
            got = np.asarray(out[rx])
            if got.shape != ref.shape or (not (np.abs(got - ref).max() <= 1e-10 * max(1, np.abs(ref).max()))):
                return {"kind": kind, "receiver": rx, "Nr": nr, "Nt": nt, "pathloss": PL.tolist(),
                        "max error": float(np.abs(got - ref).max()) if got.shape == ref.shape else "shape %s vs %s" % (got.shape, ref.shape)}
        return None
    return bounded(gen(), check)
