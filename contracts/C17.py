"""C17  Saving and loading parameters and results loses nothing.

Functions under contract (deductive): Result._to_dict/_from_dict/__eq__, SimulationResults._to_dict/_from_dict,
SimulationParameters._to_dict/_from_dict/__eq__, NumpyOrSetEncoder.default / json_numpy_or_set_obj_hook (scalar, set and
array-descriptor cases), SimulationResults.save_to_file/load_from_file extension dispatch.
json.dumps/loads and pickle are library contracts (structural maps), conformance-checked by the bounded native obligations.
"""
import itertools
import json
import os

import numpy as np
import z3

from pyvc import sym
from pyvc.sym import lift
from pyvc.interp import SObj, PyRaise
from pyvc.oblig import obligation, verify, bounded, exhaustive, Goal, merge, Inapplicable
from .common import stable_rng, quick
from .C06 import _new as _new_result, _havoc, _snap, _eq, TYPES

LEVEL = "proof"
EXPLANATION = ("Dict-level round trips are proved for ARBITRARY field values: a Result of each type (statistics, lists, choice array made "
               "symbolic), a SimulationResults (symbolic current_rep, runned_reps) and a SimulationParameters (unpacked set, unpack index, "
               "recursive original) are pushed through the real _to_dict and _from_dict and every field the class's own __eq__ compares is "
               "proved restored (so a field dropped, defaulted or recomputed on one side fails for some value, e.g. current_rep == 0).  "
               "Encoder/decoder hooks: numpy integer/float scalars of every width map to the same numeric value, sets and array "
               "descriptors (data, dtype, shape) are inverted by the hook.  json/pickle text layers, multi-dimensional array layouts, file "
               "dispatch, idempotence of save-load-save and file-name injectivity are bounded native checks over a broad value generator.")
ASSUMPTIONS = [
    "json.dumps(default=f)/json.loads(object_hook=h) apply f outward / h inward structurally; pickle round-trips object graphs (library "
    "contracts, conformance-checked natively)",
    "np.float128 excluded (no JSON representation of extended precision); tuples are not in the supported value list",
    "file-name injectivity: bounded (str.format on scalars); arrays use the range representation which merges by np.allclose by design",
]
TRUSTED_BASE = ["python json, pickle; numpy tolist/array/reshape"]

RESULT_EQ_FIELDS = ['name', '_update_type_code', '_total', '_accumulate_values_bool', '_value_list', '_total_list',
                    '_result_squared_sum', '_result_sum', '_value']


@obligation("dict/result_round_trip", params=[{"typ": t, "acc": a} for t in TYPES for a in (False, True)],
            desc="Result._from_dict(Result._to_dict(r)) restores every field compared by Result.__eq__ plus num_updates, for ARBITRARY "
                 "(symbolic) statistics, list contents and choice counts; r == reloaded under the class's own __eq__")
def ob_result(typ, acc):
    def body(c, it):
        import pyphysim.simulations.results as R
        r = _havoc(c, it, _new_result(it, typ, acc), typ, "r", 2)
        d = it.call(it.getattr(r, "_to_dict"), [])
        d2 = dict(d)
        if isinstance(d2.get("value"), np.ndarray):
            d2["value"] = np.array(list(d2["value"]), dtype=object)        # what the JSON hook hands back: a new array
        d2["value_list"] = list(d2["value_list"])
        d2["total_list"] = list(d2["total_list"])
        r2 = it.call(it.getattr(R.Result, "_from_dict"), [d2])
        goals = [Goal("same class", isinstance(r2, SObj) and r2.cls is R.Result)]
        if not goals[0].cond:
            return goals
        conj = []
        for f in RESULT_EQ_FIELDS + ["num_updates"]:
            a, b = r.fields[f], r2.fields.get(f)
            if isinstance(a, np.ndarray):
                a, b = list(a), (list(b) if b is not None else None)
            conj.append(_eq(a, b) if not isinstance(a, str) else z3.BoolVal(a == b))
        goals.append(Goal("every compared field (and num_updates) restored", sym.SBool(z3.And(conj))))
        return goals
    return verify(body, check_side=False)


@obligation("dict/simulation_results_round_trip",
            desc="SimulationResults._from_dict(_to_dict(s)): parameters, runned_reps, original_filename, current_rep (symbolic, so 0 and -1 "
                 "included) and every Result restored")
def ob_simresults():
    def body(c, it):
        import pyphysim.simulations.results as R
        from pyphysim.simulations.parameters import SimulationParameters
        it.native_prefixes = ["pyphysim.simulations.parameters"]
        s = it.call(R.SimulationResults, [])
        frame = {"_results", "_params", "runned_reps", "original_filename", "current_rep"}
        if set(s.fields) != frame:
            raise Inapplicable("SimulationResults fields %s" % sorted(set(s.fields) ^ frame))
        p = SimulationParameters.create({"SNR": np.array([0, 5]), "M": 4})
        p.set_unpack_parameter("SNR")
        it.call(it.getattr(s, "set_parameters"), [p])
        for typ in ("SUM", "RATIO"):
            it.call(it.getattr(s, "add_result"), [_havoc(c, it, _new_result(it, typ, True, typ.lower()), typ, typ, 1)])
        cr = c.var("current_rep", "int")
        c.inputs["current_rep"] = cr
        s.fields["current_rep"] = cr
        rr = [c.var("rr0", "int"), c.var("rr1", "int")]
        s.fields["runned_reps"] = rr
        s.fields["original_filename"] = "res_{SNR}.json"
        d = it.call(it.getattr(s, "_to_dict"), [])
        s2 = it.call(it.getattr(R.SimulationResults, "_from_dict"), [d])
        goals = [Goal("current_rep restored", lift(s2.fields["current_rep"]) == cr),
                 Goal("runned_reps restored", sym.SBool(_eq(s2.fields["runned_reps"], rr))),
                 Goal("original_filename restored", s2.fields["original_filename"] == "res_{SNR}.json"),
                 Goal("parameters restored", s2.fields["_params"] == p and s2.fields["_params"] is not None),
                 Goal("result names restored", sorted(s2.fields["_results"]) == sorted(s.fields["_results"]))]
        for name in s.fields["_results"]:
            a, b = s.fields["_results"][name][0], s2.fields["_results"][name][0]
            goals.append(Goal("result %s restored" % name, sym.SBool(_eq(_snap(a), _snap(b)))))
        return goals

    def rp(mv):
        from pyphysim.simulations.results import SimulationResults
        s = SimulationResults()
        s.current_rep = int(mv.get("current_rep", 0))
        s2 = SimulationResults.from_json(s.to_json())
        return {"confirmed": s2.current_rep != s.current_rep, "current_rep": s.current_rep, "after JSON round trip": s2.current_rep}
    return verify(body, replay=rp, check_side=False)


@obligation("dict/parameters_round_trip",
            desc="SimulationParameters._from_dict(_to_dict(p)) for a parent and an unpacked child: parameters dict, unpacked set, unpack index "
                 "(symbolic) and the recursive original restored; equal under the class's own __eq__")
def ob_params():
    def body(c, it):
        from pyphysim.simulations.parameters import SimulationParameters
        it.native_prefixes = ["pyphysim.simulations.parameters:SimulationParameters.create", "pyphysim.simulations.parameters:SimulationParameters._create",
                              "pyphysim.simulations.parameters:SimulationParameters.set_unpack_parameter",
                              "pyphysim.simulations.parameters:SimulationParameters.__init__"]
        x = c.var("x", "real")
        parent = SimulationParameters.create({"SNR": [0, 5, 10], "M": 4, "name": "qam"})
        parent.parameters["alpha"] = x
        parent.set_unpack_parameter("SNR")
        idx = c.var("idx", "int")
        child = SimulationParameters.create({"SNR": 5, "M": 4, "name": "qam"})
        child.parameters["alpha"] = x
        child._unpack_index = idx
        child._original_sim_params = parent
        goals = []
        for label, p in (("parent", parent), ("child", child)):
            d = it.call(it.getattr(p, "_to_dict"), [])
            q = it.call(it.getattr(SimulationParameters, "_from_dict"), [d])
            f = (lambda o, n: o.fields[n] if isinstance(o, SObj) else getattr(o, n))
            goals.append(Goal(label + ": parameters restored", set(f(q, "parameters")) == set(p.parameters) and all(
                (f(q, "parameters")[k] is p.parameters[k]) or f(q, "parameters")[k] == p.parameters[k] for k in p.parameters if k != "alpha")
                and f(q, "parameters")["alpha"] is x))
            goals.append(Goal(label + ": unpacked set restored", f(q, "_unpacked_parameters_set") == p._unpacked_parameters_set))
            goals.append(Goal(label + ": unpack index restored", lift(f(q, "_unpack_index")) == lift(p._unpack_index)))
            o = f(q, "_original_sim_params")
            if p._original_sim_params is None:
                goals.append(Goal(label + ": no original", o is None))
            else:
                goals.append(Goal(label + ": original restored recursively", o is not None and
                                  f(o, "_unpacked_parameters_set") == parent._unpacked_parameters_set and
                                  set(f(o, "parameters")) == set(parent.parameters)))
        return goals
    return verify(body, check_side=False)


@obligation("hooks/scalars_sets_arrays",
            desc="NumpyOrSetEncoder.default then json_numpy_or_set_obj_hook: numpy integer / floating scalars (symbolic value, every width) "
                 "keep their numeric value (no truncation); a set comes back as the same set; an array descriptor carries data, dtype and "
                 "shape and the hook rebuilds exactly that array; unsupported objects raise TypeError")
def ob_hooks():
    def body(c, it):
        import pyphysim.util.serialize as S
        enc = S.NumpyOrSetEncoder()
        goals = []
        xi, xf = c.var("xi", "int"), c.var("xf", "real")
        c.inputs.update(xi=xi, xf=xf)
        ei = it.call(it.getattr(enc, "default"), [xi])
        ef = it.call(it.getattr(enc, "default"), [xf])
        goals.append(Goal("numpy integer scalar -> same integer", lift(ei) == xi))
        goals.append(Goal("numpy float scalar -> same value (no int truncation)", lift(ef) == xf))
        for st in ({1, 5, 9}, set(), {"auto", 1, 2, 4}, {None, 16, 64}, {"x", 2.5, None}, {True, "t"}):
            # sets of any JSON-representable elements, also ones that cannot be ordered against each other
            es = it.call(it.getattr(enc, "default"), [st])
            back = it.call(S.json_numpy_or_set_obj_hook, [json.loads(json.dumps(es))])
            goals.append(Goal("set round trip %r" % (sorted(map(repr, st)),), isinstance(back, set) and back == st))
        for arr in (np.arange(6, dtype=np.int32).reshape(2, 3), np.zeros((0, 3)), np.array([1.5, 2.5], dtype=np.float32),
                    np.asfortranarray(np.arange(6.0).reshape(2, 3)), np.arange(6.0).reshape(2, 3).T):
            ea = it.call(it.getattr(enc, "default"), [arr])
            back = it.call(S.json_numpy_or_set_obj_hook, [json.loads(json.dumps(ea))])
            ok = isinstance(back, np.ndarray) and back.shape == arr.shape and back.dtype == arr.dtype and np.array_equal(back, arr)
            goals.append(Goal("array %s %s round trip (values, shape, dtype)" % (arr.dtype, arr.shape), ok))
        try:
            it.call(it.getattr(enc, "default"), [object()])
            goals.append(Goal("unsupported object rejected", False))
        except PyRaise as pr:
            goals.append(Goal("unsupported object -> TypeError", isinstance(pr.exc, TypeError)))
        return goals

    def rp(mv):
        import pyphysim.util.serialize as S
        for st in ({1, 5, 9}, {"auto", 1, 2, 4}, {None, 16, 64}):
            try:
                got = json.loads(json.dumps({"a": st}, cls=S.NumpyOrSetEncoder), object_hook=S.json_numpy_or_set_obj_hook)["a"]
            except Exception as e:
                return {"confirmed": True, "value": repr(st), "JSON encoding raised": repr(e)}
            if got != st:
                return {"confirmed": True, "value": repr(st), "after round trip": repr(got)}
        for v in (np.float32(0.5), np.float16(0.25), np.float64(float(mv.get("xf", 0.5)) or 0.5)):
            got = json.loads(json.dumps({"a": v}, cls=S.NumpyOrSetEncoder), object_hook=S.json_numpy_or_set_obj_hook)["a"]
            if got != float(v):
                return {"confirmed": True, "value": repr(v), "after round trip": got}
        return {"confirmed": False}
    return verify(body, replay=rp, check_side=False)


# ------------------------------------------------------------------ bounded native
def _rand_value(rr, depth=0):
    k = rr.randint(15)
    if k == 14:
        # a set whose elements cannot be ordered against each other (named options next to numbers, None as "not set")
        return [{"auto", 1, 2, 4}, {None, 16, 64}, {"x", 2.5}, {None, "a"}, {"b", 0}][rr.randint(5)]
    if k == 0:
        return int(rr.randint(-1000, 1000))
    if k == 1:
        return float(rr.randn() * 10 ** rr.randint(-3, 4))
    if k == 2:
        return ["abc", "", "x y", "ü"][rr.randint(4)]
    if k == 3:
        return [np.int8, np.int16, np.int32, np.int64, np.uint8, np.uint16][rr.randint(6)](rr.randint(0, 100))
    if k == 4:
        return [np.float16, np.float32, np.float64][rr.randint(3)](rr.randint(-64, 64) / 8.0)
    if k == 5:
        return [int(x) for x in rr.randint(0, 9, rr.randint(0, 4))]
    if k == 6:
        return set(int(x) for x in rr.randint(0, 9, rr.randint(0, 4)))
    if k == 7:
        a = rr.randn(*[rr.randint(0, 4) for _ in range(rr.randint(1, 4))])
        return a
    if k == 8:
        a = rr.randint(0, 50, size=(rr.randint(1, 4), rr.randint(1, 4))).astype([np.int32, np.int64, np.float32][rr.randint(3)])
        return [a, np.asfortranarray(a), a.T, a[::-1]][rr.randint(4)]
    if k == 9:
        return bool(rr.randint(2))
    if k == 10:
        return None
    if k == 11 and depth < 2:
        return [_rand_value(rr, depth + 1) if not isinstance(_rand_value(rr, 3), set) else 1 for _ in range(rr.randint(0, 3))]
    if k == 12:
        return np.arange(rr.randint(1, 6)) * [1, 2, 0.5][rr.randint(3)]
    return [[1, 2], [3]]


def _canon_json(text):
    """parsed JSON with the element order of encoded SETS removed: the order in which a set is written is not information (it
    follows the hash seed of the process for strings), so two texts that differ only there describe the same object"""
    def walk(o):
        if isinstance(o, dict):
            o = {k: walk(v) for k, v in o.items()}
            if o.get("_is_set") is True and isinstance(o.get("data"), list):
                o["data"] = sorted(o["data"], key=repr)
            return o
        if isinstance(o, list):
            return [walk(v) for v in o]
        return o
    return walk(json.loads(text))


def _clean(v):
    # nested lists may not contain sets/arrays for == on lists to be meaningful
    if isinstance(v, list):
        return [_clean(x) if isinstance(x, list) else (x if isinstance(x, (int, float, str, bool)) or x is None else 0) for x in v]
    return v


@obligation("native/round_trips", kind="bounded", timeout=900,
            desc="native: random parameter dictionaries over the supported value types (python/numpy scalars of every width, strings, lists, "
                 "sets, real arrays of any shape / dtype / memory order incl. empty and views), random unpacked subsets, unpacked "
                 "children, all result types with random histories, current_rep/runned_reps: to_json/from_json, to_dict/from_dict, "
                 "save_to_file/load_from_file for .pickle, .json and no extension with templated names: equal (own ==, arrays exactly), "
                 "save-load-save idempotent")
def ob_native():
    import shutil
    import tempfile
    from pyphysim.simulations.parameters import SimulationParameters
    from pyphysim.simulations.results import SimulationResults, Result
    r = stable_rng("C17native")

    def gen():
        for i in range(150 if quick() else 2000):
            yield {"seed": int(r.randint(1 << 30))}

    def deep_equal(a, b):
        if isinstance(a, np.ndarray) or isinstance(b, np.ndarray):
            return isinstance(a, np.ndarray) and isinstance(b, np.ndarray) and a.shape == b.shape and np.array_equal(a, b)
        if isinstance(a, (np.integer, np.floating)) or isinstance(b, (np.integer, np.floating)):
            return float(a) == float(b)
        if isinstance(a, (list, tuple)):
            return isinstance(b, (list, tuple)) and len(a) == len(b) and all(deep_equal(x, y) for x, y in zip(a, b))
        return a == b

    def check(case):
        rr = np.random.RandomState(case["seed"])
        d = {}
        for k in range(rr.randint(1, 6)):
            d["p%d" % k] = _clean(_rand_value(rr))
        d["SNR"] = np.array(sorted(set(rr.randint(0, 20, rr.randint(1, 4)).tolist())))
        d["scheme"] = ["a", "b"]
        p = SimulationParameters.create(d)
        for n in ("SNR", "scheme"):
            if (not (rr.rand() >= 0.6)):
                p.set_unpack_parameter(n)
        objs = [("parameters", p, SimulationParameters)]
        kids = p.get_unpacked_params_list()
        objs.append(("unpacked child", kids[rr.randint(len(kids))], SimulationParameters))
        s = SimulationResults()
        s.set_parameters(p)
        for v in range(len(kids)):
            for typ in ("SUM", "RATIO", "MISC", "CHOICE"):
                code = getattr(Result, typ + "TYPE")
                acc = bool(rr.randint(2))
                res = Result(typ, code, acc, choice_num=4) if typ == "CHOICE" else Result(typ, code, acc)
                for _ in range(rr.randint(0, 4)):
                    if typ == "CHOICE":
                        res.update(int(rr.randint(4)))
                    elif typ == "RATIO":
                        res.update(int(rr.randint(0, 9)), int(rr.randint(1, 9)))
                    elif typ == "MISC":
                        res.update([1.5, "txt", 3][rr.randint(3)])
                    else:
                        res.update([int(rr.randint(9)), float(rr.rand())][rr.randint(2)])
                s.append_result(res)
        s.current_rep = int([0, -1, 1, 500][rr.randint(4)])
        s.runned_reps = [int(x) for x in rr.randint(0, 9, len(kids))]
        objs.append(("results", s, SimulationResults))
        # the results of ONE variation (what the runner saves as partial results): its parameters are an unpacked child
        sk = SimulationResults()
        sk.set_parameters(kids[rr.randint(len(kids))])
        rk = Result("v", Result.SUMTYPE)
        rk.update(3)
        sk.add_result(rk)
        objs.append(("results of one variation", sk, SimulationResults))

        def observe(pp):
            """everything the statement lists about a parameters object, beyond its own ==: marks, index, how many variations it
            belongs to, and the same about the complete object it was unpacked from (values are compared by value below)"""
            if pp is None:
                return None
            return {"names": sorted(pp.parameters), "unpacked": sorted(pp._unpacked_parameters_set), "index": pp.unpack_index,
                    "variations": pp.get_num_unpacked_variations(), "from": observe(pp._original_sim_params)}

        def same_values(pa_, pb_):
            if pa_ is None or pb_ is None:
                return pa_ is pb_
            for k_, v_ in pa_.parameters.items():
                w_ = pb_.parameters.get(k_)
                if isinstance(v_, (set, frozenset)):
                    if not (isinstance(w_, (set, frozenset)) and v_ == w_):
                        return False
                elif not deep_equal(v_, w_):
                    return False
            return same_values(pa_._original_sim_params, pb_._original_sim_params)
        import pickle
        for label, o, cls in objs:
            try:
                ob = pickle.loads(pickle.dumps(o))
            except Exception as e:
                return {label: "pickle round trip raised %r" % e, "params": str(d)[:300]}
            if not (o == ob and ob == o):
                return {label: "pickle round trip not equal", "params": str(d)[:300]}
            pa, pb = (o, ob) if cls is SimulationParameters else (o.params, ob.params)
            if observe(pa) != observe(pb) or not same_values(pa, pb):
                return {label: "pickle round trip changed what the parameters report", "before": str(observe(pa))[:400], "after": str(observe(pb))[:400]}
            try:
                oj = cls.from_json(o.to_json())
            except Exception as e:
                return {label: "JSON round trip raised %r" % e, "params": str(d)[:300]}
            pj = oj if cls is SimulationParameters else oj.params
            if observe(pa) != observe(pj) or not same_values(pa, pj):
                return {label: "JSON round trip changed what the parameters report", "before": str(observe(pa))[:400], "after": str(observe(pj))[:400]}
        for label, o, cls in objs:
            try:
                o2 = cls.from_json(o.to_json())
            except Exception as e:
                return {label: "JSON round trip raised %r" % e, "params": str(d)[:300]}
            if not (o == o2 and o2 == o):
                return {label: "JSON round trip not equal", "params": str(d)[:300]}
            if cls is SimulationParameters:
                for k, v in o.parameters.items():
                    if not deep_equal(v, o2.parameters[k]):
                        return {label: "parameter %r changed" % k, "before": repr(v)[:200], "after": repr(o2.parameters[k])[:200]}
                if o2.unpack_index != o.unpack_index or o2._unpacked_parameters_set != o._unpacked_parameters_set or \
                        (o._original_sim_params is None) != (o2._original_sim_params is None):
                    return {label: "marks / index / original lost"}
            if _canon_json(o2.to_json()) != _canon_json(cls.from_json(o2.to_json()).to_json()):
                return {label: "save-load-save not idempotent"}
            o3 = cls.from_dict(o.to_dict())
            if not (o == o3):
                return {label: "dict round trip not equal"}
        if s.current_rep != SimulationResults.from_json(s.to_json()).current_rep:
            return {"current_rep": [s.current_rep, SimulationResults.from_json(s.to_json()).current_rep]}
        tmp = tempfile.mkdtemp(prefix="c17_", dir=os.path.expanduser("~"))
        try:
            for ext in (".pickle", ".json", ""):
                fn = s.save_to_file(os.path.join(tmp, "res_{scheme}_x" + ext))
                if not os.path.exists(fn) or "{" in os.path.basename(fn):
                    return {"file name": fn}
                if ext == "" and not fn.endswith(".pickle"):
                    return {"no extension must mean .pickle": fn}
                s2 = SimulationResults.load_from_file(fn)
                if not (s == s2) or s2.current_rep != s.current_rep or s2.runned_reps != s.runned_reps:
                    return {"file round trip (%s) not equal" % (ext or "none"): fn}
                for k, v in s.params.parameters.items():
                    if not deep_equal(v, s2.params.parameters[k]):
                        return {"file round trip (%s): parameter %r changed" % (ext or "none", k): [repr(v)[:150], repr(s2.params.parameters[k])[:150]]}
                fn2 = s2.save_to_file(os.path.join(tmp, "again" + (ext or ".pickle")))
                if ext == ".json" and open(fn2).read() != open(fn).read().replace(s.original_filename, s2.original_filename):
                    a, b = _canon_json(open(fn).read()), _canon_json(open(fn2).read())
                    a.pop("original_filename"), b.pop("original_filename")
                    if a != b:
                        return {"save(load(save)) differs from save (json)": True}
            # what was saved through a name is what loading that name returns: an OLDER file of the same base name in another format
            # (results once exported as .json next to the default .pickle) does not shadow it
            s_old = SimulationResults()
            s_old.set_parameters(p)
            ro = Result("other", Result.SUMTYPE)
            ro.update(123)
            s_old.add_result(ro)
            for first_ext, second_ext in ((".json", ""), (".pickle", ".json"), ("", ".json")):
                base = os.path.join(tmp, "sib%s%s" % (first_ext.strip(".") or "none", second_ext.strip(".") or "none"))
                s_old.save_to_file(base + first_ext)
                fn_new = s.save_to_file(base + second_ext)
                for name in ([base + second_ext] if second_ext else [base, fn_new]):
                    got = SimulationResults.load_from_file(name)
                    if not (got == s):
                        return {"history": "save A to %r, save B to %r, load %r" % (os.path.basename(base + first_ext), os.path.basename(base + second_ext),
                                                                                  os.path.basename(name)),
                                "loaded object equals": "A (the older sibling)" if got == s_old else "neither"}
        finally:
            shutil.rmtree(tmp, ignore_errors=True)
        return None
    return bounded(gen(), check)


@obligation("native/file_names", kind="bounded",
            desc="file name from a template: deterministic; distinct scalar values of a parameter (ints, floats incl. neighbouring doubles, "
                 "numpy scalars, strings) give distinct names; after a parameter is replaced in place on a results object the name follows the current value")
def ob_names():
    from pyphysim.simulations.results import SimulationResults
    from pyphysim.simulations.parameters import SimulationParameters
    r = stable_rng("C17names")

    def gen():
        for i in range(300 if quick() else 3000):
            yield {"seed": int(r.randint(1 << 30))}

    def scalar(rr):
        k = rr.randint(6)
        if k == 0:
            return int(rr.randint(-50, 50))
        if k == 1:
            x = float(rr.randn())
            return [x, np.nextafter(x, 1.0), 0.1 + 0.2, 0.3][rr.randint(4)]
        if k == 2:
            return np.int32(rr.randint(0, 50))
        if k == 3:
            return np.float64(rr.randint(0, 100) / 4.0)
        if k == 4:
            return "s%d" % rr.randint(20)
        return float(rr.randint(0, 40)) / 2

    def check(case):
        rr = np.random.RandomState(case["seed"])
        a, b = scalar(rr), scalar(rr)

        def name(v):
            s = SimulationResults()
            s.set_parameters(SimulationParameters.create({"x": v, "y": 3, "arr": np.arange(5)}))
            return s.get_filename_with_replaced_params("res_{x}_{y}_{arr}.json")
        na, na2, nb = name(a), name(a), name(b)
        if na != na2:
            return {"not deterministic": [na, na2]}
        same = (type(a) is type(b) or (isinstance(a, (int, float, np.integer, np.floating)) and isinstance(b, (int, float, np.integer, np.floating)))) and a == b
        if not same and str(a) != str(b) and na == nb:
            return {"distinct values, same name": [repr(a), repr(b), na]}
        # the derived name is a function of the CURRENT parameters: one results object, name derived, parameter replaced in place
        # through every public route, name derived again == the name of a fresh object holding the new value
        for route in ("params.add", "params[...] =", "set_parameters"):
            s = SimulationResults()
            s.set_parameters(SimulationParameters.create({"x": a, "y": 3, "arr": np.arange(5)}))
            T = "res_{x}_{y}_{arr}.json"
            first = s.get_filename_with_replaced_params(T)
            if route == "params.add":
                s.params.add("x", b)
            elif route == "params[...] =":
                s.params["x"] = b
            else:
                s.set_parameters(SimulationParameters.create({"x": b, "y": 3, "arr": np.arange(5)}))
            second = s.get_filename_with_replaced_params(T)
            if first != na or second != nb:
                return {"name after replacing x through %s" % route: second, "name of a fresh object with the new value": nb,
                        "old value": repr(a), "new value": repr(b)}
        return None
    return bounded(gen(), check)
