"""C01  Modulation is invertible and detection picks the nearest constellation symbol.

Functions under contract: Modulator.setConstellation/modulate/demodulate, BPSK.modulate/demodulate, PSK.__init__/
_createConstellation/setPhaseOffset, QAM.__init__/_createConstellation, conversion.gray2binary (shared with C15).
"""
import itertools
import math

import numpy as np
import z3

from pyvc import sym
from pyvc.sym import lift, SComplex
from pyvc.interp import PyRaise
from pyvc.oblig import obligation, verify, bounded, exhaustive, Goal, merge
from .common import stable_rng, quick

LEVEL = "proof"
EXPLANATION = ("Detection: the real demodulate() is symbolically executed on modulators built by their real constructors with "
               "SYMBOLIC received samples (every point of the complex plane): the real numpy argmin runs on symbolic distances, one "
               "path per outcome, and on every path the returned index k satisfies |c_k - r|^2 <= |c_k' - r|^2 for all k' (ML detection), "
               "shape preserved for 1-D, 2-D C-ordered, Fortran-ordered and transposed inputs, also after setPhaseOffset following an "
               "earlier demodulation (no stale detector state).  Modulation: table lookup result[i] == symbols[idx[i]] for symbolic "
               "indexes, ValueError for idx >= M.  BPSK closed forms for all inputs.  PSK unit energy for a symbolic phase offset.  "
               "Round trip, distinctness, unit mean energy and rejection of unsupported cardinalities range over finite configuration "
               "sets and are decided by complete enumeration on the real code.")
ASSUMPTIONS = [
    "ideal-real arithmetic for the distance comparisons (sqrt uninterpreted, strictly increasing); exact ties excluded by the property",
    "negative indexes wrap (numpy fancy indexing) - documented behaviour outside the statement",
    "detection proved per constellation for M in {2,4,8,16}; larger orders by the bounded nearest-neighbour cross-check",
]
TRUSTED_BASE = ["numpy broadcasting / argmin / reshape executed natively on object arrays"]
BOUNDS = {"psk_orders": "2..2^10 (enumerated)", "qam_orders": "4..4^6 (enumerated)", "symbolic_detection_M": [2, 4, 8, 16]}


def _mods():
    from pyphysim.modulators import fundamental as f
    return {"BPSK": lambda: f.BPSK(), "QPSK": lambda: f.QPSK(), "PSK4": lambda: f.PSK(4), "PSK8": lambda: f.PSK(8, 0.2),
            "PSK16": lambda: f.PSK(16), "QAM4": lambda: f.QAM(4), "QAM16": lambda: f.QAM(16)}


def _mk(it, name):
    from pyphysim.modulators import fundamental as f
    spec = {"BPSK": (f.BPSK, []), "QPSK": (f.QPSK, []), "PSK4": (f.PSK, [4]), "PSK8": (f.PSK, [8, 0.2]), "PSK16": (f.PSK, [16]),
            "QAM4": (f.QAM, [4]), "QAM16": (f.QAM, [16])}[name]
    return it.call(spec[0], spec[1])


def _abs2(z):
    z = sym.to_complex(z)
    return z.re * z.re + z.im * z.im


def _ml_goal(symbols, r, k, tag):
    """k is an ML decision for sample r: no constellation point is strictly closer"""
    dk = _abs2(lift(complex(symbols[k])) - r) if not sym.is_sym(symbols[k]) else _abs2(symbols[k] - r)
    conj = []
    for j in range(len(symbols)):
        dj = _abs2(sym.to_complex(symbols[j]) - r)
        conj.append((dk <= dj).t)
    return Goal(tag, sym.SBool(z3.And(conj)))


@obligation("demodulate/nearest_symbol", params=[{"mod": m, "layout": l} for m in ("QPSK", "PSK4", "PSK8", "QAM4", "QAM16", "PSK16")
                                                 for l in (("1d", "C2d", "F2d", "T2d") if m in ("QPSK", "QAM4") else ("1d",))],
            timeout=200,
            desc="generic detector (Modulator.demodulate) on SYMBOLIC samples: returned index is a minimum-distance constellation point for "
                 "every sample; output has the input's shape and element order (1-D, 2-D C-order, Fortran-order, transposed view)")
def ob_demod(mod, layout):
    def body(c, it):
        c.axioms_on = False
        o = _mk(it, mod)
        symbols = it.getattr(o, "symbols")
        if layout == "1d":
            shape = (2,) if len(symbols) <= 4 else (1,)
        else:
            shape = (1, 2)
        base = np.empty(shape, dtype=object)
        for pos in np.ndindex(*shape):
            base[pos] = c.var("r" + "_".join(map(str, pos)), "complex")
        c.inputs["received"] = base
        # 2-D layouts: two symbolic samples on the anti-diagonal, two fixed distinct samples on the diagonal (keeps the path
        # count at M^2 while any permutation of the element order is still observable)
        def fill(a):
            a[0, 0], a[1, 1] = lift(0.9 + 0.7j), lift(-0.8 - 0.6j)
            a[0, 1], a[1, 0] = c.var("q01", "complex"), c.var("q10", "complex")
            return a
        if layout == "F2d":
            arr = fill(np.asfortranarray(np.empty((2, 2), dtype=object)))
        elif layout == "T2d":
            arr = fill(np.empty((2, 2), dtype=object)).T
        elif layout == "C2d":
            arr = fill(np.empty((2, 2), dtype=object))
        else:
            arr = base
        if mod in ("QPSK", "QAM4") and layout != "1d":
            pass
        out = it.call(it.getattr(o, "demodulate"), [arr])
        goals = [Goal("output shape == input shape", np.shape(out) == arr.shape)]
        if not goals[0].cond:
            return goals
        for pos in np.ndindex(*arr.shape):
            k = out[pos]
            k = int(k) if not sym.is_sym(k) else it._concrete_index(k)
            goals.append(_ml_goal(symbols, arr[pos], k, "sample %s -> index %d is a nearest point" % (pos, k)))
        return goals

    def rp(mv):
        o = _mods()[mod]()
        rr = np.random.RandomState(0)
        for trial in range(200):
            x = rr.randn(2, 3) + 1j * rr.randn(2, 3)
            for a in (x, np.asfortranarray(x), x.T, x.ravel()):
                d = o.demodulate(a)
                want = np.abs(o.symbols.reshape(-1, 1, 1) - np.atleast_2d(a)[None]).argmin(axis=0).reshape(a.shape)
                if d.shape != a.shape or not np.array_equal(d, want):
                    return {"confirmed": True, "received": a.tolist().__repr__()[:300], "flags": str(a.flags.f_contiguous),
                            "demodulated": d.tolist(), "nearest": want.tolist()}
        return {"confirmed": False}
    return verify(body, replay=rp, check_side=False, timeout_ms=60000, max_paths=20000)


@obligation("demodulate/after_phase_offset_change", timeout=600,
            desc="history: PSK(4) demodulate -> setPhaseOffset(0.3) -> demodulate: the second detection is ML with respect to the NEW "
                 "constellation (no stale detector state); then the same after a second change")
def ob_demod_history():
    def body(c, it):
        from pyphysim.modulators import fundamental as f
        c.axioms_on = False
        o = it.call(f.PSK, [4])
        r = np.empty(1, dtype=object)
        r[0] = c.var("r", "complex")
        it.call(it.getattr(o, "demodulate"), [r])
        goals = []
        for phi in (0.3, 1.0):
            it.call(it.getattr(o, "setPhaseOffset"), [phi])
            out = it.call(it.getattr(o, "demodulate"), [r])
            symbols = it.getattr(o, "symbols")
            expect = f.PSK._createConstellation(4, phi)
            goals.append(Goal("constellation follows the new offset %.1f" % phi, np.allclose(np.sort_complex(np.asarray(symbols, dtype=complex)),
                                                                                        np.sort_complex(expect), atol=1e-12)))
            k = it._concrete_index(out[0])
            goals.append(_ml_goal(symbols, r[0], k, "offset %.1f: index %d nearest in the new constellation" % (phi, k)))
        return goals
    return verify(body, check_side=False, timeout_ms=60000)


@obligation("modulate/table_lookup", params=[{"mod": m} for m in ("PSK4", "QAM16")], timeout=600,
            desc="modulate(idx) for symbolic indexes in [0,M): result[i] == symbols[idx[i]], shape preserved (1-D and 2-D); idx >= M -> "
                 "ValueError, never symbols")
def ob_modulate(mod):
    def body(c, it):
        o = _mk(it, mod)
        symbols = it.getattr(o, "symbols")
        M = len(symbols)
        idx = np.empty((1, 2), dtype=object)
        for i in range(2):
            idx[0, i] = c.var("i%d" % i, "int")
            c.assume((idx[0, i] >= 0) & (idx[0, i] < M))
        out = it.call(it.getattr(o, "modulate"), [idx])
        goals = [Goal("shape", np.shape(out) == (1, 2))]
        if goals[0].cond:
            for i in range(2):
                k = it._concrete_index(idx[0, i])
                goals.append(Goal("element %d is symbols[idx]" % i, complex(out[0, i]) == complex(symbols[k])))
        for bad in (M, M + 1, 10 * M):
            for arr in (np.array([0, bad]), bad):
                try:
                    it.call(it.getattr(o, "modulate"), [arr])
                    goals.append(Goal("index %d rejected" % bad, False))
                except PyRaise as pr:
                    goals.append(Goal("index %d -> ValueError" % bad, isinstance(pr.exc, ValueError)))
        return goals
    return verify(body, check_side=False, timeout_ms=30000)


@obligation("bpsk/closed_forms",
            desc="BPSK: modulate(b) == 1-2b for b in {0,1} (arrays), values > 1 raise ValueError; demodulate(x) == index of the nearer of "
                 "{+1,-1} for every complex x with Re x != 0; round trip")
def ob_bpsk():
    def body(c, it):
        from pyphysim.modulators import fundamental as f
        o = it.call(f.BPSK, [])
        goals = []
        b = np.empty(2, dtype=object)
        b[0], b[1] = c.var("b0", "int"), c.var("b1", "int")
        try:
            m = it.call(it.getattr(o, "modulate"), [b])
            goals.append(Goal("accepted => all bits <= 1", (b[0] <= 1) & (b[1] <= 1)))
            goals.append(Goal("modulate == 1 - 2b", (lift(m[0]) == 1 - 2 * b[0]) & (lift(m[1]) == 1 - 2 * b[1])))
        except PyRaise as pr:
            goals.append(Goal("rejected with ValueError", isinstance(pr.exc, ValueError)))
            goals.append(Goal("rejected => some bit > 1", (b[0] > 1) | (b[1] > 1)))
        x = np.empty(2, dtype=object)
        x[0], x[1] = c.var("x0", "complex"), c.var("x1", "complex")
        d = it.call(it.getattr(o, "demodulate"), [x])
        goals.append(Goal("demodulate shape", np.shape(d) == (2,)))
        for i in range(2):
            xr = sym.to_complex(x[i])
            near_minus = _abs2(xr + 1) < _abs2(xr - 1)
            goals.append(Goal("sample %d: nearest of {+1,-1} when Re x != 0" % i, sym.SBool(z3.Implies(
                (xr.re != 0).t, (lift(d[i]) == sym.ite(near_minus, 1, 0)).t))))
        bits = np.array([0, 1, 1, 0])
        goals.append(Goal("round trip", np.array_equal(it.call(it.getattr(o, "demodulate"), [it.call(it.getattr(o, "modulate"), [bits])]), bits)))
        return goals
    return verify(body, check_side=False)


@obligation("psk/unit_energy_symbolic_offset", params=[{"M": M} for M in (2, 4, 8, 16)], timeout=600,
            desc="PSK(M, phi) for SYMBOLIC phi: every symbol has |s|^2 in [1 - 2e-30, 1] (cos^2+sin^2=1, the <1e-15 snapping modelled)")
def ob_psk_energy(M):
    def body(c, it):
        from pyphysim.modulators import fundamental as f
        phi = c.var("phi", "real")
        o = it.call(f.PSK, [M, phi])
        symbols = it.getattr(o, "symbols")
        goals = [Goal("M symbols", np.shape(symbols) == (M,))]
        for k in range(M if M <= 8 else 8):
            e = _abs2(symbols[k])
            from fractions import Fraction
            goals.append(Goal("symbol %d energy" % k, (e <= 1) & (e >= lift(Fraction(1) - Fraction(2, 10**30)))))
        return goals
    return verify(body, check_side=False, timeout_ms=60000)


# ------------------------------------------------------------------ exhaustive configuration space
@obligation("config/all_orders_round_trip_energy_distinct", kind="exhaustive", timeout=900,
            desc="every PSK order 2..2^10 x 12 offsets over the whole circle (constructor argument and PSK(M).setPhaseOffset) and every QAM order 4..4^6, BPSK, QPSK: M distinct points, unit mean "
                 "energy (1e-12), demodulate(modulate(all indexes)) == all indexes in 1-D / 2-D / Fortran layouts, K == log2 M, "
                 "idx >= M -> ValueError")
def ob_config():
    from pyphysim.modulators import fundamental as f

    def cases():
        yield {"cls": "BPSK", "args": []}
        yield {"cls": "QPSK", "args": []}
        for k in range(1, 11):
            for off in (0.0, math.pi / 2**k, 0.3, -2.5):
                yield {"cls": "PSK", "args": [2**k, off]}
            # offsets spread over the whole circle (and beyond one turn), given to the constructor and through setPhaseOffset
            for off in (5 * math.pi / 4, 1.8, 2.3, 3.0, 2 * math.pi - 1e-9, 6.0, 7.5, -0.1):
                yield {"cls": "PSK", "args": [2**k, off]}
                yield {"cls": "PSK", "args": [2**k], "then_setPhaseOffset": off}
            for off in (0.0, math.pi / 2**k, 0.3, -2.5):
                yield {"cls": "PSK", "args": [2**k], "then_setPhaseOffset": off}
        for k in range(1, 7):
            yield {"cls": "QAM", "args": [4**k]}

    def check(case):
        o = getattr(f, case["cls"])(*case["args"])
        if "then_setPhaseOffset" in case:
            o.setPhaseOffset(case["then_setPhaseOffset"])
        s = np.asarray(o.symbols)
        M = len(s)
        if case["cls"] in ("PSK", "QAM") and M != case["args"][0]:
            return {"M": M}
        if o.M != M or (not (abs(o.K - math.log2(M)) <= 1e-12)):
            return {"M/K": [o.M, o.K]}
        if (not (abs(np.mean(np.abs(s) ** 2) - 1) <= 1e-12)):
            return {"mean energy": float(np.mean(np.abs(s) ** 2))}
        if M <= 1024:
            d = np.abs(s.reshape(-1, 1) - s.reshape(1, -1))
            np.fill_diagonal(d, 1)
            if (not (d.min() >= 1e-9)):
                return {"points not distinct": float(d.min())}
        else:
            if len(set(np.round(s, 9).tolist())) != M:
                return {"points not distinct": True}
        if M > 1024:
            idx = np.arange(0, M, 7)
        else:
            idx = np.arange(M)
        if len(idx) % 2:
            idx = idx[:-1] if len(idx) > 1 else np.array([0, 0])
        for a in (idx, idx.reshape(2, -1), np.asfortranarray(idx.reshape(2, -1)), idx.reshape(2, -1).T):
            tx = o.modulate(a)
            if tx.shape != a.shape:
                return {"modulate shape": list(tx.shape)}
            for t in (tx, np.asfortranarray(tx)):
                rx = o.demodulate(t)
                if rx.shape != a.shape or not np.array_equal(rx, a):
                    return {"round trip failed for layout": [list(a.shape), bool(t.flags.f_contiguous)]}
        for bad in (M, 2 * M + 1):
            try:
                o.modulate(np.array([0, bad]))
                if case["cls"] != "BPSK":
                    return {"index >= M accepted": bad}
            except ValueError:
                pass
        return None
    return exhaustive(cases(), check)


@obligation("config/instances_do_not_share_state", kind="exhaustive", timeout=300,
            desc="frame between objects: for every class and order (BPSK, QPSK, PSK 2..64, QAM 4..1024) two instances built one after the "
                 "other do not share their constellation memory; after one instance's symbols were changed IN PLACE (or its phase offset / "
                 "constellation set), a newly built instance and the other existing one are exactly what a fresh process would build, "
                 "and still round-trip")
def ob_independent():
    from pyphysim.modulators import fundamental as f

    def cases():
        yield {"cls": "BPSK", "args": []}
        yield {"cls": "QPSK", "args": []}
        for M in (2, 4, 8, 16, 32, 64):
            yield {"cls": "PSK", "args": [M]}
            yield {"cls": "PSK", "args": [M, 0.3]}
        for M in (4, 16, 64, 256, 1024):
            yield {"cls": "QAM", "args": [M]}

    def check(case):
        cls = getattr(f, case["cls"])
        a = cls(*case["args"])
        ref = np.array(a.symbols, copy=True)
        b = cls(*case["args"])
        if np.shares_memory(a.symbols, b.symbols):
            return {"two instances share the constellation array": True}
        a.symbols *= 2                                       # in-place change of ONE object
        c_ = cls(*case["args"])
        for name, o in (("existing", b), ("new", c_)):
            if not np.array_equal(np.asarray(o.symbols), ref):
                return {"%s instance changed by an in-place change of another" % name: np.asarray(o.symbols)[:4].tolist(), "expected": ref[:4].tolist()}
            idx = np.arange(o.M)
            if not np.array_equal(o.demodulate(o.modulate(idx)), idx):
                return {"%s instance no longer round-trips" % name: True}
        if hasattr(a, "setPhaseOffset"):
            a2 = cls(*case["args"])
            a2.setPhaseOffset(1.1)
            d_ = cls(*case["args"])
            if not np.array_equal(np.asarray(d_.symbols), ref):
                return {"new instance changed by setPhaseOffset on another": True}
        return None
    return exhaustive(cases(), check)


@obligation("config/unsupported_cardinalities_rejected", kind="exhaustive", timeout=900,
            desc="PSK(M) for every M in -70..0 and 2..4100 raises unless M is a power of two (>= 2); QAM(M) likewise unless M is 4^k")
def ob_reject():
    from pyphysim.modulators import fundamental as f

    def check(case):
        M = case["M"]
        for cls, ok in ((f.PSK, M >= 2 and (M & (M - 1)) == 0), (f.QAM, M >= 4 and (M & (M - 1)) == 0 and (M.bit_length() - 1) % 2 == 0)):
            if ok and M > 1024:
                continue
            try:
                o = cls(M)
                accepted = True
            except Exception:
                accepted = False
            if accepted != ok:
                return {"class": cls.__name__, "M": M, "accepted": accepted, "supported": ok}
        return None
    # 0 and negative cardinalities are unsupported as well (1 is outside the quantified domain: the pinned code builds a one-point table)
    return exhaustive(({"M": M} for M in list(range(-70, 1)) + list(range(2, 4101))), check)


@obligation("native/nearest_neighbour_cross_check", kind="bounded", timeout=900,
            desc="native: random samples incl. points 1e-9 from decision boundaries, all modulators/orders up to 1024, histories "
                 "demodulate -> setPhaseOffset -> demodulate: demodulate == brute-force nearest point (ties excluded); long frames (frame "
                 "length x M up to 2^22 quick / 2^23 thorough, lengths that are no multiple of a power of two): demodulate(modulate(idx)) == idx "
                 "noise-free and with small noise")
def ob_native():
    from pyphysim.modulators import fundamental as f
    r = stable_rng("C01native")

    def gen():
        for i in range(80 if quick() else 800):
            yield {"seed": int(r.randint(1 << 30)), "which": i % 6}
        # long frames: lengths around and beyond every "samples x constellation size" product up to 2^23 elements, not multiples of
        # any power of two (a block-wise implementation must not drop or garble a trailing partial block)
        for M, kind in ((2, "BPSK"), (4, "QPSK"), (8, "PSK"), (16, "QAM"), (64, "QAM"), (256, "QAM"), (1024, "QAM"), (4096, "QAM")):
            for prod in ((1 << 16, 1 << 20, 1 << 22) if quick() else (1 << 16, 1 << 18, 1 << 20, 1 << 21, 1 << 22, 1 << 23)):
                n = prod // M
                if n >= 16:
                    yield {"seed": int(r.randint(1 << 30)), "long": [M, kind, n + 5]}
                    if not quick():
                        yield {"seed": int(r.randint(1 << 30)), "long": [M, kind, 3 * n + 1]}

    def check_long(case):
        rr = np.random.RandomState(case["seed"])
        M, kind, n = case["long"]
        o = {"BPSK": f.BPSK, "QPSK": f.QPSK}[kind]() if kind in ("BPSK", "QPSK") else (f.PSK(M, 0.3) if kind == "PSK" else f.QAM(M))
        idx = rr.randint(0, M, size=n)
        idx[-7:] = (np.arange(7) * 5 + 1) % M          # a known non-zero tail
        sym_ = o.modulate(idx)
        noisy = sym_ + (rr.randn(n) + 1j * rr.randn(n)) * (0.2 / math.sqrt(M))      # well inside the decision regions
        for label, rx in (("noise-free", sym_), ("small noise", noisy)):
            got = o.demodulate(rx)
            if got.shape != idx.shape or not np.array_equal(got, idx):
                bad = np.flatnonzero(np.asarray(got).ravel()[:n] != idx[:np.asarray(got).size]) if np.asarray(got).size else np.array([0])
                return {"modulator": type(o).__name__, "M": M, "frame length": n, "input": label, "wrong symbols": int(bad.size),
                        "first wrong position": int(bad[0]) if bad.size else None, "last wrong position": int(bad[-1]) if bad.size else None}
        return None

    def check(case):
        if "long" in case:
            return check_long(case)
        rr = np.random.RandomState(case["seed"])
        w = case["which"]
        if w == 0:
            o = f.BPSK()
        elif w == 1:
            o = f.QPSK()
        elif w in (2, 3):
            o = f.PSK(2 ** int(rr.randint(1, 11)), float(rr.uniform(-3, 3)))
        else:
            o = f.QAM(4 ** int(rr.randint(1, 6)))
        for rnd in range(3):
            s = np.asarray(o.symbols, dtype=complex)
            M = len(s)
            x = (rr.randn(3, 4) + 1j * rr.randn(3, 4)) * 0.8
            # points next to a decision boundary between two neighbouring symbols
            i0 = int(rr.randint(M))
            d = np.abs(s - s[i0])
            d[i0] = np.inf
            j0 = int(np.argmin(d))
            mid = (s[i0] + s[j0]) / 2
            x[0, 0] = mid + (s[i0] - s[j0]) * 1e-9
            x[0, 1] = mid - (s[i0] - s[j0]) * 1e-9
            for a in (x, np.asfortranarray(x), x.T, x.ravel()):
                got = o.demodulate(a)
                dist = np.abs(s.reshape(-1, 1) - a.reshape(1, -1))
                want = dist.argmin(axis=0).reshape(a.shape)
                srt = np.sort(dist, axis=0)
                tie = ((srt[1] - srt[0]) < 1e-12).reshape(a.shape)
                if isinstance(o, f.BPSK):
                    tie = tie | (np.abs(a.real) < 1e-12)
                if got.shape != a.shape or np.any((got != want) & ~tie):
                    return {"modulator": type(o).__name__, "M": M, "layout": [list(a.shape), bool(a.flags.f_contiguous)],
                            "got": got.ravel()[:6].tolist(), "nearest": want.ravel()[:6].tolist(), "round": rnd}
            if isinstance(o, f.PSK) and not isinstance(o, f.QPSK):
                o.setPhaseOffset(float(rr.uniform(-3, 3)))
        return None
    return bounded(gen(), check)
