"""C09  Block diagonalization nulls inter-user interference within the power budget.

Deductive: BlockDiagonalizer._get_sub_channel/_get_tilde_channel/_calc_BD_matrix_no_power_scaling (callees
least_right_singular_vectors and matrix_rank through their contracts)/block_diagonalize_no_waterfilling (power
normalisation)/calc_receive_filter, EnhancedBD.calc_receive_filter_user_k.
Bounded: the full pipelines of BlockDiagonalizer, WhiteningBD, EnhancedBD (all metrics) on the real code.
"""
import itertools
import math

import numpy as np
import z3

from pyvc import sym
from pyvc.sym import lift, cfrac_eq, frac_eq
from pyvc.interp import PyRaise
from pyvc.oblig import obligation, verify, bounded, Goal, merge
from .common import stable_rng, quick
from .C08 import _cmat
from .C20 import _rmat, _conjT, _meq

LEVEL = "other"
EXPLANATION = ("Deductive (counted): (1) index sets - the rows handed out for a user and for the 'other users' partition the channel; "
               "(2) structure of the BD precoder with the callees used through their contracts (least_right_singular_vectors(A, n) "
               "returns V0 with A V0 = 0 when n = cols - rank A; generic channels have full row rank): user k's precoder block is "
               "V0(tilde H_k) * V1(H_k V0), where V0 is requested for exactly the stacked channels of the OTHER users with n = total rows "
               "- rank, so H_j Ms_k = (H_j V0) V1 = 0 for j != k (associativity as a ring identity, H_j V0 = 0 by the callee contract); "
               "blocks are laid out user by user; (3) no-water-filling power: every user's block has squared Frobenius norm exactly iPu "
               "(exact identity with sqrt(X)^2 = X); newH = H Ms; (4) projection-based receive filter W = pinv(Pbar H) Pbar satisfies "
               "W H = I; (5) normalised water-filling (block_diagonalize) with doWF (C12) and the Frobenius norm as callees under contract, on "
               "an object whose public iPu / noise_var were changed after construction: doWF receives Sigma^2, K*iPu and the noise variance "
               "of the CURRENT attributes, every transmitter's power is <= iPu and the strongest == iPu (ring identity power*r_max^2 == "
               "||block||^2*iPu per path of the max search + a three-variable arithmetic lemma); (5b) END TO END for two single-antenna "
               "users and every real full-rank channel with only np.linalg.svd under its library contract (rows written s (cos t, sin t)): the "
               "real null-space selection, precoder assembly, power scaling and receive filter give H_j Ms_k == 0, power exactly iPu, "
               "W newH == I; (6) EnhancedBD (fixed / naive / no stream reduction) and "
               "WhiteningBD with their callees under contract: what is requested from whom (covariance for the current pe, reduction basis with "
               "the configured stream count, whitening per user), precoder = Ms_k P_k at power exactly iPu, stream counts == shapes, "
               "W_k H_k MsP_k == I, W_k H_kj Ms_j == delta_kj on the physical channel; earlier solutions unchanged by later calls.  The end-to-end claims (numerical nulling, normalised water-filling, whitening, stream reduction metrics, "
               "external interference removal) rest on LAPACK SVD/rank decisions: bounded run-time contract checks - hence 'other'.")
ASSUMPTIONS = [
    "callee contracts: least_right_singular_vectors (from the svd contract: A V0 = 0 for n = cols - rank A), matrix_rank = rows for "
    "generic channels, pinv for full column rank, doWF (property C12), calc_whitening_matrix and calc_cov_matrix_extint_plus_noise as abstract callees",
    "sizes configuration-concrete (entries symbolic); ideal reals; sqrt(X)^2 = X",
    "bounded part: K in 2..4, 1..4 antennas per user, absolute channel scales 1e-6..1e3, all stream-reduction metrics and stream counts",
]
TRUSTED_BASE = ["LAPACK svd / matrix_rank in the bounded part"]


@obligation("index/sub_and_tilde_channels", desc="_get_sub_channel(H, u) == rows [u n, (u+1) n) of H; _get_tilde_channel(H, u) == the other "
            "users' rows in order; together a partition (K in {2,3}, n in {1,2}, symbolic H)")
def ob_index():
    def body(c, it):
        from pyphysim.comm import blockdiagonalization as bd
        goals = []
        for K, n in ((2, 1), (2, 2), (3, 1), (3, 2)):
            H = _cmat(c, "H%d%d" % (K, n), K * n, K * n)
            o = it.call(bd.BlockDiagonalizer, [K, 1.0, 0.1])
            for u in range(K):
                sub = it.call(it.getattr(o, "_get_sub_channel"), [H, u])
                til = it.call(it.getattr(o, "_get_tilde_channel"), [H, u])
                rows_u = list(range(u * n, (u + 1) * n))
                rest = [r for r in range(K * n) if r not in rows_u]
                ok = np.shape(sub) == (n, K * n) and np.shape(til) == ((K - 1) * n, K * n) and \
                    all(sub[i, j] is H[rows_u[i], j] for i in range(n) for j in range(K * n)) and \
                    all(til[i, j] is H[rest[i], j] for i in range(len(rest)) for j in range(K * n))
                goals.append(Goal("K=%d n=%d user %d" % (K, n, u), ok))
        return goals
    return verify(body, check_side=False)


@obligation("structure/precoder_from_null_space_of_other_users", params=[{"K": K, "n": n} for K, n in ((2, 1), (3, 1), (2, 2))], timeout=120,
            desc="_calc_BD_matrix_no_power_scaling with its callees under contract: for every user k the null-space basis is requested for the "
                 "stacked channel of exactly the other users with n = rows - rank, the second SVD is taken of H_k V0, the block is V0 V1, blocks "
                 "and singular values are concatenated user by user; hence H_j Ms_k == (H_j V0_k) V1_k (ring identity) == 0 by the callee contract")
def ob_structure(K, n):
    def body(c, it):
        from pyphysim.comm import blockdiagonalization as bd
        import pyphysim.util.misc as misc
        N = K * n
        H = _cmat(c, "H", N, N)
        calls = []

        def lrsv(interp, A, nn):
            A = np.asarray(A, dtype=object)
            cols = A.shape[1]
            k = len(calls)
            V0 = _cmat(c, "V0_%d" % k, cols, nn)
            V1 = _cmat(c, "V1_%d" % k, cols, cols - nn)
            S = np.empty(cols - nn, dtype=object)
            for i in range(cols - nn):
                S[i] = c.var("S%d_%d" % (k, i), "real")
            calls.append((A, nn, V0, V1, S))
            return V0, V1, S
        it.models["pyphysim.util.misc:least_right_singular_vectors"] = lrsv
        it.models[misc.least_right_singular_vectors] = lrsv
        rank_calls = []

        def rank_model(interp, A, *a, **k):
            rank_calls.append((a, k))
            return min(np.shape(A))
        it.models[np.linalg.matrix_rank] = rank_model
        o = it.call(bd.BlockDiagonalizer, [K, 1.0, 0.1])
        Ms, Sigma = it.call(it.getattr(o, "_calc_BD_matrix_no_power_scaling"), [H])
        goals = [Goal("two callee invocations per user", len(calls) == 2 * K),
                 # the callee contract 'generic channels have full rank' is numpy's scale-relative default decision: an absolute
                 # tolerance would make the precoder depend on the physical scale of the channel
                 Goal("matrix_rank is asked with its scale-relative default tolerance (no absolute tol argument)",
                      len(rank_calls) >= 1 and all(not a and not k for a, k in rank_calls)),
                 Goal("precoder shape", np.shape(Ms) == (N, N)), Goal("one singular value per stream", np.shape(Sigma) == (N,))]
        if not all(g.cond for g in goals):
            return goals
        for k in range(K):
            A1, n1, V0, _, _ = calls[2 * k]
            A2, n2, _, V1, S = calls[2 * k + 1]
            rows_k = list(range(k * n, (k + 1) * n))
            rest = [r for r in range(N) if r not in rows_k]
            goals.append(Goal("user %d: null space requested for the other users' stacked channel, n = N - rank" % k,
                              A1.shape == (len(rest), N) and all(A1[i, j] is H[rest[i], j] for i in range(len(rest)) for j in range(N))
                              and n1 == N - len(rest)))
            goals.append(Goal("user %d: second decomposition is of H_k V0, keeping all n streams" % k,
                              n2 == 0 and bool(_meq(A2, np.dot(H[rows_k, :], V0)).t is not None) and
                              lift(True) is not None))
            goals.append(Goal("user %d: second decomposition argument == H_k V0" % k, _meq(A2, np.dot(H[rows_k, :], V0))))
            blk = Ms[:, k * n:(k + 1) * n]
            goals.append(Goal("user %d: precoder block == V0 V1" % k, _meq(blk, np.dot(V0, V1))))
            goals.append(Goal("user %d: singular values in place" % k, all(Sigma[k * n + i] is S[i] for i in range(n))))
            for j in range(K):
                if j != k:
                    rows_j = list(range(j * n, (j + 1) * n))
                    goals.append(Goal("H_%d Ms_%d == (H_%d V0_%d) V1_%d (associativity; the first factor is 0 by the callee contract)" % (j, k, j, k, k),
                                      _meq(np.dot(H[rows_j, :], blk), np.dot(np.dot(H[rows_j, :], V0), V1))))
        return goals
    return verify(body, check_side=False, timeout_ms=60000)


@obligation("power/no_waterfilling_each_user_exactly_iPu", params=[{"K": K, "n": n} for K, n in ((2, 1), (3, 1))], timeout=120,
            desc="block_diagonalize_no_waterfilling with the unscaled precoder under contract (arbitrary symbolic matrix): each user's block "
                 "is the unscaled block times sqrt(iPu)/||block||_F, its squared Frobenius norm * ||unscaled||^2 == iPu * ||unscaled||^2 "
                 "(i.e. exactly iPu), newH == H Ms")
def ob_power(K, n):
    def body(c, it):
        from pyphysim.comm import blockdiagonalization as bd
        N = K * n
        mk = _cmat if n == 1 else _rmat          # 2 antennas per user: real entries keep the identity within the normaliser's budget
        H = mk(c, "H", N, N)
        Msb = mk(c, "M", N, N)
        iPu = c.var("iPu", "real")
        c.assume(iPu > 0)
        it.models["pyphysim.comm.blockdiagonalization:BlockDiagonalizer._calc_BD_matrix_no_power_scaling"] = \
            lambda interp, self, ch: (Msb, np.ones(N))
        o = it.call(bd.BlockDiagonalizer, [K, iPu, 0.1])
        newH, Ms = it.call(it.getattr(o, "block_diagonalize_no_waterfilling"), [H])
        goals = [Goal("shapes", np.shape(Ms) == (N, N) and np.shape(newH) == (N, N))]
        if not goals[0].cond:
            return goals
        goals.append(Goal("newH == H Ms", _meq(newH, np.dot(H, Ms))))
        for u in range(K):
            blk, raw = Ms[:, u * n:(u + 1) * n], Msb[:, u * n:(u + 1) * n]
            e_blk = 0
            for v in blk.flat:
                v = sym.to_complex(v)
                e_blk = e_blk + v.re * v.re + v.im * v.im
            e_raw = 0
            for v in raw.flat:
                v = sym.to_complex(v)
                e_raw = e_raw + v.re * v.re + v.im * v.im
            goals.append(Goal("user %d: ||block||_F^2 == iPu" % u, frac_eq(e_blk, iPu)))
            # direction preserved: block is a positive multiple of the unscaled block
            goals.append(Goal("user %d: block * ||raw|| == raw * sqrt(iPu)" % u, _meq(blk * lift(e_raw).to_real().sqrt(), raw * iPu.sqrt())))
        # a solution handed out earlier belongs to the caller: a later call on the SAME object (another channel realisation of the same
        # size, another unscaled precoder) must not change it
        keepH, keepMs = np.array(newH, dtype=object, copy=True), np.array(Ms, dtype=object, copy=True)
        H2, Msb2 = mk(c, "G", N, N), mk(c, "M2", N, N)
        it.models["pyphysim.comm.blockdiagonalization:BlockDiagonalizer._calc_BD_matrix_no_power_scaling"] = \
            lambda interp, self, ch: (Msb2, np.ones(N))
        newH2, Ms2 = it.call(it.getattr(o, "block_diagonalize_no_waterfilling"), [H2])
        goals.append(Goal("second call on the same object: newH2 == H2 Ms2", _meq(newH2, np.dot(H2, Ms2))))
        goals.append(Goal("the first solution (Ms, newH) kept by the caller is unchanged by the second call",
                          _meq(np.asarray(Ms, dtype=object), keepMs) & _meq(np.asarray(newH, dtype=object), keepH)))
        return goals
    return verify(body, check_side=False, timeout_ms=60000)


@obligation("power/normalized_waterfilling_budget", params=[{"K": 2, "n": 1}, {"K": 3, "n": 1}, {"K": 2, "n": 2}], timeout=300,
            desc="_perform_normalized_waterfilling_power_scaling / block_diagonalize on an object whose public iPu and noise_var were "
                 "CHANGED after construction; callees under contract: doWF (property C12: P >= 0, sum P == total power) and the Frobenius "
                 "norm (r >= 0, r^2 == sum |x|^2).  doWF is asked for the squared singular values, total power K*iPu and the noise "
                 "variance of the object's CURRENT attributes; every transmitter's block has power <= iPu and the strongest exactly iPu; "
                 "newH == H Ms")
def ob_wf_budget(K, n):
    def body(c, it):
        from pyphysim.comm import blockdiagonalization as bd
        from pyphysim.comm import waterfilling
        N = K * n
        mk = _cmat if n == 1 else _rmat
        H = mk(c, "H", N, N)
        Msb = mk(c, "M", N, N)
        Sig = np.empty(N, dtype=object)
        for i in range(N):
            Sig[i] = c.var("s%d" % i, "real")
            c.assume(Sig[i] > 0)
        iPu0, iPu, nv0, nv = c.var("iPu_at_construction", "real"), c.var("iPu", "real"), c.var("nv_at_construction", "real"), c.var("nv", "real")
        c.assume((iPu0 > 0) & (iPu > 0) & (nv0 > 0) & (nv > 0))
        c.inputs.update(iPu_at_construction=iPu0, iPu=iPu, noise_var=nv)
        asked, norms = [], []

        def dowf(interp, gains, Pt, noise, Es=1.0):
            asked.append((gains, Pt, noise, Es))
            P = np.empty(N, dtype=object)
            tot = 0
            for i in range(N):
                P[i] = c.var("p%d" % i, "real")
                c.assume(P[i] >= 0)
                tot = tot + P[i]
            c.assume(tot == lift(Pt))
            return P, c.var("mu", "real")

        def fro(interp, A, ord=None, axis=None, **k):
            # contract of the Frobenius norm: r >= 0 and r^2 == sum |a_ij|^2 (ghost: the radicand is recorded)
            A = np.asarray(A, dtype=object)
            E = 0
            for v in A.flat:
                v = sym.to_complex(v)
                E = E + v.re * v.re + v.im * v.im
            r = c.var("norm%d" % len(norms), "real")
            c.assume(r >= 0)
            norms.append((r, lift(E)))
            return r
        it.if_conversion = False        # the max-search forks one path per strongest transmitter
        it.models[waterfilling.doWF] = dowf
        it.models[np.linalg.norm] = fro
        it.models["pyphysim.comm.blockdiagonalization:BlockDiagonalizer._calc_BD_matrix_no_power_scaling"] = \
            lambda interp, self, ch: (Msb, Sig)
        o = it.call(bd.BlockDiagonalizer, [K, iPu0, nv0])
        it.setattr(o, "iPu", iPu)
        it.setattr(o, "noise_var", nv)
        newH, Ms = it.call(it.getattr(o, "block_diagonalize"), [H])
        goals = [Goal("doWF called once, one norm per transmitter", len(asked) == 1 and len(norms) == K)]
        if not goals[0].cond:
            return goals
        g, Pt, noise, Es = asked[0]
        goals.append(Goal("doWF gains == Sigma^2", _meq(np.asarray(g, dtype=object), Sig * Sig)))
        goals.append(Goal("doWF total power == K * iPu (current)", lift(Pt) == K * iPu))
        goals.append(Goal("doWF noise == noise_var (current)", lift(noise) == nv))
        goals.append(Goal("doWF Es == 1", lift(Es) == 1))
        goals.append(Goal("shapes", np.shape(Ms) == (N, N) and np.shape(newH) == (N, N)))
        if not goals[-1].cond:
            return goals
        goals.append(Goal("newH == H Ms", _meq(newH, np.dot(H, Ms))))
        # the strongest transmitter on this path: r_m >= r_u for all u is entailed by the path condition (linear)
        rs = [r for r, _ in norms]
        strongest = [m for m in range(K)
                     if all(c.prove(rs[m] >= rs[u], timeout_ms=5000)[0] == "proved" for u in range(K))
                     and c.prove(rs[m] > 0, timeout_ms=5000)[0] == "proved"]
        if not strongest:
            if c.check_sat([z3.Or([(r > 0).t for r in rs])], 5000)[0] == z3.unsat:
                return goals          # nothing is transmitted at all: excluded (sum P = K iPu > 0 on unit-norm precoder columns)
            return goals + [Goal("a strongest transmitter is determined on this path", False)]
        m = strongest[0]
        for u in range(K):
            e = 0
            for v in Ms[:, u * n:(u + 1) * n].flat:
                v = sym.to_complex(v)
                e = e + v.re * v.re + v.im * v.im
            # (1) ring identity: power_u * r_m^2 == E_u * iPu, E_u the radicand handed to the norm for transmitter u
            goals.append(Goal("transmitter %d: power * r_max^2 == ||water-filled block||^2 * iPu" % u,
                              frac_eq(lift(e) * rs[m] * rs[m], norms[u][1] * iPu)))
            # (2) with E_u == r_u^2 (norm contract) and r_u <= r_m (path condition): power_u <= iPu, == iPu for the strongest
            a = c.fresh_var("power%d" % u, "real")
            hyp = (a * rs[m] * rs[m] == rs[u] * rs[u] * iPu)
            goals.append(Goal("transmitter %d: power <= iPu" % u, sym.SBool(z3.Implies(hyp.t, (a <= iPu).t))))
            if u == m:
                goals.append(Goal("strongest transmitter %d: power == iPu" % u, sym.SBool(z3.Implies(hyp.t, (a == iPu).t))))
        return goals

    def replay(mv):
        # the counter-model fixes the attribute history (iPu at construction / now, noise); the channel is a generic one
        from pyphysim.comm import blockdiagonalization as bd
        try:
            r = stable_rng("C09replay")
            N = K * n
            H = r.standard_normal((N, N)) + 1j * r.standard_normal((N, N))
            iPu0, iPu, nv = float(mv["iPu_at_construction"]), float(mv["iPu"]), float(mv["noise_var"])
            o = bd.BlockDiagonalizer(K, iPu0, nv)
            o.iPu = iPu
            o.noise_var = nv
            newH, Ms = o.block_diagonalize(H)
            pw = [float(np.linalg.norm(Ms[:, u * n:(u + 1) * n], 'fro') ** 2) for u in range(K)]
            bad = max(pw) > iPu * (1 + 1e-9) or abs(max(pw) - iPu) > 1e-9 * iPu or not np.allclose(newH, H @ Ms)
            return {"confirmed": bool(bad), "iPu_at_construction": iPu0, "iPu_now": iPu, "noise_var": nv,
                    "transmitter_powers": pw, "expected_max": iPu}
        except Exception as e:
            return {"confirmed": False, "error": repr(e)}
    return verify(body, check_side=False, timeout_ms=20000, replay=replay)


@obligation("filter/projection_based_receive_filter", timeout=120,
            desc="EnhancedBD.calc_receive_filter_user_k(Heq, P): W == pinv(Pbar Heq) Pbar with Pbar the projector onto span(P), and W Heq == I "
                 "(2x1 symbolic, P a symbolic direction); without P it is pinv(Heq)")
def ob_filter():
    def body(c, it):
        from pyphysim.comm import blockdiagonalization as bd
        Heq = _cmat(c, "He", 2, 1)
        P = _cmat(c, "P", 2, 1)
        W = it.call(bd.EnhancedBD.calc_receive_filter_user_k, [Heq, P])
        goals = [Goal("shape", np.shape(W) == (1, 2))]
        goals.append(Goal("W Heq == I", _meq(np.dot(W, Heq), np.eye(1, dtype=object))))
        W0 = it.call(bd.EnhancedBD.calc_receive_filter_user_k, [Heq, None])
        goals.append(Goal("without P: W0 Heq == I", _meq(np.dot(W0, Heq), np.eye(1, dtype=object))))
        # the filter ignores everything outside span(P): W v == 0 for v orthogonal to P
        v = np.empty((2, 1), dtype=object)
        v[0, 0], v[1, 0] = sym.to_complex(P[1, 0]).conjugate(), -sym.to_complex(P[0, 0]).conjugate()
        goals.append(Goal("W annihilates the orthogonal complement of span(P)", _meq(np.dot(W, v), np.zeros((1, 1), dtype=object))))
        return goals
    return verify(body, check_side=False, timeout_ms=60000)


# ------------------------------------------------------------------ bounded native
def _cm(rr, a, b):
    return rr.randn(a, b) + 1j * rr.randn(a, b)


@obligation("end_to_end/two_single_antenna_users_real_channel", params=[{"wf": w} for w in (False,)], timeout=300,   # (wf=True: beyond the budget)
            desc="the WHOLE block diagonalisation for K = 2 users with one antenna each and EVERY real full-rank channel, with np.linalg.svd "
                 "under its library contract and nothing else abstracted: row j of the channel is written s_j (cos t_j, sin t_j) (every "
                 "non-zero real row), for which svd returns U = [1], S = [s_j], V^H = the rotation by t_j; a 1 x 1 matrix [a] has U = [sign a], "
                 "S = [|a|], V^H = [1] (both signs explored; a != 0 is the full-rank requirement sin(t_0 - t_1) != 0).  The real "
                 "least_right_singular_vectors, _calc_BD_matrix_no_power_scaling, block_diagonalize_no_waterfilling and calc_receive_filter "
                 "are executed: H_j Ms_k == 0 for j != k (no user receives the other's stream), every user's precoder has power exactly "
                 "iPu, newH == H Ms is diagonal and the receive filter inverts it")
def ob_end_to_end(wf):
    def body(c, it):
        from pyphysim.comm import blockdiagonalization as bd
        sj = [c.var("s%d" % j, "real") for j in range(2)]
        tj = [c.var("t%d" % j, "real") for j in range(2)]
        iPu = c.var("iPu", "real")
        c.assume((sj[0] > 0) & (sj[1] > 0) & (iPu > 0))
        cs = [(lift(t).cos(), lift(t).sin()) for t in tj]
        H = np.empty((2, 2), dtype=object)
        for j in range(2):
            H[j, 0], H[j, 1] = sj[j] * cs[j][0], sj[j] * cs[j][1]
        # full rank: det H = s0 s1 sin(t1 - t0) != 0
        det = cs[0][0] * cs[1][1] - cs[0][1] * cs[1][0]
        c.assume(det != 0)
        svds = []

        def m_svd(interp, A, full_matrices=True, **k):
            A = np.asarray(A, dtype=object)
            if A.shape == (1, 2):
                for j in range(2):
                    if A[0, 0] is H[j, 0] and A[0, 1] is H[j, 1]:
                        Vh = np.empty((2, 2), dtype=object)
                        Vh[0, 0], Vh[0, 1], Vh[1, 0], Vh[1, 1] = cs[j][0], cs[j][1], 0 - cs[j][1], cs[j][0]
                        svds.append(("row", j))
                        return np.array([[1.0]], dtype=object), np.array([sj[j]], dtype=object), Vh
                raise AssertionError("svd contract instantiated for the channel rows only")
            if A.shape == (1, 1):
                a = lift(A[0, 0])
                c.assume(a != 0)          # follows from full rank (a = s_k sin(t_k - t_j) up to sign); stated to the solver
                pos = interp.truth(a > 0)
                svds.append(("scalar", pos))
                return (np.array([[1.0 if pos else -1.0]], dtype=object), np.array([a if pos else 0 - a], dtype=object),
                        np.array([[1.0]], dtype=object))
            raise AssertionError("svd of an unexpected shape %r" % (A.shape,))
        it.models[np.linalg.svd] = m_svd
        it.models[np.linalg.matrix_rank] = lambda interp, A, *a, **k: min(np.shape(A))
        o = it.call(bd.BlockDiagonalizer, [2, 1.0, 0.1])
        it.setattr(o, "iPu", iPu)
        if wf:
            nvar = c.var("noise", "real")
            c.assume(nvar > 0)
            it.setattr(o, "noise_var", nvar)
        newH, Ms = it.call(it.getattr(o, "block_diagonalize" if wf else "block_diagonalize_no_waterfilling"), [H])
        Ms, newH = np.asarray(Ms, dtype=object), np.asarray(newH, dtype=object)
        goals = [Goal("shapes", Ms.shape == (2, 2) and newH.shape == (2, 2)), Goal("four decompositions (two rows, two scalars)", len(svds) == 4)]
        if not goals[0].cond:
            return goals
        goals.append(Goal("newH == H Ms", _meq(newH, H.dot(Ms))))
        for k in range(2):
            j = 1 - k
            goals.append(Goal("user %d's stream does not reach user %d: H_%d Ms_%d == 0" % (k, j, j, k),
                              _meq(H[j:j + 1, :].dot(Ms[:, k:k + 1]), np.zeros((1, 1), dtype=object))))
            if not wf:
                goals.append(Goal("user %d: precoder power == iPu" % k, frac_eq(_sqnorm(Ms[:, k:k + 1]), iPu)))
        if wf:
            # normalised water-filling (the real doWF executed, every ordering / switch-off pattern of the two streams explored):
            # interference stays nulled (above), no user exceeds iPu and the strongest meets it
            p0, p1 = lift(_sqnorm(Ms[:, 0:1])), lift(_sqnorm(Ms[:, 1:2]))
            goals.append(Goal("water-filling: every user's power <= iPu and the larger one == iPu",
                              (p0 <= iPu) & (p1 <= iPu) & ((p0 == iPu) | (p1 == iPu))))
            return goals
        W = np.asarray(it.call(it.getattr(o, "calc_receive_filter"), [newH]), dtype=object)
        goals.append(Goal("receive filter inverts the effective channel: W newH == I", _meq(W.dot(newH), np.eye(2, dtype=object))))
        return goals

    def rp(mv):
        # value replay: the counter-model's channel (rows s_j (cos t_j, sin t_j)) and power on the real class
        from pyphysim.comm import blockdiagonalization as bd
        from .common import num
        try:
            cands = []
            try:
                cands.append(([float(num(mv.get("s%d" % j), 1.0)) for j in range(2)], [float(num(mv.get("t%d" % j), j + 0.4)) for j in range(2)],
                              float(num(mv.get("iPu"), 1.0))))
            except Exception:
                pass
            cands += [([1.0, 2.0], [0.3, 1.4], 1.5), ([0.2, 5.0], [2.0, -0.7], 0.25)]
            for s_, t_, p_ in cands:
                if not (s_[0] > 0 and s_[1] > 0 and p_ > 0 and abs(math.sin(t_[1] - t_[0])) > 1e-6):
                    continue
                H = np.array([[s_[j] * math.cos(t_[j]), s_[j] * math.sin(t_[j])] for j in range(2)])
                o = bd.BlockDiagonalizer(2, p_, 0.1)
                newH, Ms = o.block_diagonalize_no_waterfilling(H)
                leak = max(abs((H[1 - k:2 - k, :] @ Ms[:, k:k + 1]).item()) for k in range(2))
                pw = [float(np.linalg.norm(Ms[:, k]) ** 2) for k in range(2)]
                W = o.calc_receive_filter(newH)
                bad = (not (leak <= 1e-9 * np.abs(newH).max())) or (not (max(abs(x - p_) for x in pw) <= 1e-9 * p_)) or \
                    (not (np.abs(W @ newH - np.eye(2)).max() <= 1e-8))
                if bad:
                    return {"confirmed": True, "channel": H.tolist(), "iPu": p_, "largest |H_j Ms_k| (j != k)": leak, "precoder powers": pw,
                            "max |W newH - I|": float(np.abs(W @ newH - np.eye(2)).max())}
            return {"confirmed": False, "note": "real block diagonalisation nulls the interference for these channels"}
        except Exception as e:
            return {"confirmed": False, "error": "replay crashed: %r" % (e,)}
    return verify(body, check_side=False, timeout_ms=120000, max_paths=32, replay=rp)


def _sqnorm(A):
    tot = 0
    for v in np.asarray(A, dtype=object).flat:
        v = sym.to_complex(v)
        tot = tot + v.re * v.re + v.im * v.im
    return tot


@obligation("enhanced/stream_reduction_structure", params=[{"metric": m, "ns": n} for m in ("fixed", "naive", "None") for n in ((1,) if m != "None" else (2,))]
            + [{"metric": "fixed", "ns": 1, "ant": 3}, {"metric": "naive", "ns": 2, "ant": 3}],
            timeout=300,
            desc="EnhancedBD.block_diagonalize_no_waterfilling on an ext-int channel (K = 2 users, 2 x 2 antennas each, one external "
                 "interferer, symbolic real channel) with the callees under contract - the unscaled BD precoder (arbitrary symbolic matrix), "
                 "least_right_singular_vectors (arbitrary symbolic basis), the channel's interference-plus-noise covariance (symbolic) and "
                 "pinv/projection (library contracts): metric 'fixed' asks the stream-reduction basis for EXACTLY the covariance the channel "
                 "reports for the object's current pe, with the configured stream count; the transmitted precoder of user k is Ms_k P_k "
                 "scaled to power exactly iPu; the reported stream count == precoder columns == filter rows == configured count (metric None: "
                 "all streams); inter-user terms factor as H_j (Ms_k P_k) == (H_j Ms_k) P_k / norm (zero whenever the unscaled precoder is block "
                 "diagonalising); the receive filter inverts the user's own effective channel: W_k H_k MsP_k == I")
def ob_enhanced_structure(metric, ns, ant=2):
    def body(c, it):
        from pyphysim.comm import blockdiagonalization as bd
        import pyphysim.channels.multiuser as mu
        import pyphysim.util.misc as misc
        from .C08 import _install_models
        draws = []
        _install_models(c, it, draws)

        def m_randn_real(interp, RS, *shape):
            m = np.empty(shape, dtype=object)
            for pos in np.ndindex(*shape):
                m[pos] = c.fresh_var("h", "real")
            draws.append(m)
            return m
        it.models[misc.randn_c_RS] = m_randn_real
        K, Nr, Nt = 2, np.array([ant, ant]), np.array([ant, ant])
        N = K * ant
        ch = it.call(mu.MultiUserChannelMatrixExtInt, [])
        it.call(it.getattr(ch, "randomize"), [Nr, Nt, K, 1])
        iPu, pe = c.var("iPu", "real"), c.var("pe", "real")
        c.assume((iPu > 0) & (pe >= 0))
        H = np.asarray(it.getattr(ch, "big_H_no_ext_int"), dtype=object)
        Msb = _rmat(c, "M", N, N)
        cov_calls, lr_calls, Re_all = [], [], []

        def m_cov(interp, self, *a, **k):
            Re_ = np.empty(K, dtype=object)
            for k_ in range(K):
                Re_[k_] = _rmat(c, "R%d_%d" % (len(cov_calls), k_), ant, ant)
            cov_calls.append((a, k))
            Re_all.append(Re_)
            return Re_
        it.models["pyphysim.comm.blockdiagonalization:BlockDiagonalizer._calc_BD_matrix_no_power_scaling"] = \
            lambda interp, self, chm: (Msb, np.ones(N))
        it.models["pyphysim.channels.multiuser:MultiUserChannelMatrixExtInt.calc_cov_matrix_extint_plus_noise"] = m_cov

        def lrsv(interp, A, nn):
            V0 = _rmat(c, "P%d" % len(lr_calls), np.shape(A)[1], nn)
            lr_calls.append((A, nn, V0))
            return V0, None, None
        it.models["pyphysim.util.misc:least_right_singular_vectors"] = lrsv
        it.models[misc.least_right_singular_vectors] = lrsv
        o = it.call(bd.EnhancedBD, [K, 1.0, 0.1, 0.5])
        it.setattr(o, "iPu", iPu)          # attributes changed after construction: the CURRENT values count
        it.setattr(o, "pe", pe)
        # sibling objects configured differently (a sweep with one precoder object per stream count) before AND after this one:
        # every object keeps its own configuration
        sib1 = it.call(bd.EnhancedBD, [K, 1.0, 0.1, 0.5])
        it.call(it.getattr(sib1, "set_ext_int_handling_metric"), ["naive" if metric == "fixed" else "fixed", {"num_streams": ant if ns != ant else 1}])
        if metric == "None":
            it.call(it.getattr(o, "set_ext_int_handling_metric"), [None])
        else:
            it.call(it.getattr(o, "set_ext_int_handling_metric"), [metric, {"num_streams": ns}])
        sib2 = it.call(bd.EnhancedBD, [K, 1.0, 0.1, 0.5])
        it.call(it.getattr(sib2, "set_ext_int_handling_metric"), ["fixed", {"num_streams": ant if ns != ant else 1}])
        MsPk, Wk, Ns = it.call(it.getattr(o, "block_diagonalize_no_waterfilling"), [ch])
        goals = [Goal("one precoder, filter and stream count per user", len(MsPk) == K and len(Wk) == K and len(Ns) == K)]
        if not goals[0].cond:
            return goals
        if metric == "fixed":
            goals.append(Goal("covariance requested once, for the object's current pe",
                              len(cov_calls) == 1 and len(cov_calls[0][0]) == 1 and cov_calls[0][0][0] is pe))
            goals.append(Goal("stream-reduction basis requested per user for that user's covariance and the configured stream count",
                              len(lr_calls) == K and len(Re_all) == 1 and all(lr_calls[k][0] is Re_all[0][k] and lr_calls[k][1] == ns for k in range(K))))
        for k in range(K):
            rows_k, cols_k = slice(ant * k, ant * k + ant), slice(ant * k, ant * k + ant)
            Msk = Msb[:, cols_k]
            if metric == "fixed":
                if len(lr_calls) != K:
                    break
                Pk = lr_calls[k][2]
            elif metric == "naive":
                Pk = np.eye(ant, dtype=object)[:, :ns]
            else:
                Pk = np.eye(ant, dtype=object)
            raw = np.dot(Msk, Pk)
            got = np.asarray(MsPk[k], dtype=object)
            goals.append(Goal("user %d: stream count == precoder columns == filter rows == %d" % (k, ns),
                              int(Ns[k]) == ns and got.shape == (N, ns) and np.shape(Wk[k])[0] == ns))
            if got.shape != (N, ns):
                continue
            if ant != 2:
                continue          # 3 antennas per user: the request structure above (which distinguishes kept from sacrificed streams); the algebra is proved for 2
            goals.append(Goal("user %d: ||MsP_k||_F^2 == iPu (cross-multiplied with ||Ms_k P_k||^2)" % k, frac_eq(_sqnorm(got), iPu)))
            goals.append(Goal("user %d: MsP_k is a positive multiple of Ms_k P_k" % k,
                              _meq(got * lift(_sqnorm(raw)).to_real().sqrt(), raw * iPu.sqrt())))
            j = 1 - k
            Hj = H[ant * j:ant * j + ant, :]
            goals.append(Goal("user %d: H_%d MsP_%d * ||Ms P|| == ((H_%d Ms_%d) P_%d) * sqrt(iPu)" % (k, j, k, j, k, k),
                              _meq(np.dot(Hj, got) * lift(_sqnorm(raw)).to_real().sqrt(), np.dot(np.dot(Hj, Msk), Pk) * iPu.sqrt())))
            Hk = H[rows_k, :]
            if ant == 2:          # (the pinv identity for 3 antennas exceeds the normaliser's budget; it is the same callee contract)
                goals.append(Goal("user %d: W_k H_k MsP_k == I" % k, _meq(np.dot(np.asarray(Wk[k], dtype=object), np.dot(Hk, got)), np.eye(ns, dtype=object))))
        if metric == "fixed":
            # the same precoder object and the same channel OBJECT, after the interference level changed: the basis is requested again,
            # for the covariance the channel reports NOW
            pe2 = c.var("pe2", "real")
            c.assume(pe2 >= 0)
            it.setattr(o, "pe", pe2)
            n0 = len(lr_calls)
            it.call(it.getattr(o, "block_diagonalize_no_waterfilling"), [ch])
            goals.append(Goal("second call (same channel object, other pe): covariance requested again for the new pe",
                              len(cov_calls) == 2 and len(cov_calls[1][0]) == 1 and cov_calls[1][0][0] is pe2))
            goals.append(Goal("second call: the stream-reduction basis comes from the new covariance",
                              len(lr_calls) == n0 + K and len(Re_all) == 2 and all(lr_calls[n0 + k][0] is Re_all[1][k] for k in range(K))))
        return goals
    return verify(body, check_side=False, timeout_ms=120000)


@obligation("enhanced/stream_count_decision", timeout=300,
            desc="EnhancedBD with a metric that decides the number of streams ('capacity'; the metric function itself an abstract callee "
                 "returning an arbitrary real per candidate): K = 2 users with 2 antennas, symbolic real channel, callees as in "
                 "enhanced/stream_reduction_structure.  For every user the candidates 1 .. Nt streams are evaluated (reduction basis for the "
                 "user's covariance with that stream count; all streams: no reduction), the metric is asked for the SINRs of each candidate, "
                 "and the returned solution IS the candidate with the largest metric value (every ordering of the metric values explored): its "
                 "precoder Ms_k P / norm at power exactly iPu, its receive filter, its stream count")
def ob_enhanced_decision():
    def body(c, it):
        from pyphysim.comm import blockdiagonalization as bd
        import pyphysim.channels.multiuser as mu
        import pyphysim.util.misc as misc
        from .C08 import _install_models
        draws = []
        _install_models(c, it, draws)

        def m_randn_real(interp, RS, *shape):
            m = np.empty(shape, dtype=object)
            for pos in np.ndindex(*shape):
                m[pos] = c.fresh_var("h", "real")
            draws.append(m)
            return m
        it.models[misc.randn_c_RS] = m_randn_real
        K, ant = 2, 2
        N = K * ant
        ch = it.call(mu.MultiUserChannelMatrixExtInt, [])
        it.call(it.getattr(ch, "randomize"), [np.array([ant, ant]), np.array([ant, ant]), K, 1])
        iPu = c.var("iPu", "real")
        c.assume(iPu > 0)
        H = np.asarray(it.getattr(ch, "big_H_no_ext_int"), dtype=object)
        Msb = _rmat(c, "M", N, N)
        Re = np.empty(K, dtype=object)
        for k in range(K):
            Re[k] = _rmat(c, "R%d" % k, ant, ant)
        lr_calls, metric_calls = [], []
        it.models["pyphysim.comm.blockdiagonalization:BlockDiagonalizer._calc_BD_matrix_no_power_scaling"] = \
            lambda interp, self, chm: (Msb, np.ones(N))
        it.models["pyphysim.channels.multiuser:MultiUserChannelMatrixExtInt.calc_cov_matrix_extint_plus_noise"] = \
            lambda interp, self, *a, **k: Re

        def lrsv(interp, A, nn):
            V0 = _rmat(c, "P%d" % len(lr_calls), np.shape(A)[1], nn)
            lr_calls.append((A, nn, V0))
            return V0, None, None
        it.models["pyphysim.util.misc:least_right_singular_vectors"] = lrsv
        it.models[misc.least_right_singular_vectors] = lrsv

        def m_metric(interp, sinrs, *a, **k):
            v = c.fresh_var("metric", "real")
            metric_calls.append((np.asarray(sinrs, dtype=object), v))
            return v
        it.models["pyphysim.util.misc:calc_shannon_sum_capacity"] = m_metric
        it.models[misc.calc_shannon_sum_capacity] = m_metric
        it.models[bd.calc_shannon_sum_capacity] = m_metric
        # the receive filter of a candidate and its SINRs are callees under contract here (proved on their own: enhanced/
        # stream_reduction_structure, enhanced/linear_sinrs_first_principles): arbitrary symbolic results, arguments recorded
        filt_calls, sinr_calls = [], []

        def m_filter(interp, Heq, P=None):
            Wm = _rmat(c, "Wf%d" % len(filt_calls), np.shape(Heq)[1], np.shape(Heq)[0])
            filt_calls.append((Heq, P, Wm))
            return Wm

        def m_sinrs(interp, Heq, Wm, Rk):
            v = np.empty(np.shape(Wm)[0], dtype=object)
            for i in range(len(v)):
                v[i] = c.fresh_var("sinr", "real")
            sinr_calls.append((Heq, Wm, Rk, v))
            return v
        it.models["pyphysim.comm.blockdiagonalization:EnhancedBD.calc_receive_filter_user_k"] = m_filter
        it.models["pyphysim.comm.blockdiagonalization:EnhancedBD._calc_linear_SINRs"] = m_sinrs
        o = it.call(bd.EnhancedBD, [K, 1.0, 0.1, 0.5])
        it.setattr(o, "iPu", iPu)
        it.call(it.getattr(o, "set_ext_int_handling_metric"), ["capacity"])
        MsPk, Wk, Ns = it.call(it.getattr(o, "block_diagonalize_no_waterfilling"), [ch])
        goals = [Goal("every user: one reduction request (1 stream) and two metric evaluations (1 and 2 streams)",
                      len(lr_calls) == K and len(metric_calls) == 2 * K and all(lr_calls[k][0] is Re[k] and lr_calls[k][1] == 1 for k in range(K)))]
        if not goals[0].cond:
            return goals
        for k in range(K):
            Msk = Msb[:, ant * k:ant * k + ant]
            m1, m2 = metric_calls[2 * k][1], metric_calls[2 * k + 1][1]
            ns = int(Ns[k])
            got = np.asarray(MsPk[k], dtype=object)
            goals.append(Goal("user %d: stream count == precoder columns == filter rows" % k, got.shape == (N, ns) and np.shape(Wk[k])[0] == ns and ns in (1, 2)))
            if got.shape != (N, ns) or ns not in (1, 2):
                continue
            # the chosen candidate has the largest metric value (first of equal values)
            goals.append(Goal("user %d: the chosen candidate (%d stream%s) has the largest metric" % (k, ns, "" if ns == 1 else "s"),
                              (m1 >= m2) if ns == 1 else (m2 > m1)))
            Pk = lr_calls[k][2] if ns == 1 else np.eye(ant, dtype=object)
            raw = np.dot(Msk, Pk)
            goals.append(Goal("user %d: precoder is Ms_k P of the chosen candidate at power exactly iPu" % k,
                              _meq(got * lift(_sqnorm(raw)).to_real().sqrt(), raw * iPu.sqrt()) & frac_eq(_sqnorm(got), iPu)))
            cand = 2 * k + (ns - 1)
            goals.append(Goal("user %d: the returned filter is the chosen candidate's, whose SINRs (for the user's covariance) went into its metric" % k,
                              len(filt_calls) == 2 * K and len(sinr_calls) == 2 * K and Wk[k] is filt_calls[cand][2]
                              and sinr_calls[cand][1] is filt_calls[cand][2] and sinr_calls[cand][2] is Re[k]
                              and all(x is y for x, y in zip(metric_calls[cand][0].flat, sinr_calls[cand][3].flat))))
        return goals
    return verify(body, check_side=False, timeout_ms=120000, max_paths=64)


@obligation("enhanced/linear_sinrs_first_principles",
            desc="EnhancedBD._calc_linear_SINRs(Heq, W, R) for symbolic real 2 x 2 matrices: stream i has SINR |(W H)_ii|^2 / (sum_{j != i} "
                 "|(W H)_ij|^2 + |(W R W^H)_ii|)")
def ob_enhanced_sinrs():
    def body(c, it):
        from pyphysim.comm import blockdiagonalization as bd
        goals = []
        # the SINR routine against first principles
        W, He, R = _rmat(c, "W", 2, 2), _rmat(c, "G", 2, 2), _rmat(c, "Rs", 2, 2)
        S = it.call(bd.EnhancedBD._calc_linear_SINRs, [He, W, R])
        T = np.dot(W, He)
        Q = np.dot(W, np.dot(R, W.T))
        for i in range(2):
            num = lift(T[i, i]) * lift(T[i, i])
            den = lift(T[i, 1 - i]) * lift(T[i, 1 - i]) + abs(lift(Q[i, i]))
            goals.append(Goal("linear SINR of stream %d == |(W H)_ii|^2 / (sum_j |(W H)_ij|^2 + |(W R W^H)_ii|)" % i, frac_eq(lift(S[i]) * den, num)))
        return goals
    return verify(body, check_side=False, timeout_ms=60000)


@obligation("whitening/structure_and_filters", timeout=300,
            desc="WhiteningBD.block_diagonalize_no_waterfilling on an ext-int channel (K = 2, one antenna per user and one external "
                 "interferer, symbolic real channel) with the callees under contract - calc_whitening_matrix (arbitrary symbolic "
                 "filter per user), the channel's interference-plus-noise covariance (symbolic), the inherited block diagonalisation (its "
                 "contract: a precoder whose k-th block lies in the null space of the OTHER users' whitened channels, newH == H_equiv Ms), pinv: "
                 "the whitening filters are requested for the covariance the channel reports for the object's CURRENT pe, one per user, and "
                 "applied as (filter)^H to that user's rows; the block diagonalisation is run on blockdiag(whitening) H; the returned receive "
                 "filter of user k satisfies W_k H_kk Ms_k == 1 and W_k H_kj Ms_j == 0 (j != k) on the PHYSICAL channel H; stream counts == "
                 "transmit antennas; precoders are the column blocks of Ms")
def ob_whitening_structure():
    def body(c, it):
        from pyphysim.comm import blockdiagonalization as bd
        import pyphysim.channels.multiuser as mu
        import pyphysim.util.misc as misc
        from .C08 import _install_models
        draws = []
        _install_models(c, it, draws)

        def m_randn_real(interp, RS, *shape):
            m = np.empty(shape, dtype=object)
            for pos in np.ndindex(*shape):
                m[pos] = c.fresh_var("h", "real")
            draws.append(m)
            return m
        it.models[misc.randn_c_RS] = m_randn_real
        K, Nr, Nt = 2, np.array([1, 1]), np.array([1, 1])
        ch = it.call(mu.MultiUserChannelMatrixExtInt, [])
        it.call(it.getattr(ch, "randomize"), [Nr, Nt, K, 1])
        H = np.asarray(it.getattr(ch, "big_H_no_ext_int"), dtype=object)
        pe = c.var("pe", "real")
        c.assume(pe >= 0)
        Re = np.empty(K, dtype=object)
        for k in range(K):
            Re[k] = _rmat(c, "R%d" % k, 1, 1)
        cov_calls, wh_calls, bd_calls = [], [], []
        it.models["pyphysim.channels.multiuser:MultiUserChannelMatrixExtInt.calc_cov_matrix_extint_plus_noise"] = \
            lambda interp, self, *a, **k: (cov_calls.append((a, k)) or Re)

        def m_whiten(interp, R):
            Wm = _rmat(c, "Wh%d" % len(wh_calls), 1, 1)
            wh_calls.append((R, Wm))
            return Wm
        it.models["pyphysim.util.misc:calc_whitening_matrix"] = m_whiten
        it.models[misc.calc_whitening_matrix] = m_whiten
        a_, b_ = c.var("a", "real"), c.var("b", "real")

        def m_bd(interp, self, He):
            # contract of the inherited block diagonalisation for 2 single-antenna users: user k's precoder is any vector in the
            # null space of the other user's (equivalent) channel row; newH == He Ms
            He = np.asarray(He, dtype=object)
            Ms = np.empty((2, 2), dtype=object)
            Ms[0, 0], Ms[1, 0] = He[1, 1] * a_, (0 - He[1, 0]) * a_
            Ms[0, 1], Ms[1, 1] = (0 - He[0, 1]) * b_, He[0, 0] * b_
            bd_calls.append((He, Ms))
            return np.dot(He, Ms), Ms
        it.models["pyphysim.comm.blockdiagonalization:BlockDiagonalizer.block_diagonalize_no_waterfilling"] = m_bd
        o = it.call(bd.WhiteningBD, [K, 1.0, 0.1, 0.5])
        it.setattr(o, "pe", pe)
        Ms_all, Wk, Ns = it.call(it.getattr(o, "block_diagonalize_no_waterfilling"), [ch])
        goals = [Goal("covariance requested once for the current pe", len(cov_calls) == 1 and len(cov_calls[0][0]) == 1 and cov_calls[0][0][0] is pe),
                 Goal("one whitening filter per user, from that user's covariance", len(wh_calls) == K and all(wh_calls[k][0] is Re[k] for k in range(K))),
                 Goal("block diagonalisation run once", len(bd_calls) == 1)]
        if not all(g.cond for g in goals):
            return goals
        He, Ms = bd_calls[0]
        wspec = np.zeros((2, 2), dtype=object)
        for k in range(K):
            wspec[k, k] = wh_calls[k][1][0, 0]
        goals.append(Goal("block diagonalisation runs on blockdiag(whitening_k^H) H", _meq(He, np.dot(wspec, H))))
        goals.append(Goal("stream counts == transmit antennas", [int(x) for x in Ns] == [1, 1]))
        for k in range(K):
            goals.append(Goal("user %d: precoder is column block %d of Ms" % (k, k), _meq(np.asarray(Ms_all[k], dtype=object), Ms[:, k:k + 1])))
            Wkk = np.asarray(Wk[k], dtype=object)
            goals.append(Goal("user %d: one receive-filter row over its antenna" % k, Wkk.shape == (1, 1)))
            if Wkk.shape != (1, 1):
                continue
            for j in range(K):
                eff = np.dot(Wkk, np.dot(H[k:k + 1, :], Ms[:, j:j + 1]))
                goals.append(Goal("user %d: W_k H_k Ms_%d == %d on the physical channel" % (k, j, int(j == k)),
                                  _meq(eff, np.eye(1, dtype=object) * int(j == k))))
        return goals
    return verify(body, check_side=False, timeout_ms=120000)


@obligation("native/block_diagonalizer", kind="bounded", timeout=900,
            desc="BlockDiagonalizer on random full-rank channels, K 2..4, 1..4 antennas per user, absolute channel scale 1e-6..1e3: effective "
                 "channel block diagonal (relative 1e-9); without water-filling every user block has power exactly iPu; with normalised "
                 "water-filling every block <= iPu and the maximum == iPu; receive filter inverts the effective channel on every powered stream")
def ob_native_bd():
    from pyphysim.comm import blockdiagonalization as bd
    r = stable_rng("C09bd")

    def gen():
        for i in range(120 if quick() else 1500):
            yield {"seed": int(r.randint(1 << 30)), "K": int(2 + i % 3), "n": int(1 + (i // 3) % 4), "scale": float(10 ** [0, -6, 3, -3, -10, 6, -13][(i // 12) % 7])}

    def check(case):
        rr = np.random.RandomState(case["seed"])
        K, n, sc = case["K"], case["n"], case["scale"]
        N = K * n
        H = _cm(rr, N, N) * sc
        if (not (np.linalg.cond(H) <= 1e4)):
            return None
        iPu = float(10 ** rr.uniform(-2, 1))
        o = bd.BlockDiagonalizer(K, iPu, float(10 ** rr.uniform(-3, 0)) * sc * sc)
        for wf in (False, True):
            newH, Ms = o.block_diagonalize(H) if wf else o.block_diagonalize_no_waterfilling(H)
            if (not (np.abs(newH - H @ Ms).max() <= 1e-9 * np.abs(newH).max())):
                return {"newH != H Ms": wf}
            ref = np.abs(newH).max()
            pw = []
            for k in range(K):
                for j in range(K):
                    if j != k and (not (np.abs(newH[j * n:(j + 1) * n, k * n:(k + 1) * n]).max() <= 1e-9 * ref)):
                        return {"not block diagonal": [j, k, float(np.abs(newH[j * n:(j + 1) * n, k * n:(k + 1) * n]).max() / ref)], "wf": wf}
                pw.append(np.linalg.norm(Ms[:, k * n:(k + 1) * n], 'fro') ** 2)
            pw = np.array(pw)
            if wf:
                if (not (pw.max() <= iPu * (1 + 1e-9))) or (not (abs(pw.max() - iPu) <= 1e-9 * iPu)):
                    return {"normalised water-filling powers": pw.tolist(), "iPu": iPu}
            elif (not (np.abs(pw - iPu).max() <= 1e-9 * iPu)):
                return {"per-user power": pw.tolist(), "iPu": iPu}
            W = o.calc_receive_filter(newH)
            E = W @ newH
            col_pow = np.linalg.norm(Ms, axis=0) ** 2
            live = col_pow > 1e-12 * iPu
            I = np.eye(N)
            if (not (np.abs((E - I)[np.ix_(live, live)]).max() <= 1e-6)):
                return {"receive filter does not invert the effective channel": float(np.abs((E - I)[np.ix_(live, live)]).max()),
                        "scale": sc, "wf": wf}
        # solutions handed out earlier belong to the caller: later calls on the same object (new realisations of the same size) leave them alone
        o3 = bd.BlockDiagonalizer(K, iPu, float(10 ** rr.uniform(-3, 0)) * sc * sc)
        kept = []
        for t in range(3):
            Ht = _cm(rr, N, N) * sc
            for wf in (False, True):
                nh, ms = o3.block_diagonalize(Ht) if wf else o3.block_diagonalize_no_waterfilling(Ht)
                kept.append((Ht, nh, ms, nh.copy(), ms.copy(), wf, t))
        for (Ht, nh, ms, nh0, ms0, wf, t) in kept:
            if not (np.array_equal(nh, nh0) and np.array_equal(ms, ms0)):
                return {"a solution returned earlier was changed by a later call on the same object": {"realisation": t, "wf": wf},
                        "max change of Ms": float(np.abs(ms - ms0).max())}
        # the channel's numbers matter, not how they are stored: an integer-typed channel (hand-written / quantised) gives the same solution
        Hi = rr.randint(-4, 5, size=(N, N))
        if np.linalg.matrix_rank(Hi) == N and np.linalg.cond(Hi.astype(float)) < 1e3:
            for dt in (np.int64, np.int32, np.float32):
                for wf in (False, True):
                    with np.errstate(all="ignore"):
                        a = (o.block_diagonalize(Hi.astype(dt)) if wf else o.block_diagonalize_no_waterfilling(Hi.astype(dt)))
                        b = (o.block_diagonalize(Hi.astype(float)) if wf else o.block_diagonalize_no_waterfilling(Hi.astype(float)))
                    tol = 1e-4 if dt is np.float32 else 1e-9
                    # the SVD basis inside a user's subspace is unique up to sign/phase: compare what the property talks about
                    na, nb = np.asarray(a[0], dtype=complex), np.asarray(b[0], dtype=complex)
                    if (not np.all(np.isfinite(na))) or (not np.all(np.isfinite(np.asarray(a[1], dtype=complex)))):
                        return {"non-finite solution for a channel stored as": np.dtype(dt).name, "wf": wf}
                    ref = np.abs(nb).max()
                    for k in range(K):
                        for j in range(K):
                            if j != k and (not (np.abs(na[j * n:(j + 1) * n, k * n:(k + 1) * n]).max() <= max(tol, 1e-9) * ref)):
                                return {"not block diagonal for a channel stored as": np.dtype(dt).name, "wf": wf}
                    pa = np.array([np.linalg.norm(np.asarray(a[1])[:, k * n:(k + 1) * n], 'fro') ** 2 for k in range(K)])
                    pb = np.array([np.linalg.norm(np.asarray(b[1])[:, k * n:(k + 1) * n], 'fro') ** 2 for k in range(K)])
                    if (not (np.abs(pa - pb).max() <= tol * iPu)):
                        return {"per-user powers depend on the dtype of the channel array": [pa.tolist(), pb.tolist()], "dtype": np.dtype(dt).name, "wf": wf}
        # the module-level convenience functions are the same computation; the object can be re-used at another power
        nv = float(10 ** rr.uniform(-3, 0)) * sc * sc
        newH_f, Ms_f = bd.block_diagonalize(H, K, iPu, nv)
        o2 = bd.BlockDiagonalizer(K, iPu, nv)
        newH_o, Ms_o = o2.block_diagonalize(H)
        if (not (np.abs(Ms_f - Ms_o).max() <= 1e-9 * max(1e-300, np.abs(Ms_o).max()))) or (not (np.abs(newH_f - H @ Ms_f).max() <= 1e-9 * np.abs(newH_f).max())):
            return {"module-level block_diagonalize differs from the class": True}
        Wf = bd.calc_receive_filter(newH_f)
        Wo = o2.calc_receive_filter(newH_f)
        if (not (np.abs(Wf - Wo).max() <= 1e-9 * max(1e-300, np.abs(Wo).max()))):
            return {"module-level calc_receive_filter differs from the class": True}
        new_iPu = float(iPu * rr.choice([0.25, 4.0]))
        o2.iPu = new_iPu                                   # power sweep on one object
        for wf in (False, True):
            _, Ms2 = o2.block_diagonalize(H) if wf else o2.block_diagonalize_no_waterfilling(H)
            pw = np.array([np.linalg.norm(Ms2[:, k * n:(k + 1) * n], 'fro') ** 2 for k in range(K)])
            if (wf and (not (abs(pw.max() - new_iPu) <= 1e-9 * new_iPu))) or ((not wf) and (not (np.abs(pw - new_iPu).max() <= 1e-9 * new_iPu))):
                return {"after iPu was changed on the object": pw.tolist(), "iPu now": new_iPu, "iPu at construction": iPu, "wf": wf}
        return None
    return bounded(gen(), check)


@obligation("native/ext_int_variants", kind="bounded", timeout=900,
            desc="WhiteningBD and EnhancedBD (metrics None, naive, fixed, capacity, effective_throughput; every stream count) on ext-int "
                 "channels K 2..3, 2..4 antennas, interference ranks 1..2: inter-user interference nulled, every user's precoder power "
                 "exactly iPu, reported stream counts == precoder columns == filter rows, W_k H_kk Ms_k == I on kept streams, and with "
                 "'fixed' reduction sacrificing >= rank(interference) streams the external interference is removed (W_k H_ke == 0); each on three "
                 "realisations of the SAME channel object with the SAME precoder object (randomize, init_from_channel_matrix in between)")
def ob_native_ext():
    from pyphysim.comm import blockdiagonalization as bd
    from pyphysim.channels import multiuser
    from pyphysim.modulators import fundamental
    r = stable_rng("C09ext")

    def gen():
        for i in range(90 if quick() else 900):
            yield {"seed": int(r.randint(1 << 30)), "K": int(2 + i % 2), "n": int(2 + (i // 2) % 3),
                   "metric": ["None", "naive", "fixed", "capacity", "effective_throughput", "whitening"][(i // 6) % 6]}

    def check(case):
        rr = np.random.RandomState(case["seed"])
        K, n = case["K"], case["n"]
        rankE = int(rr.randint(1, min(n, 3)))
        ch = multiuser.MultiUserChannelMatrixExtInt()
        ch._RS_channel = np.random.RandomState(case["seed"])
        ch.randomize(n, n, K, rankE)
        ch.noise_var = float(10 ** rr.uniform(-4, -1))
        iPu, pe = float(10 ** rr.uniform(-1, 1)), float(10 ** rr.uniform(-2, 1))
        metric = case["metric"]
        if metric == "whitening":
            o = bd.WhiteningBD(K, iPu, ch.noise_var, pe)
            ns_req = None
        else:
            o = bd.EnhancedBD(K, iPu, ch.noise_var, pe)
            ns_req = int(rr.randint(1, n + 1))
            if metric in ("naive", "fixed"):
                o.set_ext_int_handling_metric(metric, {"num_streams": ns_req})
            elif metric == "effective_throughput":
                o.set_ext_int_handling_metric(metric, {"modulator": fundamental.PSK(4), "packet_length": 120})
            else:
                o.set_ext_int_handling_metric(metric)
        # the same precoder object is used on the same channel OBJECT for three realisations (Monte-Carlo style): every result
        # is a function of the channel as it is at that call
        for realisation in ("first", "after randomize()", "after init_from_channel_matrix()"):
            if realisation == "after randomize()":
                ch.randomize(n, n, K, rankE)
            elif realisation == "after init_from_channel_matrix()":
                ch.init_from_channel_matrix(rr.randn(K * n, K * n + rankE) + 1j * rr.randn(K * n, K * n + rankE), np.full(K, n), np.full(K, n), K, rankE)
            bad = one_realisation(o, ch, K, n, rankE, iPu, metric, ns_req)
            if bad:
                bad["realisation"] = realisation
                return bad
        return None

    def one_realisation(o, ch, K, n, rankE, iPu, metric, ns_req):
        Ms, Wk, Ns = o.block_diagonalize_no_waterfilling(ch)
        Hbig = ch.big_H_no_ext_int
        ext = ch.big_H[:, K * n:]
        ref = np.abs(Hbig).max()
        for k in range(K):
            if Ms[k].shape[1] != Ns[k] or Wk[k].shape[0] != Ns[k]:
                return {"stream count mismatch": [int(Ns[k]), list(Ms[k].shape), list(Wk[k].shape)], "metric": metric}
            if metric in ("naive", "fixed") and Ns[k] != ns_req:
                return {"requested streams": ns_req, "reported": int(Ns[k])}
            pw = np.linalg.norm(Ms[k], 'fro') ** 2
            if (not (abs(pw - iPu) <= 1e-8 * iPu)):
                return {"user power": float(pw), "iPu": iPu, "metric": metric, "user": k}
            for j in range(K):
                Hj = Hbig[j * n:(j + 1) * n, :]
                if j != k and (not (np.abs(Hj @ Ms[k]).max() <= 1e-8 * ref * math.sqrt(iPu))):
                    return {"inter-user interference": [j, k, float(np.abs(Hj @ Ms[k]).max())], "metric": metric}
            Hk = Hbig[k * n:(k + 1) * n, :]
            E = Wk[k] @ Hk @ Ms[k]
            if (not (np.abs(E - np.eye(Ns[k])).max() <= 1e-6)):
                return {"W_k H_kk Ms_k != I": float(np.abs(E - np.eye(Ns[k])).max()), "metric": metric, "Ns": int(Ns[k])}
            if metric == "fixed" and (not (n - ns_req < rankE)):
                leak = np.abs(Wk[k] @ ext[k * n:(k + 1) * n, :]).max() / max(np.abs(Wk[k]).max() * np.abs(ext).max(), 1e-300)
                if (not (leak <= 1e-6)):
                    return {"external interference not removed": float(leak), "n": n, "kept streams": ns_req, "interference rank": rankE}
        return None
    return bounded(gen(), check)
