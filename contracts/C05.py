"""C05  Monte Carlo runner runs exactly the requested repetitions per variation.

Functions under contract (symbolically executed): SimulationRunner.simulate/_simulate_serially_all_param_variation/
_simulate_serially_single_param_variation/_simulate_common_setup/_simulate_for_current_params_serial/
_simulate_for_current_params_common/__run_simulation_and_track_elapsed_time/clear/simulate_common_cleaning,
SimulationResultsSaver.load_partial_results/save_partial_results(_maybe)/setup/clear/cleanup,
SimulationResults.merge_all_results/append_all_results/append_result/add_result/add_new_result, Result.*,
SimulationParameters.get_unpacked_params_list/get_num_unpacked_variations/get_pack_indexes.
User code enters as ABSTRACT callees: _run_simulation either returns a fresh result with a symbolic value or raises
SkipThisOne, _keep_going returns an arbitrary boolean - both decided by an oracle, and EVERY oracle pattern is explored.
"""
import itertools

import numpy as np
import z3

from pyvc import sym
from pyvc.sym import lift
from pyvc.interp import PyRaise
from pyvc.oblig import obligation, verify, bounded, exhaustive, Goal, merge
from .common import stable_rng, quick

LEVEL = "proof"
EXPLANATION = ("The real simulate() is symbolically executed on a real runner object whose two user hooks are oracles: each call of "
               "_run_simulation either raises SkipThisOne or returns a result holding a fresh symbolic value, each call of _keep_going "
               "returns a fresh boolean; the path explorer enumerates EVERY pattern (skips bounded per variation, rep_max concrete per "
               "configuration).  On every path: variations are visited in the documented order, each exactly until rep_max or the stop "
               "rule, a skipped repetition never changes the repetition count, the stored result of each variation is exactly the sum "
               "of its successful repetitions (ring identity over the symbolic values), runned_reps and num_skipped_reps match the "
               "trace, repeated simulate() starts afresh.  The repetition loop is additionally proved for a SYMBOLIC rep_max by an inductive "
               "step from an arbitrary loop-head state (guard fails: exit with stop-rule-said-stop or count >= rep_max; guard holds: one "
               "merged and counted repetition, or one skipped and uncounted).  simulate(i) dispatches every integer-like index incl. 0 to "
               "the single-variation driver, which runs exactly the documented i-th combination.  Index arithmetic of get_pack_indexes/get_result_values_list is decided by "
               "complete enumeration over all grids with 0..3 unpacked parameters of lengths 1..3, every subset of fixed values and float "
               "value families (ordinary / tiny / adjacent binary64 / huge, arrays and lists); get_pack_indexes is also symbolically "
               "executed (its eval'd index expression included) on grids of ARBITRARY pairwise distinct real values.")
ASSUMPTIONS = [
    "whole-run pattern enumeration bounded: rep_max in {1,2,3}, at most 2 skips per variation (2x2 grid, thorough tier: 1 skip for "
    "rep_max 2, none for rep_max 3), grids up to 2x2 variations (values "
    "symbolic); the repetition loop itself is proved for EVERY rep_max by the inductive step loop/inductive_step_any_rep_max (arbitrary "
    "loop-head state, symbolic rep_max; the induction over iterations is the standard meta-argument, not machine-checked); larger "
    "grids / skip patterns in the bounded native check",
    "progress bars, timing, option parsing (SimulationTracking, SimulationConfigurator, pyphysim.progressbar) are executed "
    "natively, declared to have no effect on the state under contract",
    "termination when every repetition is skipped is liveness - outside contracts",
]
TRUSTED_BASE = ["itertools.product order, numpy reshape/indexing in get_pack_indexes (executed natively)"]
BOUNDS = {"rep_max": [1, 2, 3], "max_skips_per_variation": 2, "unpacked_parameters": "0..3, lengths 1..3 (exhaustive index check)"}

NATIVE = ["pyphysim.simulations.runner:SimulationTracking", "pyphysim.simulations.runner:SimulationConfigurator",
          "pyphysim.progressbar", "pyphysim.simulations.configobjvalidation",
          # parameter grids are concrete values: executed natively here, decided by lookup/pack_indexes_exhaustive
          "pyphysim.simulations.parameters"]


def _make_runner(c, grid, rep_max, max_skips, keep_going_oracle=True):
    from pyphysim.simulations.runner import SimulationRunner, SkipThisOne
    from pyphysim.simulations.results import SimulationResults, Result

    class R(SimulationRunner):
        def __init__(self):
            super().__init__(read_command_line_args=False)
            self.rep_max = rep_max
            for k, v in grid.items():
                self.params.add(k, v)
                self.params.set_unpack_parameter(k)
            self.params.add("fixed", 42)
            self.update_progress_function_style = None
            self.trace = []            # (unpack_index, 'skip' | symbolic value)
            self.kg_trace = []         # (unpack_index, current_rep, answer)
            self.skips = {}

        def _run_simulation(self, current_parameters):
            i = max(current_parameters.unpack_index, 0)      # -1 when nothing is unpacked
            if self.skips.get(i, 0) < max_skips:
                sk = c.fresh_var("skip", "bool")
                if bool(sk):
                    self.skips[i] = self.skips.get(i, 0) + 1
                    self.trace.append((i, "skip"))
                    raise SkipThisOne("oracle")
            x = c.fresh_var("x", "real")
            self.trace.append((i, x))
            res = SimulationResults()
            res.add_new_result("v", Result.SUMTYPE, x)
            return res

        def _keep_going(self, current_params, current_sim_results, current_rep):
            if not keep_going_oracle:
                return True
            b = bool(c.fresh_var("keep_going", "bool"))
            self.kg_trace.append((max(current_params.unpack_index, 0), current_rep, b))
            return b
    return R()


def _fld(o, name):
    """attribute of a real object or of an interpreter-owned instance"""
    from pyvc.interp import SObj
    return o.fields[name] if isinstance(o, SObj) else getattr(o, name)


def _path_goals(r, grid, rep_max, tag=""):
    """contract of one simulate() call, evaluated on the trace of this path"""
    goals = []
    names = sorted(grid)
    lens = [len(grid[n]) for n in names]
    V = int(np.prod(lens)) if lens else 1
    order = [t[0] for t in r.trace]
    goals.append(Goal(tag + "variations visited in order 0..V-1, each contiguous", order == sorted(order) and set(order) == set(range(V))))
    rr = r.runned_reps
    goals.append(Goal(tag + "one repetition count per variation", isinstance(rr, list) and len(rr) == V))
    if not (isinstance(rr, list) and len(rr) == V):
        return goals
    resd = _fld(r.results, "_results")
    if "v" not in resd or "num_skipped_reps" not in resd:
        return goals + [Goal(tag + "results 'v' and 'num_skipped_reps' stored", False)]
    vals = resd["v"]
    skipped = resd["num_skipped_reps"]
    goals.append(Goal(tag + "one stored result per variation", len(vals) == V and len(skipped) == V))
    plist = r.params.get_unpacked_params_list()
    for i in range(V):
        succ = [x for (j, x) in r.trace if j == i and not isinstance(x, str)]
        nskip = sum(1 for (j, x) in r.trace if j == i and isinstance(x, str))
        goals.append(Goal(tag + "variation %d: recorded repetitions == successful executions (skips not counted)" % i, rr[i] == len(succ)))
        kg = [(rep, b) for (j, rep, b) in r.kg_trace if j == i]
        stopped = any(not b for _, b in kg)
        goals.append(Goal(tag + "variation %d: ran until rep_max or the stop rule" % i,
                          (rr[i] == rep_max and not stopped) or (stopped and 1 <= rr[i] <= rep_max) or (rr[i] == 1 and rep_max == 1)))
        if stopped:
            # the stop rule was consulted with the number of repetitions done so far and ended the loop at once
            goals.append(Goal(tag + "variation %d: no execution after the stop rule said stop" % i, kg[-1][0] == rr[i] and all(b for _, b in kg[:-1])))
        tot = 0
        for x in succ:
            tot = tot + x
        goals.append(Goal(tag + "variation %d: stored value == sum of its successful repetitions" % i, lift(_fld(vals[i], "_value")) == lift(tot)))
        goals.append(Goal(tag + "variation %d: stored update count" % i, _fld(vals[i], "num_updates") == len(succ)))
        goals.append(Goal(tag + "variation %d: skipped count recorded" % i, lift(_fld(skipped[i], "_value")) == nskip))
        # documented order: row-major over the sorted unpacked names
        digits = np.unravel_index(i, lens) if lens else ()
        ok = all(plist[i][n] == grid[n][d] for n, d in zip(names, digits)) and (plist[i].unpack_index == i or not names)
        goals.append(Goal(tag + "variation %d is the documented parameter combination" % i, ok))
    return goals


GRIDS = {"none": {}, "one": {"a": [10, 20]}, "two": {"a": [1, 2], "b": [5.0, 7.5]}}


@obligation("runner/every_skip_and_stop_pattern", params=[{"grid": g, "rep_max": n, "_tiers": ("quick", "thorough") if (g != "two" or n < 2) else ("thorough",)}
                                                         for g in GRIDS for n in (1, 2, 3)], timeout=900,
            desc="simulate() with oracle hooks: every pattern of SkipThisOne (<=2 per variation) and _keep_going answers; repetition counts, "
                 "order, merged values and skipped counts per variation as specified")
def ob_patterns(grid, rep_max):
    def body(c, it):
        it.native_prefixes = list(NATIVE)
        # 4 variations: at most one skip per variation (the number of patterns grows with the product over the variations)
        r = _make_runner(c, GRIDS[grid], rep_max, 2 if (grid != "two" or rep_max == 1) else (1 if rep_max == 2 else 0))
        it.call(it.getattr(r, "simulate"), [])
        return _path_goals(r, GRIDS[grid], rep_max)
    return verify(body, check_side=False, timeout_ms=20000, max_paths=200000)


@obligation("runner/repeated_simulate_starts_afresh", timeout=900, tiers=("thorough",),
            desc="two simulate() calls on the same runner: the second run's counts/results satisfy the same contract on its own trace")
def ob_repeat():
    def body(c, it):
        it.native_prefixes = list(NATIVE)
        r = _make_runner(c, GRIDS["one"], 2, 1)
        it.call(it.getattr(r, "simulate"), [])
        g1 = _path_goals(r, GRIDS["one"], 2, "run 1: ")
        r.trace, r.kg_trace, r.skips = [], [], {}
        it.call(it.getattr(r, "simulate"), [])
        return g1 + _path_goals(r, GRIDS["one"], 2, "run 2: ")
    return verify(body, check_side=False, timeout_ms=20000, max_paths=200000)


class _OneIteration(Exception):
    pass


@obligation("loop/inductive_step_any_rep_max", params=[{"first": f} for f in ("guard_and_body", "answer_numpy_bool", "answer_int")], timeout=300,
            desc="the repetition loop of _simulate_for_current_params_common for SYMBOLIC rep_max >= 1 from an ARBITRARY loop-head state "
                 "(count c >= 0, merged value v, number k >= 0 of repetitions skipped so far, all symbolic): if the guard fails the loop "
                 "exits with (c, v) unchanged and [stop rule said stop or c >= rep_max]; if it holds (then c < rep_max) one iteration "
                 "either merges exactly one new result and counts it (c+1 <= rep_max, v + x, one more update) or - SkipThisOne - leaves "
                 "count and value alone and records one skipped repetition.  By induction over the iterations: for every rep_max, "
                 "count == start + successes, value == start value + sum of successes, never above max(start, rep_max), and at exit "
                 "the stop rule said stop or count >= rep_max")
def ob_loop_inductive(first):
    import ast
    from .C07 import _make_resuming_runner
    from pyvc.interp import SObj, _Break

    def body(c, it):
        it.native_prefixes = list(NATIVE)
        R = c.var("rep_max", "int")
        c0 = c.var("count", "int")
        k0, u0 = c.var("skipped_so_far", "int"), c.var("skip_updates_so_far", "int")
        c.assume((R >= 1) & (c0 >= 0) & (k0 >= 0) & (u0 >= 0))
        c.inputs.update(rep_max=R, count=c0, skipped_so_far=k0)
        saved = []
        r, v0 = _make_resuming_runner(c, 7, 0, 1, saved)       # concrete values only while the (native) set-up runs
        r._simulate_common_setup()
        plist = r.params.get_unpacked_params_list()
        r.rep_max = R
        # the arbitrary loop-head state
        from pyphysim.simulations.results import SimulationResults, Result
        saver = r._simulation_results_saver

        def load(current_params):
            s_ = SimulationResults()
            s_.set_parameters(current_params)
            rr = Result("v", Result.SUMTYPE)
            rr._value = v0
            rr.num_updates = c0
            s_.add_result(rr)
            s_.current_rep = c0
            return s_
        saver.load_partial_results = load
        periodic = []

        def maybe(current_rep, current_params, current_sim_results):
            # the periodic save: record the state it is handed at the moment of the call
            d = _fld(current_sim_results, "_results")
            periodic.append((current_rep, _fld(d["v"][-1], "num_updates"), _fld(d["v"][-1], "_value")))
        saver.save_partial_results_maybe = maybe
        kg = []
        # the user's stop rule may answer with any truth value: a Python bool, a numpy bool (a comparison of numpy counters), 0 / 1
        wrap = {"guard_and_body": bool, "answer_numpy_bool": np.bool_, "answer_int": int}[first]
        r._keep_going = lambda p, res, rep: kg.append((rep, bool(c.fresh_var("keep_going", "bool")))) or wrap(kg[-1][1])
        fn = it.ifunc_from_spec("pyphysim.simulations.runner:SimulationRunner._simulate_for_current_params_common")
        loops = [n for n in ast.walk(fn.node) if isinstance(n, ast.While) and "rep_max" in ast.unparse(n.test)]
        if len(loops) != 1:
            return [Goal("the repetition loop (one while loop guarded by rep_max) is found", False)]
        st = {}

        def hook(interp, s_, frame):
            st["head"] = (frame.vars["current_rep"], frame.vars["current_sim_results"])
            # the arbitrary loop-head state includes ANY number of repetitions skipped so far
            skr = _fld(frame.vars["current_sim_results"], "_results")["num_skipped_reps"][-1]
            if isinstance(skr, SObj):
                skr.fields["_value"] = k0
                skr.fields["num_updates"] = u0
            else:
                skr._value, skr.num_updates = k0, u0
            if not interp.truth(interp.eval(s_.test, frame)):
                st["exit"] = True
                return
            try:
                interp.exec_block(s_.body, frame)
            except _Break:
                st["broke"] = True
            st["after"] = (frame.vars["current_rep"], frame.vars["current_sim_results"])
            raise _OneIteration()
        it.loop_hooks[id(loops[0])] = hook

        def view(res):
            d = _fld(res, "_results")
            v = d["v"][-1]
            sk = d["num_skipped_reps"][-1]
            return _fld(v, "_value"), _fld(v, "num_updates"), _fld(sk, "_value")
        goals = []
        try:
            out = it.call(it.getattr(r, "_simulate_for_current_params_serial"), [plist[0]])
        except _OneIteration:
            rep1, res1 = st["after"]
            val, nup, nsk = view(res1)
            goals.append(Goal("an iteration never leaves the loop by itself (only the guard ends it), however many repetitions were skipped",
                              not st.get("broke")))
            goals.append(Goal("guard held => count < rep_max and the stop rule said go", (lift(c0) < R) & sym.SBool(z3.BoolVal(bool(kg and kg[-1][1])))))
            goals.append(Goal("the stop rule was asked with the current count", len(kg) == 1 and lift(kg[0][0]) == c0))
            succ = [t for t in r.trace if not isinstance(t, str)]
            nskip = sum(1 for t in r.trace if isinstance(t, str))
            for (prep, pup, pval) in periodic:
                goals.append(Goal("the periodic save is handed a consistent state: count == merged repetitions", lift(prep) == lift(pup)))
            goals.append(Goal("the periodic save is offered the state once per iteration", len(periodic) == 1))
            if succ:
                goals.append(Goal("successful repetition: exactly one execution", len(succ) == 1 and nskip == 0))
                goals.append(Goal("count' == count + 1 (<= rep_max)", (lift(rep1) == c0 + 1) & (lift(rep1) <= R)))
                goals.append(Goal("value' == value + new result", lift(val) == v0 + succ[0]))
                goals.append(Goal("updates' == updates + 1", lift(nup) == c0 + 1))
                goals.append(Goal("skipped count unchanged", lift(nsk) == k0))
            else:
                goals.append(Goal("skipped repetition: one execution, none successful", nskip == 1))
                goals.append(Goal("count' == count", lift(rep1) == c0))
                goals.append(Goal("value' == value, updates unchanged", (lift(val) == v0) & (lift(nup) == c0)))
                goals.append(Goal("one more skipped repetition recorded", lift(nsk) == k0 + 1))
            return goals
        if not st.get("exit"):
            return [Goal("the loop was reached", False)]
        rep, res = out[0], out[1]
        val, nup, nsk = view(res)
        stopped = bool(kg) and not kg[-1][1]
        goals.append(Goal("exit => the stop rule said stop or count >= rep_max", sym.SBool(z3.BoolVal(stopped)) | (lift(c0) >= R)))
        goals.append(Goal("exit: returned count and view are the loop-head ones", (lift(rep) == c0) & (lift(val) == v0) & (lift(nup) == c0)))
        goals.append(Goal("exit: nothing executed", len(r.trace) == 0))
        goals.append(Goal("exit: the final state is handed to save_partial_results", len(saved) == 1 and bool(lift(saved[0][0]) == c0)
                          if saved and not isinstance(lift(saved[0][0]) == c0, bool) else len(saved) == 1))
        return goals

    def replay(mv):
        # native: one variation in which every success is preceded by (skipped_so_far + 1) skipped attempts, no stop rule
        from pyphysim.simulations.runner import SimulationRunner, SkipThisOne
        from pyphysim.simulations.results import SimulationResults, Result
        try:
            R = max(1, min(int(mv.get("rep_max", 2) or 2), 6)) + 1
            k = max(0, min(int(mv.get("skipped_so_far", 3) or 3), 400)) + 1
        except Exception:
            R, k = 3, 12

        class Rn(SimulationRunner):
            def __init__(self):
                super().__init__(read_command_line_args=False)
                self.rep_max = R
                self.params.add("a", [1, 2])
                self.params.set_unpack_parameter("a")
                self.update_progress_function_style = None
                self.calls = {}
                self.done = {}

            def _run_simulation(self, p):
                a = p["a"]
                n = self.calls.get(a, 0)
                self.calls[a] = n + 1
                if a == 2 and n % (k + 1) != k:
                    raise SkipThisOne("replay")
                self.done[a] = self.done.get(a, 0) + 1
                res = SimulationResults()
                res.add_new_result("v", Result.SUMTYPE, 1)
                return res
        import warnings
        try:
            with warnings.catch_warnings():
                warnings.simplefilter("ignore")
                r = Rn()
                r.simulate()
            got = list(r.runned_reps)
            vals = [x.get_result() for x in r.results["v"]]
            return {"confirmed": got != [R, R] or vals != [R, R], "rep_max": R, "skips before every success (second combination)": k,
                    "runned_reps": got, "stored sums": vals, "expected": [R, R]}
        except Exception as e:
            return {"confirmed": True, "rep_max": R, "skips before every success": k, "observed": "raised %r" % (e,)}
    return verify(body, check_side=False, timeout_ms=20000, replay=replay)


@obligation("runner/single_variation_dispatch", timeout=300,
            desc="simulate(i) with the two serial drivers as abstract callees: None -> all variations; EVERY integer-like index incl. 0, "
                 "'0', numpy 0 -> the single-variation driver with that index.  The single-variation driver itself with the repetition "
                 "loop as abstract callee: for 0 <= i < V exactly one call, for the documented i-th combination, runned_reps == its "
                 "repetition count; out of range -> no call")
def ob_single_dispatch():
    def body(c, it):
        it.native_prefixes = list(NATIVE)
        goals = []
        for idx in (None, 0, 1, "0", "1", np.int64(0), np.int32(1), True):
            r = _make_runner(c, GRIDS["one"], 2, 0)
            calls = []
            it.models["pyphysim.simulations.runner:SimulationRunner._simulate_serially_all_param_variation"] = \
                lambda interp, self: calls.append(("all",))
            it.models["pyphysim.simulations.runner:SimulationRunner._simulate_serially_single_param_variation"] = \
                lambda interp, self, i: calls.append(("single", i))
            it.call(it.getattr(r, "simulate"), [] if idx is None else [idx])
            want = [("all",)] if idx is None else [("single", idx)]
            goals.append(Goal("simulate(%r) -> %s" % (idx, want), len(calls) == 1 and calls[0][0] == want[0][0]
                              and (idx is None or (calls[0][1] is idx or calls[0][1] == idx))))
        del it.models["pyphysim.simulations.runner:SimulationRunner._simulate_serially_single_param_variation"]
        del it.models["pyphysim.simulations.runner:SimulationRunner._simulate_serially_all_param_variation"]
        grid = GRIDS["two"]
        V = 4
        for idx in (0, 1, 3, "2", 4, -1):
            r = _make_runner(c, grid, 2, 0)
            r._simulation_results_saver._results_base_filename = "ghost_results"      # a results file name is required in this mode
            seen = []

            def serial(interp, self, current_params, seen=seen):
                seen.append(current_params)
                n = c.fresh_var("reps", "int")
                return (n, None, None)
            it.models["pyphysim.simulations.runner:SimulationRunner._simulate_for_current_params_serial"] = serial
            it.models["pyphysim.simulations.runner:SimulationRunner._simulate_common_setup"] = lambda interp, self: None
            it.call(it.getattr(r, "_simulate_serially_single_param_variation"), [idx])
            i = int(idx)
            if 0 <= i < V:
                names = sorted(grid)
                digits = np.unravel_index(i, [len(grid[n]) for n in names])
                ok = len(seen) == 1 and all(seen[0][n] == grid[n][d] for n, d in zip(names, digits)) and seen[0].unpack_index == i
                goals.append(Goal("single variation %r: exactly the documented combination is run once" % (idx,), ok))
            else:
                goals.append(Goal("index %r out of range: nothing is run" % (idx,), len(seen) == 0))
        return goals
    return verify(body, check_side=False)


@obligation("runner/restart_on_the_same_object_after_an_interruption", params=[{"at": a} for a in (1, 2, 3)], timeout=600,
            desc="history: simulate() is interrupted by an exception raised from the a-th execution of the user's iteration (2 variations, "
                 "rep_max 2, so after 0 or 1 completed variations), then simulate() is called again on the SAME runner: the second run "
                 "satisfies the whole contract on its own trace (every variation once, counts, stored sums) - nothing of the "
                 "interrupted run is kept or counted twice")
def ob_restart_same_object(at):
    def body(c, it):
        it.native_prefixes = list(NATIVE)
        r = _make_runner(c, GRIDS["one"], 2, 0, keep_going_oracle=False)
        orig = r._run_simulation
        calls = {"n": 0, "armed": True}

        class Interrupted(Exception):
            pass

        def run(p):
            calls["n"] += 1
            if calls["armed"] and calls["n"] == at:
                raise Interrupted("interrupted in execution %d" % at)
            return orig(p)
        r._run_simulation = run
        try:
            it.call(it.getattr(r, "simulate"), [])
            return [Goal("the interruption propagated out of simulate()", False)]
        except PyRaise as pr:
            if not isinstance(pr.exc, Interrupted):
                raise
        calls["armed"] = False
        del r.trace[:]
        del r.kg_trace[:]
        r.skips.clear()
        it.call(it.getattr(r, "simulate"), [])
        return _path_goals(r, GRIDS["one"], 2, "[restart] ")
    return verify(body, check_side=False, timeout_ms=20000, max_paths=2000)


@obligation("runner/skip_never_escapes", timeout=600,
            desc="exceptional postcondition: SkipThisOne raised by the user's iteration never escapes simulate() (any position incl. the first repetition)")
def ob_skip_escape():
    def body(c, it):
        it.native_prefixes = list(NATIVE)
        r = _make_runner(c, GRIDS["one"], 2, 2, keep_going_oracle=False)
        try:
            it.call(it.getattr(r, "simulate"), [])
        except PyRaise as pr:
            return [Goal("no exception escapes (got %r)" % (pr.exc,), False)]
        return [Goal("completed", True)]
    return verify(body, check_side=False, timeout_ms=20000)


# ------------------------------------------------------------------ index arithmetic (exhaustive configuration space)
# float values of an unpacked parameter: ordinary, tiny (noise powers), adjacent binary64 numbers, huge with a relative gap of
# 1e-12 - a lookup matches a value exactly, never "approximately"
SNR_FAMILIES = [[0.0, 5.0, 10.5],
                [1e-9, 2e-9, 4e-9],
                [1.0, float(np.nextafter(1.0, 2.0)), float(np.nextafter(np.nextafter(1.0, 2.0), 2.0))],
                [1e20, 1e20 * (1 + 1e-12), 1e20 * (1 + 3e-12)],
                [-1e-12, 0.0, 1e-12]]


@obligation("lookup/pack_indexes_exhaustive", kind="exhaustive", timeout=900,
            desc="every grid with 0..3 unpacked parameters of lengths 1..3 (+1 packed list parameter; float values ordinary / tiny / adjacent "
                 "binary64 / huge, as arrays and lists) x every subset of fixed values x every value choice: get_pack_indexes == ascending indexes of exactly the matching combinations; get_result_values_list returns "
                 "precisely those results; get_unpacked_params_list is row-major over the sorted names with unpack_index == position")
def ob_lookup():
    from pyphysim.simulations.parameters import SimulationParameters
    from pyphysim.simulations.results import SimulationResults, Result

    def cases():
        names = ["Nr", "SNR", "scheme"]
        for k in range(0, 4):
            for lens in itertools.product((1, 2, 3), repeat=k):
                for fam in (range(len(SNR_FAMILIES)) if k >= 2 else (0,)):
                    for cont in (("array", "list") if k >= 2 else ("array",)):
                        yield {"names": names[:k], "lens": list(lens), "snr_family": fam, "container": cont}
                # parameter NAMES that sort differently as plain strings, case-insensitively and "naturally" (numbered names)
                if k >= 2:
                    for alias in ({"Nr": "gain10", "SNR": "gain2", "scheme": "gain1b"}, {"Nr": "p_9", "SNR": "P_10", "scheme": "p_10"},
                                  {"Nr": "b", "SNR": "B", "scheme": "a"}):
                        yield {"names": names[:k], "lens": list(lens), "snr_family": 0, "container": "array", "alias": alias}

    def check(case):
        names, lens = case["names"], case["lens"]
        vals = {"Nr": [1, 2, 4], "SNR": SNR_FAMILIES[case["snr_family"]], "scheme": ["a", "b", "c"]}
        d = {n: np.array(vals[n][:l]) if (n != "scheme" and case["container"] == "array") else list(vals[n][:l])
             for n, l in zip(names, lens)}
        alias = case.get("alias")
        if alias:
            d = {alias[n]: v for n, v in d.items()}
            vals = {alias[n]: v for n, v in vals.items()}
            names = [alias[n] for n in names]
        d["packed"] = [7, 8]
        d["x"] = 3
        p = SimulationParameters.create(d)
        for n in names:
            p.set_unpack_parameter(n)
        plist = p.get_unpacked_params_list()
        V = int(np.prod(lens)) if lens else 1
        if len(plist) != V or p.get_num_unpacked_variations() != V:
            return {"variations": len(plist), "expected": V}
        snames = sorted(names)
        slens = [lens[names.index(n)] for n in snames]
        for i, q in enumerate(plist):
            digits = np.unravel_index(i, slens) if slens else ()
            for n, dg in zip(snames, digits):
                if q[n] != vals[n][dg]:
                    return {"order": i, "param": n, "got": str(q[n])}
            if names and q.unpack_index != i:
                return {"unpack_index": q.unpack_index, "position": i}
            if q["x"] != 3 or list(q["packed"]) != [7, 8]:
                return {"regular params not carried": i}
        # every combination owns its values: user code that changes a list / array valued parameter of ITS combination in place (a
        # work buffer, a per-run table) must not reach the sibling combinations or the grid they were unpacked from
        if names:          # (with nothing to unpack the single "combination" IS the parameters object itself)
            plist2 = p.get_unpacked_params_list()
            plist2[0]["packed"].append(99)
            plist2[0]["packed"][0] = -1
            if any(list(q["packed"]) != [7, 8] for q in plist2[1:]) or list(p["packed"]) != [7, 8] or \
                    any(list(q["packed"]) != [7, 8] for q in p.get_unpacked_params_list()):
                return {"an in-place change of one combination's list parameter reached its siblings or the parent grid": True,
                        "parent": list(p["packed"]), "siblings": [list(q["packed"]) for q in plist2[1:3]]}
        res = SimulationResults()
        res.set_parameters(p)
        for i in range(V):
            rr = Result("v", Result.SUMTYPE)
            rr.update(100 + i)
            res.append_result(rr)
        if not names:
            return None
        for m in range(0, len(names) + 1):
            for fixed in itertools.combinations(names, m):
                for choice in itertools.product(*[range(lens[names.index(n)]) for n in fixed]):
                    fd = {n: vals[n][ci] for n, ci in zip(fixed, choice)}
                    want = [i for i, q in enumerate(plist) if all(q[n] == v for n, v in fd.items())]
                    got = [int(x) for x in p.get_pack_indexes(fd)]
                    if got != want:
                        return {"fixed": {k: str(v) for k, v in fd.items()}, "get_pack_indexes": got, "matching": want}
                    gv = res.get_result_values_list("v", fd)
                    if gv != [100 + i for i in want]:
                        return {"fixed": {k: str(v) for k, v in fd.items()}, "values": gv, "expected": [100 + i for i in want]}
        return None
    return exhaustive(cases(), check)


@obligation("lookup/pack_indexes_symbolic_values", params=[{"lens": l} for l in ((3,), (2, 2), (3, 2))],
            desc="get_pack_indexes symbolically executed (incl. its eval'd index expression) on grids whose unpacked values are ARBITRARY "
                 "pairwise distinct reals: for every subset of fixed parameters and every choice, a query equal to the chosen value "
                 "returns exactly the ascending indexes of the matching combinations - for all values, however close together")
def ob_lookup_symbolic(lens):
    from pyphysim.simulations.parameters import SimulationParameters
    names = ["a", "b"][:len(lens)]
    subsets = [(fixed, choice) for m in range(0, len(names) + 1) for fixed in itertools.combinations(names, m)
               for choice in itertools.product(*[range(lens[names.index(n)]) for n in fixed])]

    def one(fixed, choice):
        def body(c, it):
            vals = {}
            for n, l in zip(names, lens):
                vs = [c.var("%s%d" % (n, i), "real") for i in range(l)]
                for i in range(l):
                    for j in range(i + 1, l):
                        c.assume(vs[i] != vs[j])
                vals[n] = vs
            c.inputs.update({n: list(v) for n, v in vals.items()})
            d = {}
            for n in names:
                arr = np.empty(len(vals[n]), dtype=object)
                for i, v in enumerate(vals[n]):
                    arr[i] = v
                d[n] = arr
            d["x"] = 3
            p = SimulationParameters.create(d)
            for n in names:
                p.set_unpack_parameter(n)
            fd = {}
            for n, k in zip(fixed, choice):
                q = c.var("query_%s" % n, "real")
                c.assume(q == vals[n][k])
                fd[n] = q
            c.inputs.update({"fixed": dict(fd)})
            got = it.call(it.getattr(p, "get_pack_indexes"), [fd])
            grid = list(itertools.product(*[range(l) for l in lens]))      # row-major over the sorted names (a < b)
            want = [i for i, digits in enumerate(grid) if all(digits[names.index(n)] == k for n, k in zip(fixed, choice))]
            try:
                got_l = [int(x) for x in np.asarray(got).ravel()]
            except Exception:
                got_l = repr(got)
            return [Goal("indexes %s == matching combinations %s (fixed %s -> value #%s)" % (got_l, want, list(fixed), list(choice)),
                         got_l == want)]
        return verify(body, replay=_replay_lookup(names, lens, fixed, choice))
    return merge([one(f, ch) for f, ch in subsets])


def _replay_lookup(names, lens, fixed, choice):
    def rp(mv):
        from pyphysim.simulations.parameters import SimulationParameters
        try:
            d = {n: np.array([float(x) for x in mv[n]]) for n in names}
            for n in names:
                if len(set(d[n].tolist())) != len(d[n]):
                    return {"confirmed": False, "note": "model values coincide in binary64", "values": {k: v.tolist() for k, v in d.items()}}
            d["x"] = 3
            p = SimulationParameters.create(d)
            for n in names:
                p.set_unpack_parameter(n)
            fd = {n: float(d[n][k]) for n, k in zip(fixed, choice)}
            plist = p.get_unpacked_params_list()
            want = [i for i, q in enumerate(plist) if all(q[n] == v for n, v in fd.items())]
            try:
                got = [int(x) for x in p.get_pack_indexes(fd)]
            except Exception as e:
                return {"confirmed": True, "values": {n: d[n].tolist() for n in names}, "fixed": fd, "observed": "raised %r" % e,
                        "expected": want}
            return {"confirmed": got != want, "values": {n: d[n].tolist() for n in names}, "fixed": fd, "get_pack_indexes": got,
                    "matching combinations": want}
        except Exception as e:
            return {"confirmed": False, "error": repr(e)}
    return rp


PARAM_MUTATORS = ("setitem_grid", "add_grid", "setitem_fixed", "remove_unpacked", "unpack_off", "unpack_on_other")


def _param_history_native(ops):
    """the same parameter history on the real class with concrete values; -> disagreement with a freshly built object, or None"""
    from pyphysim.simulations.parameters import SimulationParameters
    p = SimulationParameters.create({"a": np.array([1.0, 2.0]), "b": np.array([10.0, 20.0, 30.0]), "c": np.array([7.0, 8.0]), "x": 3})
    p.set_unpack_parameter("a")
    p.set_unpack_parameter("b")
    cur = {"a": [1.0, 2.0], "b": [10.0, 20.0, 30.0], "c": [7.0, 8.0], "x": 3}
    unp = {"a", "b"}
    done = []
    k = 0
    for op in ops:
        p.get_unpacked_params_list()
        p.get_num_unpacked_variations()
        k += 1
        if op == "setitem_grid":
            cur["a"] = [100.0 + k, 200.0 + k, 300.0 + k]
            p["a"] = np.array(cur["a"])
        elif op == "add_grid":
            cur["b"] = [-1.0 * k, -2.0 * k]
            p.add("b", np.array(cur["b"]))
        elif op == "setitem_fixed":
            cur["x"] = 40 + k
            p["x"] = cur["x"]
        elif op == "remove_unpacked":
            if "b" not in cur:
                continue
            del cur["b"]
            unp.discard("b")
            p.remove("b")
        elif op == "unpack_off":
            if "a" not in unp:
                continue
            unp.discard("a")
            p.set_unpack_parameter("a", False)
        elif op == "unpack_on_other":
            unp.add("c")
            p.set_unpack_parameter("c")
        done.append(op)
        fresh = SimulationParameters.create({n: (np.array(v) if isinstance(v, list) else v) for n, v in cur.items()})
        for n in sorted(unp):
            fresh.set_unpack_parameter(n)
        A, B = p.get_unpacked_params_list(), fresh.get_unpacked_params_list()

        def combos(lst):
            return [{n: (np.asarray(q[n]).tolist()) for n in sorted(cur)} for q in lst]
        if combos(A) != combos(B) or p.get_num_unpacked_variations() != fresh.get_num_unpacked_variations():
            return {"confirmed": True, "history": ">".join(done), "combinations after the history": combos(A)[:6],
                    "combinations of a fresh object with the current parameters": combos(B)[:6]}
    return None


@obligation("params/unpacked_list_follows_current_parameters", params=[{"first": m} for m in PARAM_MUTATORS], timeout=300,
            desc="SimulationParameters histories: after get_unpacked_params_list()/get_num_unpacked_variations() were used, the parameters "
                 "are changed through every public mutator (item assignment, add, remove, set_unpack_parameter on/off; sequences of "
                 "length <= 2 starting with `first`) with symbolic values: the combinations returned afterwards are those of a fresh object "
                 "built from the current parameters (the runner iterates over exactly these)")
def ob_param_histories(first):
    from pyphysim.simulations.parameters import SimulationParameters
    seqs = [(first,)] + [(first, b) for b in PARAM_MUTATORS]

    def one(ops):
        def rp(model):
            try:
                return _param_history_native(ops) or {"confirmed": False, "note": "real class follows the current parameters along this history"}
            except Exception as e:
                return {"confirmed": False, "error": "replay crashed: %r" % (e,)}

        def body(c, it):
            def vec(tag, n):
                a = np.empty(n, dtype=object)
                for i in range(n):
                    a[i] = c.var("%s%d" % (tag, i), "real")
                return a
            cur = {"a": vec("a", 2), "b": vec("b", 3), "c": vec("c", 2), "x": 3}
            unp = {"a", "b"}
            p = it.call(SimulationParameters.create, [dict(cur)])
            it.call(it.getattr(p, "set_unpack_parameter"), ["a"])
            it.call(it.getattr(p, "set_unpack_parameter"), ["b"])
            goals = []
            done = []
            for k, op in enumerate(ops):
                it.call(it.getattr(p, "get_unpacked_params_list"), [])
                it.call(it.getattr(p, "get_num_unpacked_variations"), [])
                if op == "setitem_grid":
                    cur["a"] = vec("A%d_" % k, 3)
                    it.call(it.getattr(p, "__setitem__"), ["a", cur["a"]])
                elif op == "add_grid":
                    cur["b"] = vec("B%d_" % k, 2)
                    it.call(it.getattr(p, "add"), ["b", cur["b"]])
                elif op == "setitem_fixed":
                    cur["x"] = c.var("x%d" % k, "int")
                    it.call(it.getattr(p, "__setitem__"), ["x", cur["x"]])
                elif op == "remove_unpacked":
                    if "b" not in cur:
                        continue
                    del cur["b"]
                    unp.discard("b")
                    it.call(it.getattr(p, "remove"), ["b"])
                elif op == "unpack_off":
                    if "a" not in unp:
                        continue
                    unp.discard("a")
                    it.call(it.getattr(p, "set_unpack_parameter"), ["a", False])
                elif op == "unpack_on_other":
                    unp.add("c")
                    it.call(it.getattr(p, "set_unpack_parameter"), ["c"])
                done.append(op)
                fresh = it.call(SimulationParameters.create, [dict(cur)])
                for n in sorted(unp):
                    it.call(it.getattr(fresh, "set_unpack_parameter"), [n])
                A = it.call(it.getattr(p, "get_unpacked_params_list"), [])
                B = it.call(it.getattr(fresh, "get_unpacked_params_list"), [])
                tag = ">".join(done)
                goals.append(Goal("[%s] number of combinations as for a fresh object" % tag, len(A) == len(B)
                                  and it.call(it.getattr(p, "get_num_unpacked_variations"), []) == len(B)))
                if len(A) != len(B):
                    continue
                same = True
                for qa, qb in zip(A, B):
                    for n in sorted(cur):
                        va = it.call(it.getattr(qa, "__getitem__"), [n])
                        vb = it.call(it.getattr(qb, "__getitem__"), [n])
                        if isinstance(vb, np.ndarray):
                            same = same and isinstance(va, np.ndarray) and va.shape == vb.shape and all(x is y for x, y in zip(va.flat, vb.flat))
                        else:
                            same = same and (va is vb or (not sym.is_sym(va) and not sym.is_sym(vb) and va == vb))
                goals.append(Goal("[%s] every combination holds the current values, in the order of a fresh object" % tag, bool(same)))
            return goals
        return verify(body, check_side=False, replay=rp)
    return merge([one(q) for q in seqs])


# ------------------------------------------------------------------ bounded native
@obligation("native/random_runs", kind="bounded", timeout=900,
            desc="native runs: random grids (0..3 unpacked params), rep_max 1..40, random skip patterns (incl. first repetition, bursts), "
                 "_keep_going as a function of merged results and repetition index, single-variation simulate(i) with a results file, "
                 "repeated simulate() and rep_max changed between runs: executed calls, runned_reps, merged values, lookups")
def ob_native():
    import os
    import shutil
    import tempfile
    from pyphysim.simulations.runner import SimulationRunner, SkipThisOne
    from pyphysim.simulations.results import SimulationResults, Result
    r = stable_rng("C05native")

    def gen():
        for i in range(60 if quick() else 600):
            yield {"seed": int(r.randint(1 << 30)), "nparams": int(i % 4), "rep_max": int(r.randint(1, 40)),
                   "single": bool((i // 4) % 5 == 4), "stop_at": int(r.randint(0, 60)),
                   "skip_limit": [None, 1, 2, 3][(i // 2) % 4]}

    def check(case):
        rr = np.random.RandomState(case["seed"])
        names = ["a", "b", "c"][:case["nparams"]]
        grid = {n: list(range(1, rr.randint(2, 4))) for n in names}

        class R(SimulationRunner):
            def __init__(self):
                super().__init__(read_command_line_args=False)
                self.rep_max = case["rep_max"]
                for k, v in grid.items():
                    self.params.add(k, v)
                    self.params.set_unpack_parameter(k)
                self.update_progress_function_style = None
                self.log = []
                self.pattern = rr.rand(5000) < 0.3
                self.n = 0
                self.seen = {}

            def _run_simulation(self, p):
                self.n += 1
                i = max(p.unpack_index, 0)
                self.seen.setdefault(i, {n: p[n] for n in self.params.parameters if n in ("a", "b", "c")})
                if self.pattern[self.n % 5000]:
                    self.log.append((i, None))
                    raise SkipThisOne("x")
                v = int(rr.randint(1, 10))
                self.log.append((i, v))
                s = SimulationResults()
                s.add_new_result("v", Result.SUMTYPE, v)
                return s

            def _keep_going(self, p, res, rep):
                # the stop rule may read everything the runner merges: user results AND the skip count it maintains
                if case.get("skip_limit") is not None and res["num_skipped_reps"][-1].get_result() >= case["skip_limit"]:
                    return False
                return res["v"][-1].get_result() < case["stop_at"] or case["stop_at"] == 0

        def verify_run(run, log, rep_max):
            V = run.params.get_num_unpacked_variations()
            order = [i for i, _ in log]
            if order != sorted(order):
                return {"variations not in order": order[:20]}
            for i in range(V):
                succ = [v for j, v in log if j == i and v is not None]
                nsk = sum(1 for j, v in log if j == i and v is None)
                if run.runned_reps[i] != len(succ):
                    return {"runned_reps": run.runned_reps[i], "executed successfully": len(succ), "variation": i}
                acc = 0
                exp = None
                for k, v in enumerate(succ):
                    acc += v
                    if ((not (k + 1 < rep_max))) or not ((not (acc >= case["stop_at"])) or case["stop_at"] == 0):
                        exp = k + 1
                        break
                if case.get("skip_limit") is None and exp != len(succ):
                    return {"stopped at": len(succ), "expected": exp, "variation": i, "rep_max": rep_max}
                # reference loop over the recorded outcomes (None = skipped): the stop rule is evaluated before EVERY further
                # attempt, with the results and the skip count merged so far; the run must consume exactly these outcomes
                outs = [v for j, v in log if j == i]

                def kg(acc_, nsk_, rep_):
                    if case.get("skip_limit") is not None and nsk_ >= case["skip_limit"]:
                        return False
                    return acc_ < case["stop_at"] or case["stop_at"] == 0
                pos, nsk_, acc_ = 0, 0, None
                while acc_ is None and pos < len(outs):
                    if outs[pos] is None:
                        nsk_ += 1
                    else:
                        acc_ = outs[pos]
                    pos += 1
                rep_ = 1
                verdict = None
                if acc_ is None:
                    verdict = "no successful first repetition recorded"
                while verdict is None and kg(acc_, nsk_, rep_) and rep_ < rep_max:
                    if pos >= len(outs):
                        verdict = "stopped although the stop rule still held and rep_max was not reached"
                        break
                    if outs[pos] is None:
                        nsk_ += 1
                    else:
                        acc_ += outs[pos]
                        rep_ += 1
                    pos += 1
                if verdict is None and pos != len(outs):
                    verdict = "executed %d further iteration(s) after the stop rule had become false" % (len(outs) - pos)
                if verdict:
                    return {"repetition loop": verdict, "variation": i, "outcomes (None = skipped)": outs[:30], "rep_max": rep_max,
                            "stop_at": case["stop_at"], "skip_limit": case.get("skip_limit")}
                if run.results["v"][i].get_result() != sum(succ) or run.results["v"][i].num_updates != len(succ):
                    return {"merged": run.results["v"][i].get_result(), "sum": sum(succ), "variation": i}
                if run.results["num_skipped_reps"][i].get_result() != nsk:
                    return {"skipped recorded": run.results["num_skipped_reps"][i].get_result(), "skipped": nsk}
            return None
        run = R()
        V = run.params.get_num_unpacked_variations()
        if case["single"]:
            d = tempfile.mkdtemp(prefix="c05_", dir=os.path.expanduser("~"))
            cwd = os.getcwd()
            try:
                os.chdir(d)
                run.set_results_filename("res")
                idx = int(rr.randint(V))
                run.simulate(idx)
                if any(i != idx for i, _ in run.log):
                    return {"single variation run touched others": sorted(set(i for i, _ in run.log)), "requested": idx}
                succ = [v for j, v in run.log if v is not None]
                if run.runned_reps != len(succ):
                    return {"single: runned_reps": run.runned_reps, "executed": len(succ)}
            finally:
                os.chdir(cwd)
                shutil.rmtree(d, ignore_errors=True)
            return None
        run.simulate()
        bad = verify_run(run, run.log, case["rep_max"])
        if bad:
            return bad
        # second run on the same runner with another limit
        run.log = []
        run.rep_max = int(rr.randint(1, 20))
        run.simulate()
        bad = verify_run(run, run.log, run.rep_max)
        if bad:
            bad["run"] = "second simulate() after changing rep_max to %d" % run.rep_max
            return bad
        # third run on the same runner after the grid itself was replaced (item assignment or add): the combinations executed are
        # those of the CURRENT parameters
        if names:
            nm = names[int(rr.randint(len(names)))]
            newvals = [int(x) for x in (100 + np.arange(rr.randint(1, 4)))]
            if (not (rr.rand() >= 0.5)):
                run.params[nm] = newvals
            else:
                run.params.add(nm, newvals)
            run.log, run.seen = [], {}
            run.simulate()
            bad = verify_run(run, run.log, run.rep_max)
            if bad:
                bad["run"] = "third simulate() after replacing the values of %r" % nm
                return bad
            cur = dict(grid)
            cur[nm] = newvals
            want = [dict(zip(sorted(cur), combo)) for combo in itertools.product(*[cur[n] for n in sorted(cur)])]
            got = [run.seen.get(i) for i in range(len(want))]
            if len(run.seen) != len(want) or got != want:
                return {"run": "third simulate() after replacing the values of %r by %s" % (nm, newvals),
                        "combinations executed": [run.seen[k] for k in sorted(run.seen)][:8], "combinations of the current parameters": want[:8]}
        return None
    return bounded(gen(), check)
