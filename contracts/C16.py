"""C16  Theoretical error-rate curves are consistent with the emitted constellation.

Functions under contract: PSK/BPSK/QAM.calcTheoreticalSER/BER, QAM._calcTheoreticalSingleCarrierErrorRate,
Modulator.calcTheoreticalPER/calcTheoreticalSpectralEfficiency, util.misc.qfunc, conversion.dB2Linear;
the constellation comes from the real constructors (shared with C01/C15).
"""
import math

import numpy as np
import z3

from pyvc import sym
from pyvc.sym import lift
from pyvc.oblig import obligation, verify, exhaustive, bounded, Goal
from pyvc.interp import PyRaise
from .common import stable_rng, quick

LEVEL = "proof"
EXPLANATION = ("The real calcTheoretical* methods are symbolically executed for a SYMBOLIC SNR (dB) on modulators built by "
               "their real constructors; Q is uninterpreted with axioms (strictly decreasing, Q(0)=1/2, 0<Q<1) and qfunc is "
               "used through its contract (proved separately from its erfc body).  The formula is tied to the emitted "
               "constellation: the Q-argument must lie within 1e-9 (relative) of (d_min/2)*sqrt(2 snr) and the multiplicity must "
               "equal the measured neighbour structure, with d_min and the neighbour counts measured on the symbols the "
               "modulator actually emits.  Float behaviour and the PSK 'between exact and twice exact' claim are bounded checks.")
ASSUMPTIONS = [
    "ideal-real arithmetic; Q, pow10, sqrt uninterpreted with listed axioms; erfc(y)=2Q(sqrt2 y) definitional",
    "PSK bound vs exact AWGN SER (2-D Gaussian integral) is outside the solver: bounded numerical quadrature only",
    "float note: QAM 1-(1-Psc)**2 cancels to 0 above ~25 dB while BER ~1e-17; bounded float check of BER<=SER uses abs tol 1e-15 (fixed in DESIGN before building)",
]
TRUSTED_BASE = ["Q-function axioms", "scipy.special.erfc, mpmath (reference in the bounded float check)"]

QF = "pyphysim.util.misc:qfunc"
EPS = 1e-9


def _use_qfunc_contract(it):
    def q(interp, x):
        if isinstance(x, np.ndarray):
            return np.frompyfunc(lambda v: interp.ctx.uf_apply('qfunc', [lift(v)]), 1, 1)(x)
        return interp.ctx.uf_apply('qfunc', [lift(x)])
    it.contracts[QF] = q
    it.modular.add(QF)


def _Q(c, x):
    return c.uf_apply('qfunc', [lift(x)])


def _measure(symbols):
    """d_min and average number of minimum-distance neighbours of the emitted constellation (native)"""
    s = np.asarray(symbols, dtype=complex)
    if len(s) > 1024:
        from scipy.spatial import cKDTree
        pts = np.column_stack([s.real, s.imag])
        dist = cKDTree(pts).query(pts, k=9)[0][:, 1:]
        dmin = float(dist.min())
        return dmin, float((dist <= dmin * (1 + 1e-9)).sum()) / len(s), float(np.mean(np.abs(s) ** 2))
    d = np.abs(s.reshape(-1, 1) - s.reshape(1, -1))
    np.fill_diagonal(d, np.inf)
    dmin = float(d.min())
    nn = float((d <= dmin * (1 + 1e-9)).sum()) / len(s)
    energy = float(np.mean(np.abs(s) ** 2))
    return dmin, nn, energy


def _configs():
    from pyphysim.modulators import fundamental as f
    cfg = [("BPSK", lambda: f.BPSK(), ()), ("QPSK", lambda: f.QPSK(), ())]
    for M in (4, 8, 16, 64):
        cfg.append(("PSK%d" % M, (lambda M=M: f.PSK(M)), (M,)))
    cfg.append(("PSK8_off", lambda: f.PSK(8, math.pi / 8), (8, math.pi / 8)))
    for M in (4, 16, 64, 256):
        cfg.append(("QAM%d" % M, (lambda M=M: f.QAM(M)), (M,)))
    return cfg


def _mk(it, name):
    from pyphysim.modulators import fundamental as f
    for nm, _, args in _configs():
        if nm == name:
            cls = f.BPSK if nm == "BPSK" else f.QPSK if nm == "QPSK" else f.PSK if nm.startswith("PSK") else f.QAM
            return it.call(cls, list(args))
    raise KeyError(name)


def _other_objects(M, it=None, under_check="PSK"):
    """other modulators of the same cardinality, created (and re-configured) AFTER the object under check: its curves are a function
    of its own constellation only.  With `it` they are created through the interpreter, else natively."""
    from pyphysim.modulators import fundamental as f
    mk = (lambda cls, *a: it.call(cls, list(a))) if it is not None else (lambda cls, *a: cls(*a))
    out = []
    if M >= 2:
        out.append(mk(f.PSK, M))
        p2 = mk(f.PSK, M, 0.3)
        if it is not None:
            it.call(it.getattr(p2, "setPhaseOffset"), [0.1])
        else:
            p2.setPhaseOffset(0.1)
        out.append(p2)
    L = int(round(math.sqrt(M)))
    if L * L == M and M >= 4 and (M & (M - 1)) == 0:
        out.append(mk(f.QAM, M))
    if M == 2:
        out.append(mk(f.BPSK))
    if M == 4:
        out.append(mk(f.QPSK))
    if under_check == "QAM":
        # the most recently created object is of ANOTHER class than the one under check
        out.append(mk(f.PSK, M, 0.2))
    return out


def _call(it, o, meth, *args, **kw):
    return it.call(it.getattr(o, meth), list(args), kw)


@obligation("qfunc/body_is_Q", desc="qfunc(x) == Q(x) for all real x (real body 0.5*erfc(x/sqrt 2), erfc(y)=2Q(sqrt2 y))")
def ob_qfunc():
    def body(c, it):
        x = c.var("x", "real")
        c.inputs["x"] = x
        r = it.call_spec(QF, x)
        # the body divides by the binary64 value of math.sqrt(2) (not exactly sqrt 2): state the
        # contract as a 1e-15 relative band on the argument
        lo, hi = _Q(c, x * (1 + 1e-15)), _Q(c, x * (1 - 1e-15))
        return [Goal("x>=0: Q(x(1+e)) <= qfunc(x) <= Q(x(1-e))", sym.SBool(z3.Implies((x >= 0).t, ((r >= lo) & (r <= hi)).t))),
                Goal("x<0: Q(x(1-e)) <= qfunc(x) <= Q(x(1+e))", sym.SBool(z3.Implies((x < 0).t, ((r >= hi) & (r <= lo)).t)))]
    return verify(body)


@obligation("curves/contract", params=[{"mod": nm} for nm, _, _ in _configs()], timeout=600,
            desc="per modulator, symbolic SNR_dB s<=s2: SER,BER in [0,1]; non-increasing in SNR; BER<=SER<=log2(M)*BER; SER equals "
                 "the value implied by d_min / neighbour structure of the EMITTED constellation (eps-band on the Q argument)")
def ob_curves(mod):
    def body(c, it):
        _use_qfunc_contract(it)
        o = _mk(it, mod)
        symbols = it.getattr(o, "symbols")
        M = len(symbols)
        dmin, nn, energy = _measure(symbols)
        _other_objects(M, it, "QAM" if mod.startswith("QAM") else "PSK")              # history: other modulators of the same size exist and were re-configured meanwhile
        k = int(round(math.log2(M)))
        s, s2 = c.var("s", "real"), c.var("s2", "real")
        c.inputs.update(s=s, s2=s2)
        c.assume(s <= s2)
        goals = [Goal("emitted constellation has unit mean energy (native)", abs(energy - 1) < 1e-12)]
        ser, ber = _call(it, o, "calcTheoreticalSER", s), _call(it, o, "calcTheoreticalBER", s)
        ser2, ber2 = _call(it, o, "calcTheoreticalSER", s2), _call(it, o, "calcTheoreticalBER", s2)
        goals.append(Goal("SER in [0,1]", (ser >= 0) & (ser <= 1)))
        goals.append(Goal("BER in [0,1]", (ber >= 0) & (ber <= 1)))
        goals.append(Goal("SER non-increasing", ser2 <= ser))
        goals.append(Goal("BER non-increasing", ber2 <= ber))
        goals.append(Goal("BER <= SER", ber <= ser))
        # BER is computed as (1.0/k)*SER with the binary64 value of 1/k: 1e-12 relative slack
        goals.append(Goal("SER <= log2(M) BER (1e-12 rel)", ser <= k * ber * (1 + 1e-12)))
        # tie to the emitted constellation
        snr = (s / 10.0).pow10()
        base = (2.0 * snr).sqrt()
        lo, hi = _Q(c, base * (dmin / 2 * (1 + EPS))), _Q(c, base * (dmin / 2 * (1 - EPS)))
        if mod == "BPSK":
            goals.append(Goal("SER within eps-band of Q(dmin/2 sqrt(2snr))", (ser >= lo) & (ser <= hi)))
            goals.append(Goal("BPSK: one nearest neighbour", nn == 1.0))
        elif mod.startswith("PSK") or mod == "QPSK":
            goals.append(Goal("SER within eps-band of 2Q(dmin/2 sqrt(2snr))", (ser >= 2 * lo) & (ser <= 2 * hi)))
            goals.append(Goal("PSK: two nearest neighbours", nn == 2.0 or M == 2))
        else:
            L = int(round(math.sqrt(M)))
            per_axis = nn / 2.0
            goals.append(Goal("QAM: neighbour multiplicity per axis is 2(1-1/L)", abs(per_axis - 2 * (1 - 1.0 / L)) < 1e-12))
            psc = _call(it, o, "_calcTheoreticalSingleCarrierErrorRate", s)
            goals.append(Goal("Psc within eps-band of mult*Q(dmin/2 sqrt(2snr))",
                              (psc >= per_axis * lo * (1 - EPS)) & (psc <= per_axis * hi * (1 + EPS))))
            goals.append(Goal("SER == 1-(1-Psc)^2", ser == 1 - (1 - psc) * (1 - psc)))
            goals.append(Goal("BER == 2 Psc / k", ber * k == 2 * psc))
        return goals

    def rp(mv):
        from pyphysim.modulators import fundamental as f
        o = dict((nm, mk) for nm, mk, _ in _configs())[mod]()
        _other_objects(len(o.symbols), None, "QAM" if mod.startswith("QAM") else "PSK")
        s, s2 = float(mv.get("s", 0)), float(mv.get("s2", 1))
        s, s2 = max(min(s, 60), -30), max(min(s2, 60), -30)
        dmin, nn, energy = _measure(o.symbols)
        ser = float(o.calcTheoreticalSER(s))
        from scipy.special import erfc
        q = 0.5 * erfc((dmin / 2) * math.sqrt(2 * 10 ** (s / 10)) / math.sqrt(2))
        if mod == "BPSK":
            want = q
        elif "QAM" in mod:
            p = (nn / 2) * q
            want = 1 - (1 - p) ** 2
        else:
            want = 2 * q
        bad = abs(energy - 1) > 1e-9 or abs(ser - want) > 1e-6 * max(want, 1e-300) + 1e-15
        return {"confirmed": bool(bad), "SNR_dB": s, "SER": ser, "implied_by_emitted_constellation": want,
                "energy": energy, "dmin": dmin}
    return verify(body, replay=rp, timeout_ms=60000)


@obligation("per_se/contract", params=[{"mod": nm, "L": L} for nm in ("BPSK", "PSK8", "QAM16") for L in (1, 2, 7)] +
            [{"mod": nm, "L": "sym"} for nm in ("BPSK", "PSK8", "QAM16")], timeout=600,
            desc="PER == 1-(1-BER)^L in [0,1], non-increasing in SNR; spectral efficiency == log2(M)(1-PER) (and log2(M)(1-BER) "
                 "without packet length); L concrete 1,2,7 and symbolic integer L>=1")
def ob_per(mod, L):
    def body(c, it):
        _use_qfunc_contract(it)
        o = _mk(it, mod)
        M = len(it.getattr(o, "symbols"))
        k = int(round(math.log2(M)))
        s, s2 = c.var("s", "real"), c.var("s2", "real")
        c.inputs.update(s=s, s2=s2)
        c.assume(s <= s2)
        if L == "sym":
            Lv = c.var("L", "int")
            c.inputs["L"] = Lv
            c.assume(Lv >= 1)
        else:
            Lv = L
        ber, ber2 = _call(it, o, "calcTheoreticalBER", s), _call(it, o, "calcTheoreticalBER", s2)
        per, per2 = _call(it, o, "calcTheoreticalPER", s, Lv), _call(it, o, "calcTheoreticalPER", s2, Lv)
        goals = [Goal("PER == 1-(1-BER)^L", per == 1 - (1 - ber) ** Lv),
                 Goal("PER in [0,1]", (per >= 0) & (per <= 1)),
                 Goal("PER non-increasing in SNR", per2 <= per),
                 Goal("BER <= PER", ber <= per)]
        se = _call(it, o, "calcTheoreticalSpectralEfficiency", s, Lv)
        se0 = _call(it, o, "calcTheoreticalSpectralEfficiency", s)
        K = it.getattr(o, "K")
        goals.append(Goal("K == log2(M)", K == k))
        goals.append(Goal("SE == log2(M)(1-PER)", se == k * (1 - per)))
        goals.append(Goal("SE without packet length == log2(M)(1-BER)", se0 == k * (1 - ber)))
        goals.append(Goal("0 <= SE <= log2(M)", (se >= 0) & (se <= k)))
        return goals
    return verify(body, timeout_ms=60000)


@obligation("curves/array_snr", desc="array SNR (shape (2,)) gives element-wise the scalar values (BPSK, PSK8, QAM16)")
def ob_array():
    def body(c, it):
        _use_qfunc_contract(it)
        goals = []
        for mod in ("BPSK", "PSK8", "QAM16"):
            o = _mk(it, mod)
            s = np.empty(2, dtype=object)
            s[0], s[1] = c.var("s0", "real"), c.var("s1", "real")
            for meth in ("calcTheoreticalSER", "calcTheoreticalBER"):
                arr = _call(it, o, meth, s)
                ok = isinstance(arr, np.ndarray) and arr.shape == (2,)
                goals.append(Goal("%s %s shape" % (mod, meth), ok))
                if ok:
                    for i in range(2):
                        goals.append(Goal("%s %s[%d]" % (mod, meth, i), lift(arr[i]) == _call(it, o, meth, s[i])))
        return goals
    return verify(body)


@obligation("curves/pure_function_of_current_snr", params=[{"mod": m} for m in ("BPSK", "QPSK", "PSK8", "QAM16", "QAM64")], timeout=300,
            desc="history + frame: the curves are a function of the SNR values passed NOW - the same object asked again after the caller "
                 "changed its SNR array IN PLACE (and after calls with other values) returns element-wise what a fresh object returns; "
                 "earlier results keep their values; the caller's array is not modified")
def ob_pure(mod):
    def body(c, it):
        _use_qfunc_contract(it)
        o, fresh = _mk(it, mod), _mk(it, mod)
        goals = []
        s = np.empty(2, dtype=object)
        a0, a1, b0, b1 = (c.var(n, "real") for n in ("a0", "a1", "b0", "b1"))
        c.inputs.update(first_snr_dB=[a0, a1], second_snr_dB=[b0, b1])
        for meth, extra in (("calcTheoreticalSER", ()), ("calcTheoreticalBER", ()), ("calcTheoreticalSpectralEfficiency", ()),
                            ("calcTheoreticalPER", (3,)), ("calcTheoreticalSpectralEfficiency", (3,))):
            s[0], s[1] = a0, a1
            r1 = _call(it, o, meth, s, *extra)
            ok = isinstance(r1, np.ndarray) and r1.shape == (2,)
            goals.append(Goal("%s%s first call shape" % (meth, extra), ok))
            if not ok:
                continue
            first = [r1[0], r1[1]]
            goals.append(Goal("%s: caller's array untouched" % meth, s[0] is a0 and s[1] is a1))
            s[0], s[1] = b0, b1                       # the caller's in-place update (e.g. snr += step)
            r2 = _call(it, o, meth, s, *extra)
            ok = isinstance(r2, np.ndarray) and r2.shape == (2,)
            goals.append(Goal("%s second call shape" % meth, ok))
            if not ok:
                continue
            for i, (old, new) in enumerate(((a0, b0), (a1, b1))):
                goals.append(Goal("%s[%d] after in-place change == fresh object's value for the new SNR" % (meth, i),
                                  lift(r2[i]) == _call(it, fresh, meth, new, *extra)))
                goals.append(Goal("%s[%d] of the first call == fresh object's value for the old SNR" % (meth, i),
                                  lift(first[i]) == _call(it, fresh, meth, old, *extra)))
            # scalar after array, and the same scalar twice
            goals.append(Goal("%s scalar after array" % meth, lift(_call(it, o, meth, a1, *extra)) == _call(it, fresh, meth, a1, *extra)))
            goals.append(Goal("%s other scalar" % meth, lift(_call(it, o, meth, b0, *extra)) == _call(it, fresh, meth, b0, *extra)))
        return goals

    def replay(mv):
        try:
            mk = [f for nm, f, _ in _configs() if nm == mod][0]
            A = [max(-30.0, min(40.0, float(x))) for x in mv["first_snr_dB"]]
            B = [max(-30.0, min(40.0, float(x))) for x in mv["second_snr_dB"]]
            if A == B:
                B = [A[0] + 3.0, A[1] - 5.0]
            out = {"first_snr_dB": A, "second_snr_dB (same array, changed in place)": B}
            bad = False
            for meth, extra in (("calcTheoreticalSER", ()), ("calcTheoreticalBER", ()), ("calcTheoreticalSpectralEfficiency", ()),
                                ("calcTheoreticalPER", (3,)), ("calcTheoreticalSpectralEfficiency", (3,))):
                o = mk()
                arr = np.array(A)
                r1 = np.array(getattr(o, meth)(arr, *extra), dtype=float).copy()
                arr[:] = B
                r2 = np.array(getattr(o, meth)(arr, *extra), dtype=float)
                want1 = np.array(getattr(mk(), meth)(np.array(A), *extra), dtype=float)
                want2 = np.array(getattr(mk(), meth)(np.array(B), *extra), dtype=float)
                out[meth + str(extra)] = {"second call": r2.tolist(), "fresh object": want2.tolist()}
                bad = bad or not np.allclose(r2, want2, rtol=1e-12, atol=0) or not np.allclose(r1, want1, rtol=1e-12, atol=0)
            out["confirmed"] = bool(bad)
            return out
        except Exception as e:
            return {"confirmed": False, "error": repr(e)}
    return verify(body, replay=replay)


# ------------------------------------------------------------------ bounded / float
@obligation("modulator/rejected_reconfiguration_is_atomic", kind="exhaustive",
            desc="exceptional postcondition: for every modulator class (BPSK, QPSK, PSK 4/8/16, QAM 4/16/64) and a family of re-configuration "
                 "calls a caller may get wrong (setConstellation with 3 / 6 / 9 / 0 points, with a list, with a 2-D table; setPhaseOffset with a "
                 "string / None / an array of the wrong size): IF the call raises, the modulator is exactly as before - M, K, the emitted "
                 "symbols and the SER / BER / PER / spectral-efficiency curves at several SNRs; IF it is accepted, M and K are those of the "
                 "emitted table (M == number of symbols, 2^K == M when K is an integer)")
def ob_rejected_reconfiguration():
    from pyphysim.modulators import fundamental as f
    mods = [("BPSK", lambda: f.BPSK()), ("QPSK", lambda: f.QPSK()), ("PSK4", lambda: f.PSK(4)), ("PSK8", lambda: f.PSK(8, 0.2)),
            ("PSK16", lambda: f.PSK(16)), ("QAM4", lambda: f.QAM(4)), ("QAM16", lambda: f.QAM(16)), ("QAM64", lambda: f.QAM(64))]
    ring = lambda n: np.exp(2j * np.pi * np.arange(n) / n)
    calls = [("setConstellation", ring(3)), ("setConstellation", ring(6)), ("setConstellation", (np.arange(9) % 3 + 1j * (np.arange(9) // 3)) / 2.0),
             ("setConstellation", np.array([], dtype=complex)), ("setConstellation", [1 + 0j, -1 + 0j]), ("setConstellation", ring(8).reshape(2, 4)),
             ("setConstellation", None), ("setPhaseOffset", "pi/4"), ("setPhaseOffset", None), ("setPhaseOffset", np.array([0.1, 0.2, 0.3]))]

    def cases():
        for name, _ in mods:
            for i in range(len(calls)):
                yield {"modulator": name, "call": i}

    def snapshot(o):
        snr = np.array([-3.0, 0.0, 4.0, 9.0, 15.0])
        lin = 10 ** (snr / 10)
        out = {"M": o.M, "K": o.K, "symbols": np.array(o.symbols, dtype=complex, copy=True)}
        for nm, fn in (("SER", lambda: o.calcTheoreticalSER(lin)), ("BER", lambda: o.calcTheoreticalBER(lin)),
                       ("PER", lambda: o.calcTheoreticalPER(lin, 24)), ("SE", lambda: o.calcTheoreticalSpectralEfficiency(lin, 24)),
                       ("emitted", lambda: o.modulate(np.arange(o.M)))):
            try:
                out[nm] = np.array(fn(), dtype=complex)
            except Exception as e:
                out[nm] = "raises " + type(e).__name__
        return out

    def same(a, b):
        for k in a:
            x, y = a[k], b[k]
            if isinstance(x, np.ndarray) or isinstance(y, np.ndarray):
                if not (isinstance(x, np.ndarray) and isinstance(y, np.ndarray) and x.shape == y.shape and np.array_equal(x, y)):
                    return k
            elif x != y:
                return k
        return None

    def check(case):
        o = dict(mods)[case["modulator"]]()
        meth, arg = calls[case["call"]]
        if not hasattr(o, meth):
            return None
        before = snapshot(o)
        import warnings
        try:
            with warnings.catch_warnings():
                warnings.simplefilter("ignore")
                with np.errstate(all="ignore"):
                    getattr(o, meth)(arg)
            raised = None
        except Exception as e:
            raised = e
        if raised is not None:
            diff = same(before, snapshot(o))
            if diff is not None:
                return {"call": "%s(%s)" % (meth, repr(arg)[:60]), "raised": repr(raised)[:100],
                        "but changed": diff, "before": repr(before[diff])[:120], "after": repr(snapshot(o)[diff])[:120]}
            return None
        n = int(np.size(o.symbols))
        if o.M != n:
            return {"call": "%s(%s)" % (meth, repr(arg)[:60]), "accepted, but M": o.M, "number of emitted symbols": n}
        return None
    return exhaustive(cases(), check)


@obligation("float/reference_grid", kind="bounded", timeout=900,
            desc="binary64 behaviour on SNR grid -30..60 dB step 0.5 for all modulators/orders: SER equals the value implied by "
                 "the emitted constellation computed with a high-precision Q (rel 1e-9, also in the far tail), ranges, "
                 "monotone, BER<=SER<=kBER (abs tol 1e-15), PER/SE identities, tends to 0 (SER(60dB) < 1e-6 for M<=64)")
def ob_float_grid():
    import mpmath
    from pyphysim.modulators import fundamental as f
    mpmath.mp.dps = 40

    def Qref(x):
        return float(mpmath.erfc(mpmath.mpf(x) / mpmath.sqrt(2)) / 2)

    def gen():
        yield {"mod": "BPSK", "args": []}
        yield {"mod": "QPSK", "args": []}
        for k in range(1, 11 if not quick() else 8):
            yield {"mod": "PSK", "args": [2**k]}
        yield {"mod": "PSK", "args": [8, math.pi / 8]}
        yield {"mod": "PSK", "args": [16, 0.3]}
        for k in range(1, 7 if not quick() else 6):
            yield {"mod": "QAM", "args": [4**k]}

    def check(case):
        o = getattr(f, case["mod"])(*case["args"])
        M = len(o.symbols)
        k = int(round(math.log2(M)))
        if M != (case["args"][0] if case["args"] else {"BPSK": 2, "QPSK": 4}[case["mod"]]):
            return {"emitted points": M, "order": case["args"]}
        dmin, nn, energy = _measure(o.symbols)
        if (not (dmin > 0)):
            return {"coinciding constellation points, minimum distance": dmin}
        before = np.asarray(o.calcTheoreticalSER(np.arange(-30, 60.25, 0.5)), dtype=float)
        _other_objects(M, None, case["mod"])                  # other modulators of the same size created / re-configured meanwhile
        if not np.array_equal(before, np.asarray(o.calcTheoreticalSER(np.arange(-30, 60.25, 0.5)), dtype=float)):
            return {"SER curve of this object changed when other modulators of the same cardinality were created": M}
        if (not (abs(energy - 1) <= 1e-9)):
            return {"energy": energy}
        grid = np.arange(-30, 60.25, 0.5)
        ser = np.asarray(o.calcTheoreticalSER(grid), dtype=float)
        ber = np.asarray(o.calcTheoreticalBER(grid), dtype=float)
        if (not (ser.min() >= 0)) or (not (ser.max() <= 1)) or (not (ber.min() >= 0)) or (not (ber.max() <= 1)):
            return {"range": [float(ser.min()), float(ser.max()), float(ber.min()), float(ber.max())]}
        if np.any(np.diff(ser) > 1e-15) or np.any(np.diff(ber) > 1e-15):
            return {"not monotone": True}
        if np.any(ber > ser + 1e-15) or np.any(ser > k * ber + 1e-15):
            i = int(np.argmax((ber > ser + 1e-15) | (ser > k * ber + 1e-15)))
            return {"BER<=SER<=kBER violated at dB": float(grid[i]), "ser": float(ser[i]), "ber": float(ber[i])}
        for i in range(0, len(grid), 3):
            snr = 10 ** (grid[i] / 10)
            q = Qref((dmin / 2) * math.sqrt(2 * snr))
            if case["mod"] == "BPSK":
                want = q
            elif case["mod"] == "QAM":
                p = (nn / 2) * q
                want = 1 - (1 - p) ** 2 if (not (p <= 1e-8)) else 2 * p - p * p
                # the code's own 1-(1-Psc)**2 loses the tail below ~1e-16 (documented float note): compare Psc instead
                got_p = float(o._calcTheoreticalSingleCarrierErrorRate(float(grid[i])))
                if (not (abs(got_p - p) <= 1e-9 * p + 1e-300)):
                    return {"SNR_dB": float(grid[i]), "Psc": got_p, "implied": p}
                continue
            else:
                want = 2 * q
            if (not (abs(ser[i] - want) <= 1e-9 * want + 1e-300)):
                return {"SNR_dB": float(grid[i]), "SER": float(ser[i]), "implied_by_constellation": want}
        if M <= 64 and (not (ser[-1] <= 1e-6)):
            return {"SER at 60 dB": float(ser[-1])}
        for L in (1, 3, 120):
            per = np.asarray(o.calcTheoreticalPER(grid, L), dtype=float)
            if (not (np.abs(per - (1 - (1 - ber) ** L)).max() <= 1e-15)) or (not (per.min() >= 0)) or (not (per.max() <= 1)):
                return {"PER identity": L}
            se = np.asarray(o.calcTheoreticalSpectralEfficiency(grid, L), dtype=float)
            if (not (np.abs(se - k * (1 - per)).max() <= 1e-12)):
                return {"SE identity": L}
        # scalar == array
        for x in (-30.0, 0.0, 7.5, 60.0):
            if (not (abs(float(o.calcTheoreticalSER(x)) - float(o.calcTheoreticalSER(np.array([x]))[0])) <= 1e-15)):
                return {"scalar vs array": x}
        return None
    return bounded(gen(), check)


@obligation("float/psk_bound_vs_exact", kind="bounded", timeout=900,
            desc="PSK M=4..64: the two-neighbour bound lies between the exact AWGN SER (numerical quadrature of the angular "
                 "density) and twice it, SNR grid -30..30 dB (above, both underflow)")
def ob_psk_exact():
    from scipy import integrate
    from pyphysim.modulators import fundamental as f

    def exact_ser(M, snr):
        # Ps = (1/pi) int_0^{pi - pi/M} exp(-snr sin^2(pi/M)/sin^2(theta)) dtheta   (Craig's form)
        a = snr * math.sin(math.pi / M) ** 2
        val, _ = integrate.quad(lambda t: math.exp(-a / math.sin(t) ** 2), 1e-12, math.pi - math.pi / M, limit=400,
                                epsabs=0, epsrel=1e-10, points=[math.pi / 2])
        return val / math.pi

    def gen():
        for M in (4, 8, 16, 32, 64):
            for s in range(-30, 31, 5 if quick() else 2):
                yield {"M": M, "SNR_dB": float(s)}

    def check(case):
        o = f.PSK(case["M"])
        b = float(o.calcTheoreticalSER(case["SNR_dB"]))
        e = exact_ser(case["M"], 10 ** (case["SNR_dB"] / 10))
        if (not (e >= 1e-12)):
            return None          # quadrature is not trustworthy deeper in the tail
        if not (e * (1 - 1e-6) <= b <= 2 * e * (1 + 1e-6)):
            return {"bound": b, "exact": e}
        return None
    return bounded(gen(), check)
