"""C12  Water-filling returns the capacity-optimal power allocation.

Function under contract: pyphysim.comm.waterfilling:doWF  (real source, all gains/power/noise/Es symbolic positive reals).
"""
import itertools
import math

import numpy as np
import z3

from pyvc import sym
from pyvc.sym import lift
from pyvc.oblig import obligation, verify, bounded, Goal
from pyvc.interp import PyRaise
from .common import stable_rng, quick

LEVEL = "proof"
EXPLANATION = ("doWF is symbolically executed for every channel count N in the stated range with ALL gains, total power, noise "
               "variance and symbol energy symbolic positive reals: the sort is executed by the real numpy argsort on symbolic "
               "values (one path per ordering), the removal loop is unrolled completely (bound = N). Discharged per path: "
               "P>=0, sum P = Pt, P_i = max(0, mu - noise/(Es g_i)) for the RETURNED mu (KKT structure), and permutation "
               "equivariance.  Bounded in N, unbounded in values.  Optimality follows from the KKT structure by lemma L-KKT "
               "(concavity; machine-checked for every N in Lean 4 + Mathlib, lemmas/WaterFillingKKT.lean, thorough tier; an assumed lemma "
               "in the quick tier); a bounded native check compares against perturbed allocations.")
ASSUMPTIONS = [
    "ideal-real arithmetic (the loop test sum(Ps) > dPt is a float comparison in the real code)",
    "lemma L-KKT: a feasible allocation with the water-filling (KKT) structure maximises sum log2(1+g Es p/noise) over all "
    "non-negative allocations of the same total power: proved for all N in Lean 4 + Mathlib in the thorough tier "
    "(lemma/kkt_structure_implies_capacity_optimal_lean); assumed in the quick tier",
    "N bounded: quick 1..4, thorough 1..5; larger N only in the bounded native check (N <= 60)",
]
TRUSTED_BASE = ["numpy argsort / fancy indexing executed natively on object arrays"]
BOUNDS = {"N_quick": [1, 4], "N_thorough": [1, 5], "native_N": 60,
          "representations": "float32/int64/int32/uint8 arrays, strided and reversed views, int / numpy-scalar Pt, noise, Es on 8 gain vectors x 5 budgets"}
DOWF = "pyphysim.comm.waterfilling:doWF"


def _inputs(c, N, tag=""):
    g = np.empty(N, dtype=object)
    for i in range(N):
        g[i] = c.var("g%s%d" % (tag, i), "real")
        c.assume(g[i] > 0)
    Pt, nv, Es = c.var("Pt", "real"), c.var("noise", "real"), c.var("Es", "real")
    c.assume((Pt > 0) & (nv > 0) & (Es > 0))
    c.inputs.update(g=g, Pt=Pt, noise=nv, Es=Es)
    return g, Pt, nv, Es


def _replay(mv):
    from pyphysim.comm.waterfilling import doWF
    try:
        g = np.array([float(x) for x in mv["g"]])
        Pt, nv, Es = float(mv["Pt"]), float(mv["noise"]), float(mv["Es"])
        P, mu = doWF(g, Pt, nv, Es)
        want = np.maximum(0, mu - nv / (Es * g))
        bad = (P.min() < -1e-9 * Pt) or abs(P.sum() - Pt) > 1e-9 * Pt or np.abs(P - want).max() > 1e-9 * max(Pt, 1)
        return {"confirmed": bool(bad), "gains": g.tolist(), "Pt": Pt, "noise": nv, "Es": Es,
                "P": P.tolist(), "mu": float(mu), "max(0,mu-noise/(Es g))": want.tolist()}
    except (IndexError, ValueError, ZeroDivisionError, FloatingPointError) as e:
        return {"confirmed": True, "gains": mv.get("g"), "Pt": mv.get("Pt"), "noise": mv.get("noise"), "Es": mv.get("Es"),
                "observed": "doWF raised %r" % e}
    except Exception as e:
        return {"confirmed": False, "error": repr(e)}


@obligation("kkt_structure", params=[{"N": n, "_tiers": ("quick", "thorough") if n <= 4 else ("thorough",)} for n in range(1, 6)],
            timeout=3000,
            desc="for all positive gains/Pt/noise/Es: P>=0, sum(P)==Pt, P_i == max(0, mu - noise/(Es*g_i)) with the returned mu")
def ob_kkt(N):
    def body(c, it):
        g, Pt, nv, Es = _inputs(c, N)
        P, mu = it.call_spec(DOWF, g, Pt, nv, Es)
        goals = []
        if not (isinstance(P, np.ndarray) and P.shape == (N,)):
            return [Goal("allocation has one entry per channel", False)]
        tot = 0
        conj_nonneg, conj_level = [], []
        for i in range(N):
            p = lift(P[i])
            tot = tot + p
            conj_nonneg.append((p >= 0).t)
            lvl = mu - nv / (Es * g[i])
            conj_level.append((p == sym.ite(lvl > 0, lvl, 0)).t)
        goals.append(Goal("P >= 0", sym.SBool(z3.And(conj_nonneg))))
        goals.append(Goal("sum P == Pt", tot == Pt))
        goals.append(Goal("P_i == max(0, mu - noise/(Es g_i))", sym.SBool(z3.And(conj_level))))
        return goals
    return verify(body, replay=_replay, timeout_ms=60000, max_paths=20000)


@obligation("permutation_equivariance", params=[{"N": n, "_tiers": ("quick", "thorough") if n <= 3 else ("thorough",)} for n in range(2, 5)],
            timeout=3000,
            desc="doWF(perm(g)) == perm(doWF(g)) (allocation and level) for the generators of S_N (adjacent swap, rotation)")
def ob_perm(N):
    def body(c, it):
        g, Pt, nv, Es = _inputs(c, N)
        P, mu = it.call_spec(DOWF, g, Pt, nv, Es)
        goals = []
        perms = [list(range(1, N)) + [0]]
        if N > 2:
            perms.append([1, 0] + list(range(2, N)))
        for pm in perms:
            g2 = np.empty(N, dtype=object)
            for i in range(N):
                g2[i] = g[pm[i]]
            P2, mu2 = it.call_spec(DOWF, g2, Pt, nv, Es)
            conj = [(lift(P2[i]) == lift(P[pm[i]])).t for i in range(N)]
            goals.append(Goal("allocation permuted identically %s" % pm, sym.SBool(z3.And(conj))))
            goals.append(Goal("same level %s" % pm, mu2 == mu))
        return goals
    return verify(body, timeout_ms=60000, max_paths=50000)


def _reference_wf(g, Pt, nv, Es):
    a = nv / (Es * g)
    lo, hi = a.min(), a.max() + Pt
    for _ in range(200):
        mid = (lo + hi) / 2
        if np.maximum(0, mid - a).sum() > Pt:
            hi = mid
        else:
            lo = mid
    mu = (lo + hi) / 2
    return np.maximum(0, mu - a), mu


@obligation("native/reference_and_optimality", kind="bounded", timeout=900,
            desc="binary64: random gains spanning up to 12 decades, N<=60, equal gains (also with a water level up to 1e17 times the budget), Es != 1: agrees with an independent "
                 "bisection water-filling (rel 1e-9), KKT structure with the returned mu, permutation equivariance, and no "
                 "feasible perturbation improves sum log2(1+g Es p/noise)")
def ob_native():
    from pyphysim.comm.waterfilling import doWF
    r = stable_rng("C12native")

    def gen():
        n = 150 if quick() else 3000
        for i in range(n):
            N = int(r.choice([1, 2, 3, 4, 5, 8, 16, 60]))
            span = float(r.choice([0.5, 2, 6, 12]))
            g = 10 ** r.uniform(-span / 2, span / 2, N)
            if i % 7 == 0 and N > 2:
                g[1] = g[0]
                g[-1] = g[0]
            if i % 11 == 5:
                # the water level dwarfs the budget (noise/(Es g) up to 1e17 times the total power) while several channels stay in use:
                # the budget must still be met to 1e-9 relative - it is the quantity the result is computed FROM, not a small
                # difference of large numbers
                t = 10 ** r.uniform(-12, -8)
                g = np.full(N, t)
                yield {"g": g.tolist(), "Pt": float(10 ** r.uniform(-1, 1)), "noise": float(10 ** r.uniform(2, 5)),
                       "Es": float(r.choice([1.0, 0.5, 2.0])), "seed": int(r.randint(1 << 30)), "extreme": True}
                continue
            yield {"g": g.tolist(), "Pt": float(10 ** r.uniform(-3, 3)), "noise": float(10 ** r.uniform(-3, 1)),
                   "Es": float(r.choice([1.0, 0.5, 2.0, 10 ** r.uniform(-2, 2)])), "seed": int(r.randint(1 << 30))}

    def cap(g, Es, nv, p):
        return float(np.sum(np.log2(1 + g * Es * p / nv)))

    def check(case):
        g = np.array(case["g"])
        Pt, nv, Es = case["Pt"], case["noise"], case["Es"]
        P, mu = doWF(g, Pt, nv, Es)
        tol = 1e-9 * max(Pt, 1.0)
        if P.shape != g.shape:
            return {"shape": list(P.shape)}
        if (not (P.min() >= -tol)):
            return {"negative power": float(P.min())}
        if (not (abs(P.sum() - Pt) <= 1e-9 * Pt)):
            return {"sum": float(P.sum()), "Pt": Pt}
        want = np.maximum(0, mu - nv / (Es * g))
        if (not (np.abs(P - want).max() <= tol + 1e-9 * abs(mu))):
            return {"P": P.tolist(), "max(0,mu-noise/(Es g))": want.tolist(), "mu": float(mu)}
        if case.get("extreme"):
            # equal gains: by symmetry the optimum is Pt/N each (the bisection reference cannot resolve a water level of 1e15)
            if (not (np.abs(P - Pt / len(g)).max() <= 1e-9 * Pt)):
                return {"P": P.tolist(), "equal gains, expected each": Pt / len(g)}
            return None
        Pr, mur = _reference_wf(g, Pt, nv, Es)
        if (not (np.abs(P - Pr).max() <= 1e-7 * max(Pt, 1.0))):
            return {"P": P.tolist(), "reference": Pr.tolist()}
        rr = np.random.RandomState(case["seed"])
        perm = rr.permutation(len(g))
        P2, mu2 = doWF(g[perm], Pt, nv, Es)
        if (not (np.abs(P2 - P[perm]).max() <= tol)) or (not (abs(mu2 - mu) <= 1e-9 * abs(mu))):
            return {"permutation": perm.tolist(), "P2": P2.tolist(), "P[perm]": P[perm].tolist()}
        # the returned allocation belongs to the caller: using it up in place (a receiver normalises it, takes square roots, ...) and
        # asking again for the same problem gives the same answer as the first time; the gain array is not touched either
        keepP, keepg = P.copy(), g.copy()
        Pa, mua = doWF(g, Pt, nv, Es)
        np.sqrt(np.abs(Pa), out=Pa)
        Pa *= 3.0
        Pb, mub = doWF(g, Pt, nv, Es)
        Pb[...] = -1.0
        Pc, muc = doWF(g.copy(), Pt, nv, Es)
        if (not np.array_equal(Pc, keepP)) or (not (muc == mu)) or (not np.array_equal(P, keepP)) or (not np.array_equal(g, keepg)):
            return {"a result used up in place by the caller changed a later answer / an earlier result": True,
                    "first": keepP.tolist(), "first array now": P.tolist(), "asked again": Pc.tolist()}
        c0 = cap(g, Es, nv, P)
        for _ in range(20):
            if len(g) < 2:
                break
            i, j = rr.choice(len(g), 2, replace=False)
            d = min(P[i], Pt * 1e-3 * rr.rand())
            q = P.copy()
            q[i] -= d
            q[j] += d
            if (not (cap(g, Es, nv, q) <= c0 * (1 + 1e-12) + 1e-12)):
                return {"better allocation": q.tolist(), "P": P.tolist(), "capacity": [c0, cap(g, Es, nv, q)]}
        return None
    return bounded(gen(), check)


@obligation("native/input_representation_independent", kind="exhaustive", timeout=300,
            desc="the ideal-real proof treats a gain as a number: on the real code the result must not depend on HOW the same numbers are "
                 "stored - every gain vector of a fixed set (integer-valued and dyadic gains, so each representation is exact) as "
                 "float64 / float32 / int64 / int32 / uint8 arrays, non-contiguous views, and with int / numpy-scalar Pt, noise, Es: "
                 "same allocation and water level as the float64 call (1e-12; 1e-5 where an operand is float32)")
def ob_representation():
    from pyphysim.comm.waterfilling import doWF
    vectors = [[9, 4, 2, 1], [1], [3, 3], [1, 2, 4, 8, 16], [16, 1], [2, 2, 2, 1], [0.5, 0.25, 8.0], [5, 1, 1, 7, 3, 2]]
    budgets = [(2, 1, 1), (0.3, 1, 4), (10, 2, 1), (1, 0.5, 2), (100, 1, 1)]

    def cases():
        for g in vectors:
            for (Pt, nv, Es) in budgets:
                for rep in ("float32", "int64", "int32", "uint8", "strided", "reversed_view", "scalar_types", "np_scalars"):
                    if rep in ("int64", "int32", "uint8") and any(float(x) != int(x) for x in g):
                        continue
                    yield {"g": g, "Pt": Pt, "noise": nv, "Es": Es, "rep": rep}

    def check(case):
        g64 = np.array(case["g"], dtype=np.float64)
        Pt, nv, Es = case["Pt"], case["noise"], case["Es"]
        ref_P, ref_mu = doWF(g64.copy(), float(Pt), float(nv), float(Es))
        rep = case["rep"]
        a, b, d = float(Pt), float(nv), float(Es)
        if rep in ("float32", "int64", "int32", "uint8"):
            g = g64.astype(rep)
        elif rep == "strided":
            buf = np.zeros(2 * len(g64))
            buf[::2] = g64
            g = buf[::2]
        elif rep == "reversed_view":
            g = g64[::-1].copy()[::-1]
        elif rep == "scalar_types":
            g = g64.copy()
            a, b, d = (int(Pt) if float(Pt) == int(Pt) else Pt), (int(nv) if float(nv) == int(nv) else nv), (int(Es) if float(Es) == int(Es) else Es)
        else:
            g = g64.copy()
            a, b, d = np.float64(Pt), np.float32(nv), np.int64(Es) if float(Es) == int(Es) else np.float64(Es)
        g0 = np.array(g, copy=True)
        try:
            P, mu = doWF(g, a, b, d)
        except Exception as e:
            return {"raised": repr(e)}
        P = np.asarray(P, dtype=float)
        if not np.array_equal(np.asarray(g), g0):
            return {"input gains modified": np.asarray(g).tolist()}
        tol = 1e-5 if rep in ("float32", "np_scalars") else 1e-12      # float32 operands are computed in float32
        if P.shape != ref_P.shape or (not (np.abs(P - ref_P).max() <= tol * max(1.0, float(Pt)))) or (not (abs(float(mu) - float(ref_mu)) <= tol * abs(float(ref_mu)))):
            return {"P": P.tolist(), "P for float64 input": ref_P.tolist(), "mu": float(mu), "mu for float64 input": float(ref_mu)}
        return None
    from pyvc.oblig import exhaustive
    return exhaustive(cases(), check)


@obligation("lemma/kkt_structure_implies_capacity_optimal_lean", kind="lemma", tiers=("thorough",), timeout=2400,
            desc="L-KKT for every N (Lean 4 + Mathlib, lemmas/WaterFillingKKT.lean): P_i = max(0, mu - noise/(Es g_i)), sum P = Pt, Q >= 0, "
                 "sum Q = Pt  =>  sum log2(1 + g_i Es Q_i / noise) <= sum log2(1 + g_i Es P_i / noise)")
def ob_lemma_kkt_lean():
    from pyvc.oblig import lean_lemma
    return lean_lemma("WaterFillingKKT.lean", 2000)
