"""Helpers shared by the per-property contract modules."""
import os
import random

import numpy as np

SEED = int(os.environ.get("VERIF_SEED", "0") or 0)
TIER = os.environ.get("VERIF_TIER", "quick")


def rng(tag=""):
    return np.random.RandomState((SEED * 1000003 + abs(hash(tag)) % 1000003) % (2**32 - 1))


def stable_rng(tag=""):
    import zlib
    return np.random.RandomState((SEED * 1000003 + zlib.crc32(tag.encode())) % (2**32 - 1))


def popcount(n):
    return bin(int(n)).count("1")


def quick():
    return TIER != "thorough"
