"""Helpers shared by the per-property contract modules."""
import os
import random

import numpy as np

SEED = int(os.environ.get("VERIF_SEED", "0") or 0)
TIER = os.environ.get("VERIF_TIER", "quick")


def rng(tag=""):
    return np.random.RandomState((SEED * 1000003 + abs(hash(tag)) % 1000003) % (2**32 - 1))


def stable_rng(tag=""):
    import zlib
    return np.random.RandomState((SEED * 1000003 + zlib.crc32(tag.encode())) % (2**32 - 1))


def popcount(n):
    return bin(int(n)).count("1")


def quick():
    return TIER != "thorough"


class Frame:
    """Frame conditions of native checks: arrays handed to the code under check (or handed out by it earlier) must still hold what
    they held.  Usage:  fr = Frame(x=x, H=H) ... call ... ; bad = fr.changed(); if bad: return {...}"""

    def __init__(self, **arrays):
        self.items = []
        self.watch(**arrays)

    def watch(self, **arrays):
        for name, a in arrays.items():
            if isinstance(a, np.ndarray):
                if a.dtype == object:
                    for i, e in enumerate(a.flat):
                        if isinstance(e, np.ndarray):
                            self.items.append(("%s[%d]" % (name, i), e, e.copy(), e.shape))
                else:
                    self.items.append((name, a, a.copy(), a.shape))
            elif isinstance(a, (list, tuple)):
                for i, e in enumerate(a):
                    if isinstance(e, np.ndarray):
                        self.items.append(("%s[%d]" % (name, i), e, e.copy(), e.shape))
        return self

    def changed(self):
        for name, a, snap, shp in self.items:
            if a.shape != shp:
                return "%s: shape %s became %s" % (name, shp, a.shape)
            same = np.array_equal(a, snap) if a.dtype.kind not in "fc" else bool(np.array_equal(a, snap, equal_nan=True))
            if not same:
                return "%s was modified" % name
        return None


# ---------------------------------------------------------------- counter-models -> native values (replay functions)
def num(v, default=0.0):
    """a value of a counter-model as recorded in the replay file -> python number (complex only if it has an imaginary part entry)"""
    from fractions import Fraction
    if v is None:
        return default
    if isinstance(v, dict) and "re" in v:
        return complex(float(num(v["re"])), float(num(v["im"])))
    if isinstance(v, bool):
        return v
    if isinstance(v, (int, float, complex, Fraction)):
        return v if not isinstance(v, Fraction) else float(v)
    if isinstance(v, str):
        try:
            return float(Fraction(v))
        except Exception:
            try:
                return float(v.rstrip("?"))
            except Exception:
                return default
    return default


def arr(v, dtype=complex):
    """nested lists of model values -> ndarray"""
    def conv(x):
        if isinstance(x, (list, tuple)):
            return [conv(y) for y in x]
        return num(x)
    return np.array(conv(v), dtype=dtype)
