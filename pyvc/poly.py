"""Exact polynomial normal form of a z3 arithmetic term (sum of monomials with rational
coefficients; non-polynomial sub-terms - divisions, ite, uninterpreted applications - are atoms).
Used to decide `term is identically zero` syntactically-modulo-ring-axioms."""
from fractions import Fraction
import z3


class TooBig(Exception):
    pass


def _mul(p, q, limit):
    out = {}
    if len(p) * len(q) > limit:
        raise TooBig()
    for m1, c1 in p.items():
        for m2, c2 in q.items():
            m = tuple(sorted(m1 + m2))
            v = out.get(m, 0) + c1 * c2
            if v == 0:
                out.pop(m, None)
            else:
                out[m] = v
    return out


def _add(p, q, sign=1):
    out = dict(p)
    for m, c in q.items():
        v = out.get(m, 0) + sign * c
        if v == 0:
            out.pop(m, None)
        else:
            out[m] = v
    return out


def to_poly(t, limit=200000, _memo=None):
    memo = _memo if _memo is not None else {}
    key = t.get_id()
    if key in memo:
        return memo[key]
    if z3.is_int_value(t):
        r = {(): Fraction(t.as_long())} if t.as_long() != 0 else {}
    elif z3.is_rational_value(t):
        f = Fraction(t.numerator_as_long(), t.denominator_as_long())
        r = {(): f} if f != 0 else {}
    elif z3.is_app(t):
        k = t.decl().kind()
        ch = t.children()
        if k == z3.Z3_OP_ADD:
            r = {}
            for c in ch:
                r = _add(r, to_poly(c, limit, memo))
        elif k == z3.Z3_OP_SUB:
            r = to_poly(ch[0], limit, memo)
            for c in ch[1:]:
                r = _add(r, to_poly(c, limit, memo), -1)
        elif k == z3.Z3_OP_UMINUS:
            r = _add({}, to_poly(ch[0], limit, memo), -1)
        elif k == z3.Z3_OP_MUL:
            r = {(): Fraction(1)}
            for c in ch:
                r = _mul(r, to_poly(c, limit, memo), limit)
        elif k == z3.Z3_OP_TO_REAL:
            r = to_poly(ch[0], limit, memo)
        elif k == z3.Z3_OP_DIV and (z3.is_rational_value(ch[1]) or z3.is_int_value(ch[1])):
            d = to_poly(ch[1], limit, memo).get((), Fraction(0))
            if d == 0:
                r = {((key),): Fraction(1)}
            else:
                r = {m: c / d for m, c in to_poly(ch[0], limit, memo).items()}
        else:
            r = {(key,): Fraction(1)}          # atom
    else:
        r = {(key,): Fraction(1)}
    memo[key] = r
    return r


ONE = {(): Fraction(1)}


def to_rat(t, limit=200000, _memo=None):
    """exact rational-function normal form (numerator, denominator) of a z3 arithmetic term: like to_poly, but division is
    followed structurally.  The denominator is a product of the denominators met (no cancellation is attempted)."""
    memo = _memo if _memo is not None else {}
    key = ('rat', t.get_id())
    if key in memo:
        return memo[key]
    r = None
    if z3.is_app(t) and not (z3.is_int_value(t) or z3.is_rational_value(t)):
        k = t.decl().kind()
        ch = t.children()
        if k in (z3.Z3_OP_ADD, z3.Z3_OP_SUB):
            parts = [to_rat(c, limit, memo) for c in ch]
            if all(q == ONE for _, q in parts):
                num = parts[0][0]
                for pp, _ in parts[1:]:
                    num = _add(num, pp, 1 if k == z3.Z3_OP_ADD else -1)
                r = (num, ONE)
            else:
                num, den = parts[0]
                for pp, qq in parts[1:]:
                    if qq == den:
                        num = _add(num, pp, 1 if k == z3.Z3_OP_ADD else -1)
                    else:
                        num = _add(_mul(num, qq, limit), _mul(pp, den, limit), 1 if k == z3.Z3_OP_ADD else -1)
                        den = _mul(den, qq, limit)
                r = (num, den)
        elif k == z3.Z3_OP_UMINUS:
            pp, qq = to_rat(ch[0], limit, memo)
            r = (_add({}, pp, -1), qq)
        elif k == z3.Z3_OP_MUL:
            num, den = ONE, ONE
            for c in ch:
                pp, qq = to_rat(c, limit, memo)
                num = _mul(num, pp, limit)
                if qq != ONE:
                    den = _mul(den, qq, limit)
            r = (num, den)
        elif k == z3.Z3_OP_TO_REAL:
            r = to_rat(ch[0], limit, memo)
        elif k == z3.Z3_OP_DIV:
            p1, q1 = to_rat(ch[0], limit, memo)
            p2, q2 = to_rat(ch[1], limit, memo)
            if p2:
                r = (_mul(p1, q2, limit) if q2 != ONE else p1, _mul(q1, p2, limit) if q1 != ONE else p2)
    if r is None:
        r = (to_poly(t, limit), ONE)
    memo[key] = r
    return r


def _pow(p, k, limit):
    r = ONE
    for _ in range(k):
        r = _mul(r, p, limit)
    return r


def reduce_power_atom(p, aid, n, N, D, limit=200000):
    """p modulo the relation a^n == N / D for the atom a (D != 0): the result equals p * D^K for a K >= 0, so it is zero iff p is"""
    K = 0
    for m in p:
        K = max(K, m.count(aid) // n)
    if K == 0:
        return p, False
    out = {}
    cache = {}
    for m, c in p.items():
        e = m.count(aid)
        k = e // n
        rest = tuple(x for x in m if x != aid) + (aid,) * (e % n)
        key = (k, K - k)
        if key not in cache:
            f = _pow(N, k, limit)
            if D != ONE:
                f = _mul(f, _pow(D, K - k, limit), limit)
            cache[key] = f
        term = _mul({tuple(sorted(rest)): c}, cache[key], limit)
        out = _add(out, term)
        if len(out) > limit:
            raise TooBig()
    return out, True


def reduce_trig(p, rename, pairs, limit=200000):
    """normal form modulo the listed ground trigonometric relations:
    rename: atom id -> (sign, atom id)   [cos(-x) = cos x, sin(-x) = -sin x]
    pairs:  sin atom id -> cos atom id   [sin^2 = 1 - cos^2]"""
    rat = {k: (v if isinstance(v, tuple) else (2, v, ONE)) for k, v in pairs.items() if isinstance(v, (tuple, dict))}
    if rat:
        pairs = {k: v for k, v in pairs.items() if not isinstance(v, (tuple, dict))}
        for _ in range(24):
            changed = False
            for aid, (n, N, D) in rat.items():
                p, ch = reduce_power_atom(p, aid, n, N, D, limit)
                changed = changed or ch
            if not changed:
                break
    out = {}
    work = list(p.items())
    steps = 0
    while work:
        m, c = work.pop()
        steps += 1
        if steps > limit:
            raise TooBig()
        sign = 1
        mm = []
        for a in m:
            if a in rename:
                sg, b = rename[a]
                sign *= sg
                mm.append(b)
            else:
                mm.append(a)
        m = tuple(sorted(mm))
        c = c * sign
        done = True
        for sid, cid in pairs.items():
            if m.count(sid) >= 2:
                rest = list(m)
                rest.remove(sid)
                rest.remove(sid)
                if isinstance(cid, dict):
                    # sqrt(X)^2 -> X  (X given as a polynomial)
                    for mx, cx in cid.items():
                        work.append((tuple(sorted(rest + list(mx))), c * cx))
                else:
                    work.append((tuple(sorted(rest)), c))
                    work.append((tuple(sorted(rest + [cid, cid])), -c))
                done = False
                break
        if done:
            v = out.get(m, 0) + c
            if v == 0:
                out.pop(m, None)
            else:
                out[m] = v
    return out


def is_zero(t, limit=200000, trig=None):
    try:
        p = to_poly(t, limit)
        if p and trig is not None:
            p = reduce_trig(p, trig[0], trig[1], limit)
        return len(p) == 0
    except TooBig:
        return False
