"""Generic-element sequences: the library contract of np.arange(n) for a SYMBOLIC length n (used by C14 and C18)."""
import numpy as np

from . import sym
from .sym import lift


class SymSeq:
    """A sequence of SYMBOLIC length n given by its generic element: element i is f(i).  It stands for the time axis of an
    array; numpy object arrays hold one SymSeq per remaining position (last real axis <-> the sequence).  Element-wise
    arithmetic and exp/cos/sin are pointwise in i, which is numpy's broadcasting rule along that axis."""

    def __init__(self, n, f):
        self.n, self.f = n, f
        self._shape = None

    @staticmethod
    def arange(n):
        return SymSeq(n, lambda i: i)

    def _bin(self, o, op):
        if isinstance(o, SymSeq):
            if o.n is not self.n:
                raise TypeError("SymSeq: lengths are not the same term")
            return SymSeq(self.n, lambda i: op(self.f(i), o.f(i)))
        if isinstance(o, (np.ndarray, list, tuple)):
            return NotImplemented
        return SymSeq(self.n, lambda i: op(self.f(i), o))

    def __mul__(self, o):
        return self._bin(o, lambda a, b: a * b)

    def __rmul__(self, o):
        return self._bin(o, lambda a, b: b * a)

    def __add__(self, o):
        return self._bin(o, lambda a, b: a + b)

    def __radd__(self, o):
        return self._bin(o, lambda a, b: b + a)

    def __sub__(self, o):
        return self._bin(o, lambda a, b: a - b)

    def __rsub__(self, o):
        return self._bin(o, lambda a, b: b - a)

    def __truediv__(self, o):
        return self._bin(o, lambda a, b: a / b)

    def __neg__(self):
        return SymSeq(self.n, lambda i: -self.f(i))

    def _un(self, name):
        def g(i):
            v = self.f(i)
            v = sym.to_complex(v) if isinstance(v, (complex, sym.SComplex)) else lift(v)
            return getattr(v, name)()
        return SymSeq(self.n, g)

    def exp(self):
        return self._un("exp")

    def cos(self):
        return self._un("cos")

    def sin(self):
        return self._un("sin")

    def __getitem__(self, i):
        if isinstance(i, int) and i == -1:
            return self.f(self.n - 1)
        raise IndexError("SymSeq: only [-1] is modelled")

    @property
    def shape(self):
        return self._shape if self._shape is not None else (self.n,)

    @shape.setter
    def shape(self, v):
        self._shape = tuple(v)
