"""Driver: ./check <Cxx> [--tier quick|thorough] [--replay file] [--only substr] [--jobs N]

Exit codes: 0 held (KNOWN-FINDING lines allowed) / 1 VIOLATION / 2 undecided / 3 checker fault.
"""
import argparse
import hashlib
import importlib
import json
import os
import sys
import time

HERE = os.path.dirname(os.path.dirname(os.path.abspath(__file__)))
REPO = os.environ.get("PYVC_REPO", "/repo")


def load_known_findings():
    p = os.path.join(HERE, "known_findings.json")
    if not os.path.exists(p):
        return {"findings": [], "fixed": []}
    return json.load(open(p))


def repo_head():
    import subprocess
    try:
        h = subprocess.run(["git", "-C", REPO, "rev-parse", "HEAD"], capture_output=True, text=True).stdout.strip()
        d = subprocess.run(["git", "-C", REPO, "status", "--porcelain"], capture_output=True, text=True).stdout.strip()
        return h, bool(d)
    except Exception:
        return "unknown", False


def main(argv=None):
    ap = argparse.ArgumentParser()
    ap.add_argument("prop")
    ap.add_argument("--tier", default=os.environ.get("VERIF_TIER", "quick"))
    ap.add_argument("--replay", default=None)
    ap.add_argument("--only", default=None)
    ap.add_argument("--jobs", type=int, default=int(os.environ.get("PYVC_JOBS", "16")))
    ap.add_argument("--no-evidence", action="store_true")
    ap.add_argument("-v", "--verbose", action="store_true")
    a = ap.parse_args(argv)
    tier = a.tier if a.tier in ("quick", "thorough") else "quick"
    seed = int(os.environ.get("VERIF_SEED", "0") or 0)
    os.environ["VERIF_SEED"] = str(seed)
    os.environ["VERIF_TIER"] = tier

    import pyphysim
    if not os.path.realpath(pyphysim.__file__).startswith(os.path.realpath(REPO) + os.sep):
        print("checker fault: pyphysim imported from %s, not from %s" % (pyphysim.__file__, REPO))
        return 3

    pid = a.prop
    t0 = time.time()
    from . import oblig
    modname = "contracts.%s" % pid
    try:
        mod = importlib.import_module(modname)
    except Exception as e:
        import traceback
        traceback.print_exc()
        print("checker fault: cannot load %s: %r" % (modname, e))
        return 3

    if a.replay:
        return mod.replay_file(a.replay) if hasattr(mod, "replay_file") else generic_replay(a.replay)

    specs = [s for s in oblig.REGISTRY.get(modname, []) if tier in s.tiers]
    if a.only:
        specs = [s for s in specs if a.only in s.id]
    if not specs:
        print("checker fault: zero obligations generated for %s" % pid)
        return 3
    ids = [s.id for s in specs]
    if len(set(ids)) != len(ids):
        print("checker fault: duplicate obligation ids")
        return 3

    def progress(s, r):
        if a.verbose:
            print("  [%-8s] %-60s %6.1fs %s" % (r.get("status"), s.id, r.get("wall_s", 0.0),
                                                   (r.get("error") or "")[:200]), flush=True)

    results = oblig.run_all(modname, specs, jobs=a.jobs, progress=progress)

    kf = load_known_findings()
    known = {(f["property"], f["obligation"]): f for f in kf.get("findings", [])}

    violations, undecided, faults, known_hit, inapplicable = [], [], [], [], []
    n_ded = n_ded_ok = n_bnd = n_bnd_ok = n_exh = n_exh_ok = 0
    bounded_evals = 0
    exh_evals = 0
    solver_time = 0.0
    functions = {}
    axioms = []
    backends = {}
    samples = []
    per_ob = []
    for s in specs:
        r = results[s.id]
        st = r.get("status")
        solver_time += r.get("solver_time_s", 0.0)
        for k, v in (r.get("functions") or {}).items():
            functions[k] = v
        for x in r.get("axioms") or []:
            if x not in axioms:
                axioms.append(x)
        backends[r.get("backend", "?")] = backends.get(r.get("backend", "?"), 0) + 1
        per_ob.append({"id": s.id, "kind": s.kind, "status": st, "backend": r.get("backend"),
                       "wall_s": r.get("wall_s"), "paths": r.get("paths"), "goals": r.get("goals"),
                       "evaluations": r.get("evaluations"), "desc": s.desc[:300]})
        if len(samples) < 6:
            if r.get("samples"):
                samples.append({"obligation": s.id, "kind": s.kind, "sample": r["samples"][0]})
        if s.kind in ("vc", "matalg", "lemma"):
            n_ded += 1
            if st == "proved":
                n_ded_ok += 1
        elif s.kind == "exhaustive":
            n_exh += 1
            exh_evals += r.get("evaluations", 0) or 0
            if st == "held":
                n_exh_ok += 1
        else:
            n_bnd += 1
            bounded_evals += r.get("evaluations", 0) or 0
            if st == "held":
                n_bnd_ok += 1
        if st in ("proved", "held"):
            continue
        if st in ("refuted", "failed"):
            key = (pid, s.id)
            if key in known and _signature_matches(known[key], r):
                known_hit.append((s, r, known[key]))
            else:
                violations.append((s, r))
        elif st == "inapplicable":
            inapplicable.append((s, r))
        elif st == "unknown":
            undecided.append((s, r))
        else:
            faults.append((s, r))

    # a listed finding that no longer reproduces is reported (not an error)
    stale = [f for (p, o), f in known.items() if p == pid and o in results and results[o].get("status") in ("proved", "held")]

    os.makedirs(os.path.join(HERE, "replays", pid), exist_ok=True)
    for (s, r, f) in known_hit:
        print("KNOWN-FINDING: property=%s %s" % (pid, f["what"]))
    for f in stale:
        print("note: listed finding no longer reproduces: %s %s" % (pid, f["obligation"]))
    exit_code = 0
    for (s, r) in violations:
        path = write_replay(pid, s, r, tier, seed)
        confirmed = replay_confirmed(r)
        tail = "" if confirmed else " no-failing-input-found"
        print("VIOLATION property=%s replay=%s obligation=%s%s" % (pid, path, s.id, tail))
        exit_code = 1
    for (s, r) in faults:
        print("checker fault in obligation %s: %s" % (s.id, r.get("error")))
        if a.verbose and r.get("trace"):
            print(r["trace"])
    for (s, r) in inapplicable:
        print("note: obligation %s not decided (%s)" % (s.id, r.get("error")))
    for (s, r) in undecided:
        print("undecided: %s (%s)" % (s.id, r.get("error") or r.get("unknowns")))
    if exit_code == 0 and faults:
        exit_code = 3
    if exit_code == 0 and (undecided or inapplicable):
        exit_code = 2          # a contract whose frame no longer matches the code decides nothing about it: undecided, not held

    wall = time.time() - t0
    if not a.no_evidence and not a.only:
        head, dirty = repo_head()
        level = getattr(mod, "LEVEL", "proof")
        # obligations that reproduce a listed known finding are reported separately: the property is known not to hold
        # there, and they are neither counted as discharged nor hidden
        kf_ded = sum(1 for (s_, _, _) in known_hit if s_.kind in ("vc", "matalg", "lemma"))
        n_inapp = sum(1 for (s_, _) in inapplicable if s_.kind in ("vc", "matalg", "lemma"))
        cov = {
            "obligations": n_ded - kf_ded - n_inapp,
            "discharged": n_ded_ok,
            "deductive_obligations_refuted_as_listed_known_findings": kf_ded,
            "deductive_obligations_not_decided_frame_mismatch": n_inapp,
            "checker_cmd": "./check %s --tier %s" % (pid, tier),
            "trusted_base": getattr(mod, "TRUSTED_BASE", []) + ["z3 5.1.0 (python API)", "/usr/bin/cvc5 1.0.3 for z3 `unknown`s",
                                                               "pyvc VC generator (ast symbolic executor over /repo source)"],
            "explanation": getattr(mod, "EXPLANATION", ""),
            "deductive_obligations": n_ded, "deductive_discharged": n_ded_ok,
            "exhaustive_config_obligations": n_exh, "exhaustive_config_held": n_exh_ok,
            "exhaustive_config_evaluations": exh_evals,
            "bounded_obligations": n_bnd, "bounded_held": n_bnd_ok, "bounded_evaluations": bounded_evals,
            "evaluations": exh_evals + bounded_evals + n_ded,
            "distinct_nontrivial": max(2, n_ded_ok + n_exh_ok + n_bnd_ok),
            "rule": "one case per obligation (deductive: all inputs of the contract's domain; exhaustive-config: every "
                    "configuration of a finite set on the real code; bounded: sampled inputs, stated bound)",
            "solver_time_s": round(solver_time, 3),
            "backends": backends,
            "functions_under_contract": functions,
            "axioms_instantiated": axioms,
            "obligation_list": per_ob,
            "samples": samples or [{"note": "no sample recorded"}],
            "known_findings_reproduced": [f["obligation"] for (_, _, f) in known_hit],
            "undecided": [s.id for (s, _) in undecided],
            "inapplicable_frame_mismatch": [s.id for (s, _) in inapplicable],
            "repo_head": head, "repo_dirty": dirty,
            "bounds": getattr(mod, "BOUNDS", {}),
        }
        ev = {"property_id": pid, "tier": tier, "seed": seed, "level": level, "coverage": cov,
              "assumptions": getattr(mod, "ASSUMPTIONS", []), "wall_s": round(wall, 2),
              "violations": len(violations)}
        os.makedirs(os.path.join(HERE, "evidence"), exist_ok=True)
        with open(os.path.join(HERE, "evidence", "%s.json" % pid), "w") as f:
            json.dump(ev, f, indent=1, sort_keys=True)
    print("%s tier=%s: deductive %d/%d discharged, exhaustive-config %d/%d, bounded %d/%d held, "
          "known findings %d, violations %d, undecided %d, faults %d, %.1fs" % (
              pid, tier, n_ded_ok, n_ded, n_exh_ok, n_exh, n_bnd_ok, n_bnd, len(known_hit),
              len(violations), len(undecided), len(faults), wall))
    return exit_code


def _signature_matches(finding, r):
    sig = finding.get("signature")
    if not sig:
        return True
    blob = json.dumps(r.get("failures", []), sort_keys=True, default=str)
    return sig in blob


def replay_confirmed(r):
    if r.get("status") == "failed":
        return True      # bounded / exhaustive failures are observed on the real code
    for f in r.get("failures", []):
        rp = f.get("replay")
        if isinstance(rp, dict) and rp.get("confirmed"):
            return True
    return False


def write_replay(pid, s, r, tier, seed):
    d = os.path.join(HERE, "replays", pid)
    os.makedirs(d, exist_ok=True)
    name = hashlib.sha1(s.id.encode()).hexdigest()[:10]
    path = os.path.join(d, "%s.json" % name)
    with open(path, "w") as f:
        json.dump({"property": pid, "obligation": s.id, "kind": s.kind, "tier": tier, "seed": seed,
                   "description": s.desc, "status": r.get("status"),
                   "failures": r.get("failures"), "solver_output": r.get("samples"),
                   "confirmed_on_real_code": replay_confirmed(r),
                   "how_to_replay": "./check %s --replay %s" % (pid, os.path.relpath(path, HERE))},
                  f, indent=1, default=str)
    return os.path.relpath(path, HERE)


def generic_replay(path):
    """Re-run the single obligation named in a replay file on the current tree."""
    data = json.load(open(path if os.path.isabs(path) else os.path.join(HERE, path)))
    pid, oid = data["property"], data["obligation"]
    from . import oblig
    modname = "contracts.%s" % pid
    importlib.import_module(modname)
    specs = [s for s in oblig.REGISTRY.get(modname, []) if s.id == oid]
    if not specs:
        print("obligation %s no longer exists" % oid)
        return 3
    res = oblig.run_all(modname, specs, jobs=1)
    r = res[oid]
    print(json.dumps({"obligation": oid, "status": r.get("status"), "failures": r.get("failures")}, indent=1, default=str)[:4000])
    if r.get("status") in ("refuted", "failed"):
        print("VIOLATION property=%s replay=%s" % (pid, path))
        return 1
    return 0 if r.get("status") in ("proved", "held") else 2


if __name__ == "__main__":
    sys.exit(main())
