"""Counterexample search by evaluation: when the nonlinear solver gives up on `path condition and not goal`, evaluate both at
random rational points.  Exact (Fraction) arithmetic wherever the operations allow it, 60-digit mpmath values for the
transcendental / irrational function applications.  A point is reported only if every conjunct of the path condition
evaluates to true and the goal to false with a clear margin; it is a *numerically certified* counterexample (not a solver
model) and is marked as such - the replay on the real code is what finally confirms it."""
import random
import re
from fractions import Fraction

import z3

try:
    import mpmath
    mpmath.mp.dps = 60
except Exception:          # pragma: no cover
    mpmath = None


import os as _os
_DEBUG = bool(_os.environ.get('PYVC_DEBUG'))


class Undefined(Exception):
    pass


def _exact(x):
    return isinstance(x, (Fraction, int)) and not isinstance(x, bool)


def _mp(x):
    if isinstance(x, Fraction):
        return mpmath.mpf(x.numerator) / mpmath.mpf(x.denominator)
    return mpmath.mpf(x)


REL_EQ = mpmath.mpf(10) ** -40 if mpmath else 0
MARGIN = mpmath.mpf(10) ** -25 if mpmath else 0


def _isqrt_frac(x):
    import math
    if x < 0:
        raise Undefined("sqrt of a negative number")
    n, d = x.numerator, x.denominator
    rn, rd = math.isqrt(n), math.isqrt(d)
    if rn * rn == n and rd * rd == d:
        return Fraction(rn, rd)
    return None


class FloatScreen:
    """fast binary64 screening pass of the same terms (candidates are confirmed by the exact Evaluator)"""

    def __init__(self, env):
        self.env = {k: (v if isinstance(v, bool) else float(v)) for k, v in env.items()}
        self.memo = {}

    def ev(self, t):
        k = t.get_id()
        if k in self.memo:
            return self.memo[k]
        r = self._ev(t)
        self.memo[k] = r
        return r

    @staticmethod
    def _cmp(a, b):
        scale = max(abs(a), abs(b), 1.0)
        if abs(a - b) <= 1e-7 * scale:
            raise Undefined("too close for the screening pass")
        return 1 if a > b else -1

    def _ev(self, t):
        import math
        if z3.is_int_value(t):
            return float(t.as_long())
        if z3.is_rational_value(t):
            return t.numerator_as_long() / t.denominator_as_long()
        if z3.is_true(t):
            return True
        if z3.is_false(t):
            return False
        d = t.decl()
        kind = d.kind()
        ch = t.children()
        if kind == z3.Z3_OP_UNINTERPRETED:
            if not ch:
                if t.get_id() in self.env:
                    return self.env[t.get_id()]
                raise Undefined("free constant")
            a = [self.ev(c) for c in ch]
            nm = d.name()
            x = a[0]
            if nm == 'sqrt':
                if x < 0:
                    raise Undefined("sqrt")
                return math.sqrt(x)
            if nm.startswith('root') and nm[4:].isdigit():
                if x < 0:
                    raise Undefined("root")
                return x ** (1.0 / int(nm[4:]))
            if nm == 'exp':
                return math.exp(x)
            if nm in ('ln', 'log10', 'log2'):
                if x <= 0:
                    raise Undefined("log")
                return {'ln': math.log, 'log10': math.log10, 'log2': math.log2}[nm](x)
            if nm == 'pow10':
                return 10.0 ** x
            if nm == 'cos':
                return math.cos(x)
            if nm == 'sin':
                return math.sin(x)
            if nm == 'qfunc':
                return 0.5 * math.erfc(x / math.sqrt(2))
            if nm == 'erfc':
                return math.erfc(x)
            if nm in ('pow', 'powi'):
                return x ** a[1]
            if nm == 'pow2i':
                return 2.0 ** x
            raise Undefined("function")
        if kind == z3.Z3_OP_ADD:
            return math.fsum(self.ev(c) for c in ch)
        if kind == z3.Z3_OP_SUB:
            vals = [self.ev(c) for c in ch]
            return vals[0] - math.fsum(vals[1:])
        if kind == z3.Z3_OP_UMINUS:
            return -self.ev(ch[0])
        if kind == z3.Z3_OP_MUL:
            r = 1.0
            for c in ch:
                r *= self.ev(c)
            return r
        if kind == z3.Z3_OP_DIV:
            b = self.ev(ch[1])
            if abs(b) < 1e-200:
                raise Undefined("division by zero")
            return self.ev(ch[0]) / b
        if kind == z3.Z3_OP_POWER:
            return self.ev(ch[0]) ** self.ev(ch[1])
        if kind == z3.Z3_OP_TO_REAL:
            return self.ev(ch[0])
        if kind == z3.Z3_OP_ITE:
            return self.ev(ch[1]) if self.ev(ch[0]) else self.ev(ch[2])
        if kind in (z3.Z3_OP_LE, z3.Z3_OP_LT, z3.Z3_OP_GE, z3.Z3_OP_GT):
            a, b = self.ev(ch[0]), self.ev(ch[1])
            if a == b:
                return kind in (z3.Z3_OP_LE, z3.Z3_OP_GE)
            c = self._cmp(a, b)
            return {z3.Z3_OP_LE: c <= 0, z3.Z3_OP_LT: c < 0, z3.Z3_OP_GE: c >= 0, z3.Z3_OP_GT: c > 0}[kind]
        if kind == z3.Z3_OP_EQ:
            a, b = self.ev(ch[0]), self.ev(ch[1])
            if isinstance(a, bool) or isinstance(b, bool):
                return bool(a) == bool(b)
            if a == b:
                return True
            scale = max(abs(a), abs(b), 1.0)
            if abs(a - b) <= 1e-9 * scale:
                return True                       # equal as far as binary64 can tell; the exact pass decides
            if abs(a - b) <= 1e-5 * scale:
                raise Undefined("too close for the screening pass")
            return False
        if kind == z3.Z3_OP_AND:
            return all(self.ev(c) for c in ch)
        if kind == z3.Z3_OP_OR:
            return any(self.ev(c) for c in ch)
        if kind == z3.Z3_OP_NOT:
            return not self.ev(ch[0])
        if kind == z3.Z3_OP_IMPLIES:
            return (not self.ev(ch[0])) or self.ev(ch[1])
        raise Undefined("operator")


class Tape:
    """The terms compiled once into a topologically ordered instruction list, evaluated per trial in binary64 with plain Python
    arithmetic (walking z3 ASTs through the Python API for every trial is two orders of magnitude slower).  An undefined value
    (division by zero, root/log outside the domain, comparison too close to call) is None and propagates, except through the
    connectives, which are lazy in the logical sense (False and undefined == False, ...)."""

    def __init__(self, terms):
        self.code = []              # (op, payload, child indexes)
        self.index = {}
        self.var_slot = {}          # const id -> instruction index
        self.roots = [self._compile(t) for t in terms]

    def _compile(self, root):
        stack = [(root, False)]
        while stack:
            t, done = stack.pop()
            k = t.get_id()
            if k in self.index:
                continue
            if z3.is_int_value(t):
                self._emit(k, ('c', float(t.as_long()), ()))
                continue
            if z3.is_rational_value(t):
                self._emit(k, ('c', t.numerator_as_long() / t.denominator_as_long(), ()))
                continue
            if z3.is_true(t) or z3.is_false(t):
                self._emit(k, ('c', z3.is_true(t), ()))
                continue
            if not z3.is_app(t):
                self._emit(k, ('u', None, ()))
                continue
            ch = t.children()
            if not done:
                stack.append((t, True))
                for c in ch:
                    if c.get_id() not in self.index:
                        stack.append((c, False))
                continue
            d = t.decl()
            kind = d.kind()
            ci = tuple(self.index[c.get_id()] for c in ch)
            if kind == z3.Z3_OP_UNINTERPRETED:
                if not ch:
                    self._emit(k, ('v', k, ()))
                    self.var_slot[k] = self.index[k]
                else:
                    self._emit(k, ('f', d.name(), ci))
            else:
                op = _TAPE_OPS.get(kind)
                self._emit(k, (op, None, ci) if op else ('u', None, ()))
        return self.index[root.get_id()]

    def _emit(self, k, ins):
        self.index[k] = len(self.code)
        self.code.append(ins)

    def run(self, env, floor=1.0):
        import math
        vals = [None] * len(self.code)
        for i, (op, pl, ci) in enumerate(self.code):
            try:
                if op == 'c':
                    v = pl
                elif op == 'v':
                    v = env.get(pl)
                    if v is not None and not isinstance(v, bool):
                        v = float(v)
                elif op == 'u':
                    v = None
                elif op in ('and', 'or', 'not', 'imp', 'ite'):
                    a = [vals[j] for j in ci]
                    if op == 'and':
                        v = False if any(x is False for x in a) else (None if any(x is None for x in a) else True)
                    elif op == 'or':
                        v = True if any(x is True for x in a) else (None if any(x is None for x in a) else False)
                    elif op == 'not':
                        v = None if a[0] is None else (not a[0])
                    elif op == 'imp':
                        v = True if (a[0] is False or a[1] is True) else (None if (a[0] is None or a[1] is None) else False)
                    else:
                        v = None if a[0] is None else (a[1] if a[0] else a[2])
                else:
                    a = [vals[j] for j in ci]
                    if any(x is None for x in a):
                        v = None
                    elif op == 'add':
                        v = math.fsum(a)
                    elif op == 'sub':
                        v = a[0] - math.fsum(a[1:])
                    elif op == 'neg':
                        v = -a[0]
                    elif op == 'mul':
                        v = 1.0
                        for x in a:
                            v *= x
                    elif op == 'div':
                        v = None if abs(a[1]) < 1e-200 else a[0] / a[1]
                    elif op == 'pow':
                        v = a[0] ** a[1]
                        if isinstance(v, complex):
                            v = None
                    elif op == 'id':
                        v = a[0]
                    elif op == 'floor':
                        v = float(math.floor(a[0]))
                    elif op in ('le', 'lt', 'ge', 'gt'):
                        x, y = a
                        if x == y:
                            v = op in ('le', 'ge')
                        elif abs(x - y) <= 1e-7 * max(abs(x), abs(y), floor):
                            v = None
                        else:
                            v = {'le': x < y, 'lt': x < y, 'ge': x > y, 'gt': x > y}[op]
                    elif op == 'eq':
                        x, y = a
                        if isinstance(x, bool) or isinstance(y, bool):
                            v = bool(x) == bool(y)
                        elif x == y or abs(x - y) <= 1e-9 * max(abs(x), abs(y), floor):
                            v = True
                        elif abs(x - y) <= 1e-5 * max(abs(x), abs(y), floor):
                            v = None
                        else:
                            v = False
                    elif op == 'distinct':
                        v = True
                        for p_ in range(len(a)):
                            for q_ in range(p_ + 1, len(a)):
                                if abs(a[p_] - a[q_]) <= 1e-7 * max(abs(a[p_]), abs(a[q_]), floor):
                                    v = None if a[p_] != a[q_] else False
                    elif op == 'f':
                        v = _float_uf(pl, a)
                    else:
                        v = None
            except (OverflowError, ValueError, ZeroDivisionError, TypeError):
                v = None
            vals[i] = v
        return vals


def _float_uf(nm, a):
    import math
    x = a[0]
    if nm == 'sqrt':
        return math.sqrt(x) if x >= 0 else None
    if nm.startswith('root') and nm[4:].isdigit():
        return x ** (1.0 / int(nm[4:])) if x >= 0 else None
    if nm == 'exp':
        return math.exp(x)
    if nm in ('ln', 'log10', 'log2'):
        return {'ln': math.log, 'log10': math.log10, 'log2': math.log2}[nm](x) if x > 0 else None
    if nm == 'pow10':
        return 10.0 ** x
    if nm == 'cos':
        return math.cos(x)
    if nm == 'sin':
        return math.sin(x)
    if nm == 'qfunc':
        return 0.5 * math.erfc(x / math.sqrt(2))
    if nm == 'erfc':
        return math.erfc(x)
    if nm in ('pow', 'powi'):
        v = x ** a[1]
        return None if isinstance(v, complex) else v
    if nm == 'pow2i':
        return 2.0 ** x
    return None


_TAPE_OPS = {z3.Z3_OP_ADD: 'add', z3.Z3_OP_SUB: 'sub', z3.Z3_OP_UMINUS: 'neg', z3.Z3_OP_MUL: 'mul', z3.Z3_OP_DIV: 'div',
             z3.Z3_OP_POWER: 'pow', z3.Z3_OP_TO_REAL: 'id', z3.Z3_OP_TO_INT: 'floor', z3.Z3_OP_ITE: 'ite', z3.Z3_OP_LE: 'le',
             z3.Z3_OP_LT: 'lt', z3.Z3_OP_GE: 'ge', z3.Z3_OP_GT: 'gt', z3.Z3_OP_EQ: 'eq', z3.Z3_OP_DISTINCT: 'distinct',
             z3.Z3_OP_AND: 'and', z3.Z3_OP_OR: 'or', z3.Z3_OP_NOT: 'not', z3.Z3_OP_IMPLIES: 'imp'}


class Evaluator:
    def __init__(self, env):
        self.env = env              # z3 const id -> value
        self.memo = {}
        self.inexact = False

    # comparisons: exact when both exact; otherwise with a margin (None = too close to call)
    def cmp(self, a, b):
        if _exact(a) and _exact(b):
            return (a > b) - (a < b), True
        self.inexact = True
        a, b = _mp(a), _mp(b)
        scale = max(abs(a), abs(b), 1)
        if abs(a - b) <= REL_EQ * scale:
            return 0, False
        if abs(a - b) < MARGIN * scale:
            return None, False
        return (1 if a > b else -1), False

    def ev(self, t):
        k = t.get_id()
        if k in self.memo:
            return self.memo[k]
        r = self._ev(t)
        self.memo[k] = r
        return r

    def _ev(self, t):
        if z3.is_int_value(t):
            return Fraction(t.as_long())
        if z3.is_rational_value(t):
            return Fraction(t.numerator_as_long(), t.denominator_as_long())
        if z3.is_true(t):
            return True
        if z3.is_false(t):
            return False
        if not z3.is_app(t):
            raise Undefined("not an application")
        d = t.decl()
        kind = d.kind()
        ch = t.children()
        if kind == z3.Z3_OP_UNINTERPRETED:
            if not ch:
                if t.get_id() in self.env:
                    return self.env[t.get_id()]
                raise Undefined("free constant %s" % t)
            return self.uf(d.name(), [self.ev(c) for c in ch])
        if kind == z3.Z3_OP_ADD:
            vals = [self.ev(c) for c in ch]
            if all(_exact(v) for v in vals):
                return sum(vals, Fraction(0))
            return sum((_mp(v) for v in vals), mpmath.mpf(0))
        if kind == z3.Z3_OP_SUB:
            vals = [self.ev(c) for c in ch]
            r = vals[0]
            for v in vals[1:]:
                r = (r - v) if (_exact(r) and _exact(v)) else (_mp(r) - _mp(v))
            return r
        if kind == z3.Z3_OP_UMINUS:
            return -self.ev(ch[0])
        if kind == z3.Z3_OP_MUL:
            r = Fraction(1)
            for c in ch:
                v = self.ev(c)
                r = (r * v) if (_exact(r) and _exact(v)) else (_mp(r) * _mp(v))
            return r
        if kind in (z3.Z3_OP_DIV, z3.Z3_OP_IDIV):
            a, b = self.ev(ch[0]), self.ev(ch[1])
            if (b == 0) if _exact(b) else (abs(_mp(b)) < MARGIN):
                raise Undefined("division by zero")
            if kind == z3.Z3_OP_IDIV:
                return Fraction(int(a) // int(b))
            return (Fraction(a) / Fraction(b)) if (_exact(a) and _exact(b)) else (_mp(a) / _mp(b))
        if kind == z3.Z3_OP_MOD:
            a, b = self.ev(ch[0]), self.ev(ch[1])
            if b == 0:
                raise Undefined("mod by zero")
            return Fraction(int(a) % int(b))
        if kind == z3.Z3_OP_POWER:
            a, b = self.ev(ch[0]), self.ev(ch[1])
            if _exact(b) and Fraction(b).denominator == 1 and _exact(a):
                if b < 0 and a == 0:
                    raise Undefined("0 ** negative")
                return Fraction(a) ** int(b)
            return mpmath.power(_mp(a), _mp(b))
        if kind == z3.Z3_OP_TO_REAL:
            return self.ev(ch[0])
        if kind == z3.Z3_OP_TO_INT:
            v = self.ev(ch[0])
            import math
            return Fraction(math.floor(v)) if _exact(v) else Fraction(int(mpmath.floor(v)))
        if kind == z3.Z3_OP_ITE:
            c = self.ev(ch[0])
            return self.ev(ch[1]) if c else self.ev(ch[2])
        if kind in (z3.Z3_OP_LE, z3.Z3_OP_LT, z3.Z3_OP_GE, z3.Z3_OP_GT):
            c, _ = self.cmp(self.ev(ch[0]), self.ev(ch[1]))
            if c is None:
                raise Undefined("comparison too close to call")
            return {z3.Z3_OP_LE: c <= 0, z3.Z3_OP_LT: c < 0, z3.Z3_OP_GE: c >= 0, z3.Z3_OP_GT: c > 0}[kind]
        if kind == z3.Z3_OP_EQ:
            a, b = self.ev(ch[0]), self.ev(ch[1])
            if isinstance(a, bool) or isinstance(b, bool):
                return bool(a) == bool(b)
            c, _ = self.cmp(a, b)
            if c is None:
                raise Undefined("equality too close to call")
            return c == 0
        if kind == z3.Z3_OP_DISTINCT:
            vals = [self.ev(c) for c in ch]
            for i in range(len(vals)):
                for j in range(i + 1, len(vals)):
                    c, _ = self.cmp(vals[i], vals[j])
                    if c is None:
                        raise Undefined("distinct too close to call")
                    if c == 0:
                        return False
            return True
        if kind == z3.Z3_OP_AND:
            return all(self.ev(c) for c in ch)
        if kind == z3.Z3_OP_OR:
            return any(self.ev(c) for c in ch)
        if kind == z3.Z3_OP_NOT:
            return not self.ev(ch[0])
        if kind == z3.Z3_OP_IMPLIES:
            return (not self.ev(ch[0])) or self.ev(ch[1])
        if kind == z3.Z3_OP_XOR:
            return bool(self.ev(ch[0])) != bool(self.ev(ch[1]))
        raise Undefined("operator %s" % d.name())

    def uf(self, name, a):
        x = a[0]
        if name == 'sqrt':
            if _exact(x):
                r = _isqrt_frac(Fraction(x))
                if r is not None:
                    return r
            if _mp(x) < 0:
                raise Undefined("sqrt of a negative number")
            self.inexact = True
            return mpmath.sqrt(_mp(x))
        if name.startswith('root') and name[4:].isdigit():
            n = int(name[4:])
            if _mp(x) < 0:
                raise Undefined("root of a negative number")
            if _exact(x):
                num, den = Fraction(x).numerator, Fraction(x).denominator
                rn, rd = round(num ** (1.0 / n)), round(den ** (1.0 / n))
                for cn in (rn - 1, rn, rn + 1):
                    for cd in (rd - 1, rd, rd + 1):
                        if cn >= 0 and cd > 0 and cn ** n == num and cd ** n == den:
                            return Fraction(cn, cd)
            self.inexact = True
            return mpmath.root(_mp(x), n)
        self.inexact = True
        if name == 'exp':
            return mpmath.exp(_mp(x))
        if name in ('ln', 'log10', 'log2'):
            if _mp(x) <= 0:
                raise Undefined("log of a non-positive number")
            return {'ln': mpmath.log, 'log10': mpmath.log10, 'log2': lambda v: mpmath.log(v, 2)}[name](_mp(x))
        if name == 'pow10':
            return mpmath.power(10, _mp(x))
        if name == 'cos':
            return mpmath.cos(_mp(x))
        if name == 'sin':
            return mpmath.sin(_mp(x))
        if name == 'qfunc':
            return mpmath.erfc(_mp(x) / mpmath.sqrt(2)) / 2
        if name == 'erfc':
            return mpmath.erfc(_mp(x))
        if name in ('pow', 'powi'):
            return mpmath.power(_mp(x), _mp(a[1]))
        if name == 'pow2i':
            self.inexact = False
            return Fraction(2) ** int(x)
        raise Undefined("function %s" % name)


class NumModel:
    """duck-types the part of z3.ModelRef the engine uses (eval of a term)"""
    numeric = True

    def __init__(self, env, names):
        self.env, self.names = env, names

    def eval(self, t, model_completion=True):
        try:
            v = Evaluator(self.env).ev(t)
        except Undefined:
            # constants that occur neither in the path condition nor in the goal are unconstrained: complete the model with 1
            # (like z3's model completion), then evaluate again
            if not model_completion:
                return t
            env = dict(self.env)
            for k, c in free_consts([t]).items():
                if k not in env:
                    env[k] = (False if z3.is_bool(c) else Fraction(1))
            try:
                v = Evaluator(env).ev(t)
            except Undefined:
                return t
        if isinstance(v, bool):
            return z3.BoolVal(v)
        if _exact(v):
            f = Fraction(v)
            return z3.IntVal(int(f)) if (z3.is_int(t) and f.denominator == 1) else z3.RealVal(str(f))
        return z3.RealVal(mpmath.nstr(v, 30))

    def as_dict(self):
        return {self.names[k]: (str(v) if not _exact(v) else (int(v) if Fraction(v).denominator == 1 else float(v)))
                for k, v in self.env.items()}


def free_consts(terms):
    """uninterpreted constants of a list of terms (DAG walk on term ids)"""
    seen, out = set(), {}
    stack = list(terms)
    while stack:
        t = stack.pop()
        k = t.get_id()
        if k in seen:
            continue
        seen.add(k)
        if z3.is_app(t):
            if t.num_args() == 0:
                if t.decl().kind() == z3.Z3_OP_UNINTERPRETED:
                    out[k] = t
            else:
                stack.extend(t.children())
    return out


def extreme_scales(terms):
    """powers of ten suggested by the very small / very large numerals of the terms (thresholds such as machine epsilon, absolute
    tolerances, regularisers): the magnitudes at which a comparison against them can go either way"""
    import math
    seen, out = set(), set()
    stack = list(terms)
    while stack:
        t = stack.pop()
        k = t.get_id()
        if k in seen:
            continue
        seen.add(k)
        if z3.is_rational_value(t) or z3.is_int_value(t):
            try:
                v = abs(Fraction(t.numerator_as_long(), t.denominator_as_long())) if z3.is_rational_value(t) else abs(Fraction(t.as_long()))
            except Exception:
                continue
            if v != 0 and (v < Fraction(1, 10**5) or v > 10**5):
                e = int(round(math.log10(float(v)))) if v < Fraction(10)**300 and v > Fraction(1, 10**300) else None
                if e is not None:
                    for ee in (e // 2 - 1, e // 2, e - 1, e, e + 1, e // 4):
                        if ee != 0 and abs(ee) <= 40:
                            out.add(Fraction(10) ** ee)
        elif z3.is_app(t) and t.num_args():
            stack.extend(t.children())
    return sorted(out)


_ALLOWED_CACHE = {}
SQUARES = [Fraction(x) for x in ("1", "4", "1/4", "9/4", "9", "1/9", "16", "25/4", "49/16")]
BOTH = None
PLAIN = [Fraction(x) for x in ("1", "2", "-1", "1/2", "3", "-2", "3/2", "-1/2", "5", "-3", "2/3", "7/4", "-5/3", "1/3", "4")]

BOTH = SQUARES + PLAIN


def search(pc, goal, trials=300, seed=0):
    """-> NumModel falsifying `goal` under `pc`, or None"""
    if mpmath is None:
        return None
    vs = free_consts(list(pc) + [goal])
    if not vs:
        return None
    # definitional equalities  v == e  of the path condition (v a constant): v is computed, not drawn
    defs = {}
    flat = []
    for t in pc:
        flat.extend(t.children() if z3.is_and(t) else [t])
    for t in flat:
        if z3.is_eq(t):
            a, b = t.children()
            for v, e in ((a, b), (b, a)):
                if z3.is_const(v) and v.decl().kind() == z3.Z3_OP_UNINTERPRETED and v.get_id() not in defs and \
                        v.get_id() not in free_consts([e]) and not (z3.is_int_value(e) or z3.is_rational_value(e)):
                    defs[v.get_id()] = e
                    break
    rnd = random.Random(seed * 1000003 + len(vs))
    names = {k: str(v) for k, v in vs.items()}
    free = [v for k, v in vs.items() if k not in defs]
    # conjuncts that constrain one variable only (ranges, signs): each variable is drawn among the values satisfying its own
    own = {}
    for t in flat:
        tv = list(free_consts([t]))
        if len(tv) == 1 and tv[0] not in defs:
            own.setdefault(tv[0], []).append(t)
    EXTRA = [Fraction(x) for x in ("1/2", "1/4", "3/4", "1/16", "9/16", "1/100", "99/100", "0", "100", "1000", "-100", "1/1000", "36", "64")]

    allowed = {}
    pref_cache = {}

    def draw(v, pool):
        cons = own.get(v.get_id())
        if not cons:
            return rnd.choice(pool)
        k = v.get_id()
        ck = (k, frozenset(t.get_id() for t in cons))
        if k not in allowed and ck in _ALLOWED_CACHE:
            allowed[k] = _ALLOWED_CACHE[ck]
        if k not in allowed:
            # the values (of all pools) satisfying the variable's own constraints - computed once per search
            ok = []
            base = (SQUARES + PLAIN + EXTRA) if not z3.is_int(v) else [Fraction(x) for x in (0, 1, 2, 3, 4, -1, 5, 7, 10, 100)]
            for val in base:
                try:
                    e = Evaluator({k: val})
                    if all(e.ev(t) for t in cons):
                        ok.append(val)
                except (Undefined, ZeroDivisionError, OverflowError, ValueError):
                    continue
            allowed[k] = ok
            if len(_ALLOWED_CACHE) < 100000:
                _ALLOWED_CACHE[ck] = ok
        ok = allowed[k]
        if not ok:
            return rnd.choice(pool)
        pk = (k, id(pool))
        if pk not in pref_cache:
            ps = set(pool)
            pref_cache[pk] = [x for x in ok if x in ps]
        pref = pref_cache[pk]
        return rnd.choice(pref if pref and rnd.random() < 0.8 else ok)
    tape = Tape(list(pc) + [goal])
    defs_tape = Tape(list(defs.values())) if defs else None
    # families of real variables (entries of one matrix / one quantity): every 7th trial puts one family - or all of them - at
    # another order of magnitude, which is how conditions on absolute magnitudes (thresholds, regularisers, absolute tolerances)
    # become reachable
    fams = {}
    for v in free:
        if not (z3.is_bool(v) or z3.is_int(v)):
            fams.setdefault(re.split(r"[\d_\[(]", names[v.get_id()], 1)[0], []).append(v.get_id())
    fam_names = sorted(fams)
    SCALES = [Fraction(1, 10**9), Fraction(1, 10**6), Fraction(10**6), Fraction(1, 10**12), Fraction(1, 10**4), Fraction(10**9)]
    special = extreme_scales(list(pc) + [goal])
    every = 7
    if special:
        SCALES = special + SCALES[:2]
        every = 2
    for trial in range(trials):
        env = {}
        pool = SQUARES if trial % 3 == 0 else (PLAIN if trial % 3 == 1 else BOTH)
        for v in free:
            if z3.is_bool(v):
                env[v.get_id()] = rnd.random() < 0.5
            elif z3.is_int(v):
                env[v.get_id()] = draw(v, [Fraction(x) for x in (0, 1, 2, 3, 4, -1, 5)])
            else:
                env[v.get_id()] = draw(v, pool)
        scaled = False
        if trial % every == every - 1 and fam_names:
            scaled = True
            sc = rnd.choice(SCALES)
            chosen = fam_names if rnd.random() < 0.3 else [rnd.choice(fam_names)]
            for f in chosen:
                for k in fams[f]:
                    env[k] = env[k] * sc
        try:
            ev = Evaluator(env)
            # resolve definitions (a few rounds for chains)
            pending = dict(defs)
            for _ in range(4):
                for k, e in list(pending.items()):
                    try:
                        env[k] = ev.ev(e)
                        del pending[k]
                    except Undefined:
                        pass
                if not pending:
                    break
            if pending:
                continue
            vals = tape.run(env, 0.0 if scaled else 1.0)      # magnitudes are the point of a scaled trial: purely relative closeness
            if _DEBUG and (trial == 0 or (trial % every == every - 1 and trial < 12)):
                print("   numeval trial", trial, "goal value", vals[tape.roots[-1]], flush=True)
                for t, ri in zip(pc, tape.roots):
                    if vals[ri] is not True:
                        print("   numeval: constraint", vals[ri], str(t)[:200].replace("\n", " "), flush=True)
            if not all(vals[ri] is True for ri in tape.roots[:-1]):
                continue
            if vals[tape.roots[-1]] is not False:
                continue
            ev = Evaluator(env)                 # confirm the candidate exactly / with 60 digits
            if not all(ev.ev(t) for t in pc):
                continue
            if ev.ev(goal):
                continue
            return NumModel(env, names)
        except (Undefined, ZeroDivisionError, OverflowError, ValueError, RecursionError):
            continue
    return None
