"""Symbolic scalar values with Python/numpy operator semantics over z3 terms.

Sorts: Python ``int`` -> SMT Int (SNum kind 'int'); ``float`` -> SMT Real
(ideal-real model, SNum kind 'real'); numpy int64 bit code -> BitVec 64 (SBV);
``complex`` -> pair of reals (SComplex); ``bool`` -> Bool (SBool).

Transcendental functions are uninterpreted; every application is recorded in
the active Context so that ground instances of the listed axioms can be added
when a query is discharged (no quantifiers are ever handed to the solver).
"""
import fractions
import math
import z3

_CTX = None


def ctx():
    if _CTX is None:
        raise RuntimeError("no active symbolic Context")
    return _CTX


def set_ctx(c):
    global _CTX
    _CTX = c


class SymbolicBranch(Exception):
    """raised when bool() is taken of a symbolic value outside a Context"""


def is_sym(x):
    return isinstance(x, Sym)


class Sym:
    __hash__ = object.__hash__

    # symbolic scalars are immutable values
    def __copy__(self):
        return self

    def __deepcopy__(self, memo):
        return self


def _const_to_z3_real(v):
    if isinstance(v, bool):
        v = int(v)
    if isinstance(v, int):
        return z3.RealVal(v)
    if isinstance(v, fractions.Fraction):
        return z3.RealVal(str(v))
    if isinstance(v, float):
        if math.isinf(v) or math.isnan(v):
            raise ValueError("non-finite float in symbolic arithmetic")
        # exact rational value of the binary64 number
        return z3.RealVal(str(fractions.Fraction(v)))
    raise TypeError(v)


def lift(v, prefer=None):
    """Lift a concrete python/numpy scalar to a Sym (or return the Sym)."""
    import numpy as np
    if isinstance(v, Sym):
        return v
    if isinstance(v, (bool, np.bool_)):
        return SBool(z3.BoolVal(bool(v)))
    if isinstance(v, (int, np.integer)):
        if prefer == 'bv':
            return SBV(z3.BitVecVal(int(v), 64))
        return SNum(z3.IntVal(int(v)), 'int')
    if isinstance(v, (float, np.floating, fractions.Fraction)):
        if isinstance(v, np.floating):
            v = float(v)
        return SNum(_const_to_z3_real(v), 'real')
    if isinstance(v, (complex, np.complexfloating)):
        v = complex(v)
        return SComplex(lift(v.real), lift(v.imag))
    raise TypeError("cannot lift %r" % (v,))


# --------------------------------------------------------------------------
class SBool(Sym):
    def __init__(self, t):
        self.t = z3.simplify(t) if not isinstance(t, bool) else z3.BoolVal(t)

    def __bool__(self):
        if z3.is_true(self.t):
            return True
        if z3.is_false(self.t):
            return False
        return ctx().decide(self.t)

    def __and__(self, o):
        return SBool(z3.And(self.t, lift(o).t))
    __rand__ = __and__

    def __or__(self, o):
        return SBool(z3.Or(self.t, lift(o).t))
    __ror__ = __or__

    def __invert__(self):
        return SBool(z3.Not(self.t))

    def __xor__(self, o):
        return SBool(z3.Xor(self.t, lift(o).t))

    def __eq__(self, o):
        return SBool(self.t == lift(o).t)

    def __ne__(self, o):
        return SBool(self.t != lift(o).t)

    def implies(self, o):
        return SBool(z3.Implies(self.t, lift(o).t))

    def ite(self, a, b):
        return ite(self, a, b)

    # python: int(True) == 1 (used in `x < 0` -> astype(int) patterns)
    def as_int(self):
        return SNum(z3.If(self.t, z3.IntVal(1), z3.IntVal(0)), 'int')

    def __repr__(self):
        return "SBool(%s)" % self.t


def ite(c, a, b):
    c = lift(c)
    if z3.is_true(c.t):
        return a
    if z3.is_false(c.t):
        return b
    a = lift(a) if not isinstance(a, Sym) else a
    b = lift(b) if not isinstance(b, Sym) else b
    if isinstance(a, SComplex) or isinstance(b, SComplex):
        a, b = to_complex(a), to_complex(b)
        return SComplex(ite(c, a.re, b.re), ite(c, a.im, b.im))
    if isinstance(a, SBool):
        return SBool(z3.If(c.t, a.t, b.t))
    if isinstance(a, SBV) or isinstance(b, SBV):
        a, b = to_bv(a), to_bv(b)
        return SBV(z3.If(c.t, a.t, b.t))
    a, b, k = _coerce(a, b)
    d = z3.simplify(a - b)
    if z3.is_int_value(d) or z3.is_rational_value(d):
        # ite(c, b+d, b) == b + ite(c, d, 0): keeps accumulators linear instead of nested
        zero = z3.IntVal(0) if k == 'int' else z3.RealVal(0)
        return SNum(b + z3.If(c.t, d, zero), k)
    return SNum(z3.If(c.t, a, b), k)


def _coerce(a, b):
    """two SNum/concrete -> (z3 a, z3 b, kind)"""
    a, b = lift(a), lift(b)
    if isinstance(a, SBool):
        a = a.as_int()
    if isinstance(b, SBool):
        b = b.as_int()
    if not isinstance(a, SNum) or not isinstance(b, SNum):
        raise TypeError("numeric op on %r, %r" % (a, b))
    if a.kind == b.kind:
        return a.t, b.t, a.kind
    ta = z3.ToReal(a.t) if a.kind == 'int' else a.t
    tb = z3.ToReal(b.t) if b.kind == 'int' else b.t
    return ta, tb, 'real'


def to_real_term(x):
    x = lift(x)
    if isinstance(x, SBool):
        x = x.as_int()
    if isinstance(x, SComplex):
        raise TypeError("complex where real expected")
    return z3.ToReal(x.t) if x.kind == 'int' else x.t


class SNum(Sym):
    """Int or Real valued scalar."""

    def __init__(self, t, kind):
        self.t = t
        self.kind = kind

    # ---- arithmetic
    def _bin(self, o, f, rev=False):
        if isinstance(o, SComplex) or isinstance(o, complex):
            a, b = to_complex(self), to_complex(o)
            if rev:
                a, b = b, a
            return f(a, b, None)
        if isinstance(o, SBV):
            raise TypeError("mixing Int/Real with BitVec")
        try:
            a, b, k = _coerce(self, o)
        except TypeError:
            return NotImplemented
        if rev:
            a, b = b, a
        return f(a, b, k)

    # ---- exact rational-function bookkeeping: a value computed with divisions remembers (numerator, denominator)
    # polynomials so that contracts can state equalities cross-multiplied (no division in the VC)
    def _fr(self):
        fr = getattr(self, 'frac', None)
        if fr is not None and not getattr(self, 'frac_abs', False):
            return fr
        return None

    @staticmethod
    def _frac_of(x):
        if isinstance(x, SNum):
            fr = x._fr()
            if fr is not None:
                return fr
            if getattr(x, 'frac_abs', False):
                return None
            return (x, None)
        if isinstance(x, (int, float, fractions.Fraction)) and not isinstance(x, bool):
            return (lift(x), None)
        return None

    def _with_frac(self, res, o, op):
        """propagate (num, den) through + - * when at least one operand carries a fraction"""
        if not isinstance(res, SNum):
            return res
        if self._fr() is None and not (isinstance(o, SNum) and o._fr() is not None):
            return res
        if _CTX is not None and not getattr(_CTX, 'frac_propagation', True):
            return res          # the contract compares structurally (same division atoms on both sides)
        fa, fb = SNum._frac_of(self), SNum._frac_of(o)
        if fa is None or fb is None:
            return res
        (na, da), (nb, db) = fa, fb
        one = SNum(z3.RealVal(1), 'real')
        if op == 'mul':
            n = na * nb
            d = da if db is None else (db if da is None else da * db)
        else:
            sgn = 1 if op == 'add' else -1
            if da is None and db is None:
                return res
            if da is not None and db is not None and z3.eq(da.t, db.t):
                n, d = (na + nb if sgn == 1 else na - nb), da
            else:
                da1 = one if da is None else da
                db1 = one if db is None else db
                n = na * db1 + nb * da1 if sgn == 1 else na * db1 - nb * da1
                d = da1 * db1
        n2, d2 = SNum(n.t, n.kind), SNum(d.t, d.kind)
        res.frac = (n2, d2)
        return res

    def __add__(self, o):
        return self._with_frac(self._bin(o, lambda a, b, k: a + b if k is None else SNum(a + b, k)), o, 'add')

    def __radd__(self, o):
        return self._with_frac(self._bin(o, lambda a, b, k: a + b if k is None else SNum(a + b, k), True), o, 'add')

    def __sub__(self, o):
        return self._with_frac(self._bin(o, lambda a, b, k: a - b if k is None else SNum(a - b, k)), o, 'sub')

    def __rsub__(self, o):
        r = self._bin(o, lambda a, b, k: a - b if k is None else SNum(a - b, k), True)
        if isinstance(r, SNum) and self._fr() is not None and isinstance(o, (int, float, fractions.Fraction, SNum)):
            lo = lift(o) if not isinstance(o, SNum) else o
            return lo._with_frac(r, self, 'sub') if isinstance(lo, SNum) else r
        return r

    def __mul__(self, o):
        return self._with_frac(self._bin(o, lambda a, b, k: a * b if k is None else SNum(a * b, k)), o, 'mul')

    def __rmul__(self, o):
        return self._with_frac(self._bin(o, lambda a, b, k: a * b if k is None else SNum(a * b, k), True), o, 'mul')

    @staticmethod
    def _div(a, b, k):
        if k is None:
            return a / b
        if k == 'int':
            a, b = z3.ToReal(a), z3.ToReal(b)
        ctx().note_division(b)
        r = SNum(a / b, 'real')
        # remember the exact numerator/denominator: lets a contract state `value == n/d`
        # as the two polynomial identities n == n_spec, d == d_spec (no division in the VC)
        r.frac = (SNum(a, 'real'), SNum(b, 'real'))
        return r

    def _div_frac(self, o, res, rev=False):
        """(na/da) / (nb/db) = (na db)/(da nb) when the operands themselves carry fractions"""
        if not isinstance(res, SNum):
            return res
        if _CTX is not None and not getattr(_CTX, 'frac_propagation', True):
            return res
        x, y = (o, self) if rev else (self, o)
        fa, fb = SNum._frac_of(x), SNum._frac_of(y)
        if fa is None or fb is None:
            return res
        (na, da), (nb, db) = fa, fb
        n = na if db is None else na * db
        d = nb if da is None else da * nb
        res.frac = (SNum(n.t, n.kind), SNum(d.t, d.kind))
        return res

    def __truediv__(self, o):
        r = self._div_frac(o, self._bin(o, SNum._div))
        if isinstance(r, SNum) and getattr(self, 'norm_radicand', None) is not None and isinstance(o, (int, float)):
            r.norm_radicand = self.norm_radicand          # value = sqrt(radicand) / constant
        return r

    def __rtruediv__(self, o):
        return self._div_frac(o, self._bin(o, SNum._div, True), True)

    @staticmethod
    def _floordiv(a, b, k):
        ctx().note_division(b)
        if k == 'int':
            # z3 Int div is euclidean (remainder >= 0); python's is floor:
            # they differ exactly when b < 0 and the remainder is non-zero.
            q = a / b
            return SNum(z3.If(z3.Or(b > 0, a % b == 0), q, q - 1), 'int')
        return SNum(z3.ToReal(z3.ToInt(a / b)), 'real')

    def __floordiv__(self, o):
        return self._bin(o, SNum._floordiv)

    def __rfloordiv__(self, o):
        return self._bin(o, SNum._floordiv, True)

    @staticmethod
    def _mod(a, b, k):
        if k == 'int':
            ctx().note_division(b)
            # python: result has the sign of b
            r = a % b                       # euclidean, 0 <= r < |b|
            return SNum(z3.If(z3.Or(b > 0, r == 0), r, r + b), 'int')
        raise TypeError("real modulo not modelled")

    def __mod__(self, o):
        return self._bin(o, SNum._mod)

    def __rmod__(self, o):
        return self._bin(o, SNum._mod, True)

    def __neg__(self):
        r = SNum(-self.t, self.kind)
        fr = self._fr()
        if fr is not None:
            r.frac = (SNum(-fr[0].t, fr[0].kind), fr[1])
        return r

    def __pos__(self):
        return self

    def __abs__(self):
        r = SNum(z3.If(self.t >= 0, self.t, -self.t), self.kind)
        fr = getattr(self, 'frac', None)
        if fr is not None:
            r.frac = fr                                # value == |n/d| (frac_abs marks the modulus)
            r.frac_abs = True
        return r

    def __pow__(self, e):
        if e == 2 and not isinstance(e, Sym) and getattr(self, 'norm_radicand', None) is not None \
                and z3.is_app(self.t) and self.t.decl().name() == 'sqrt':
            return self.norm_radicand            # (sqrt X)^2 == X for X >= 0
        if isinstance(e, SNum) and z3.is_int_value(e.t):
            e = e.t.as_long()
        if isinstance(e, SNum) and z3.is_rational_value(e.t):
            e = float(e.t.as_fraction())
        if isinstance(e, (int,)) or (isinstance(e, float) and e == int(e)):
            e = int(e)
            if e >= 0:
                r = SNum(z3.IntVal(1), 'int') if self.kind == 'int' else SNum(z3.RealVal(1), 'real')
                for _ in range(e):
                    r = r * self
                return r
            return 1.0 / (self ** (-e))
        if isinstance(e, float) and e == 0.5:
            return self.sqrt()
        if isinstance(e, float) and 0 < e < 0.5:
            n = round(1.0 / e)
            if 3 <= n <= 16 and e == 1.0 / n:
                return ctx().uf_apply('root%d' % n, [self])      # x ** (1./n): the n-th root (ideal reals)
        if isinstance(e, SNum) and e.kind == 'int':
            return ctx().uf_apply('powi', [self, e.to_real()])
        return ctx().uf_apply('pow', [self, lift(e)])

    def __rpow__(self, base):
        # base ** self
        if isinstance(base, (int, float)) and base == 10:
            return self.pow10()
        if isinstance(base, (int, float)) and base == 2 and self.kind == 'int':
            return ctx().uf_apply('pow2i', [self], kind='int')
        return ctx().uf_apply('pow', [lift(base), self])

    # ---- comparisons
    def _cmp(self, o, f):
        if isinstance(o, (SComplex, complex)):
            return NotImplemented
        try:
            a, b, _ = _coerce(self, o)
        except TypeError:
            return NotImplemented
        # sqrt(x) <op> sqrt(y)  <=>  x <op> y  for x, y >= 0 (sqrt strictly increasing): compare the
        # radicands when both are non-negative by construction (sums of squares)
        try:
            if z3.is_app(a) and z3.is_app(b) and a.decl().name() == 'sqrt' and b.decl().name() == 'sqrt' \
                    and getattr(self, 'sqrt_of_nonneg', False) and getattr(o, 'sqrt_of_nonneg', False):
                return SBool(f(a.arg(0), b.arg(0)))
        except Exception:
            pass
        return SBool(f(a, b))

    def __lt__(self, o):
        return self._cmp(o, lambda a, b: a < b)

    def __le__(self, o):
        return self._cmp(o, lambda a, b: a <= b)

    def __gt__(self, o):
        return self._cmp(o, lambda a, b: a > b)

    def __ge__(self, o):
        return self._cmp(o, lambda a, b: a >= b)

    def __eq__(self, o):
        if o is None:
            return False
        if isinstance(o, (SComplex, complex)):
            return to_complex(self) == o
        r = self._cmp(o, lambda a, b: a == b)
        return False if r is NotImplemented else r

    def __ne__(self, o):
        if o is None:
            return True
        r = self.__eq__(o)
        return ~r if isinstance(r, SBool) else (not r)

    def __bool__(self):
        return bool(self != 0)

    # ---- numpy ufunc protocol on object arrays / math-like methods
    def sqrt(self):
        return ctx().uf_apply('sqrt', [self])

    def exp(self):
        return ctx().uf_apply('exp', [self])

    def log10(self):
        return ctx().uf_apply('log10', [self])

    def log2(self):
        return ctx().uf_apply('log2', [self])

    def log(self):
        return ctx().uf_apply('ln', [self])

    def pow10(self):
        return ctx().uf_apply('pow10', [self])

    def cos(self):
        return ctx().uf_apply('cos', [self])

    def sin(self):
        return ctx().uf_apply('sin', [self])

    def conjugate(self):
        return self
    conj = conjugate

    def item(self):
        return self              # numpy scalar protocol: the value itself

    @property
    def real(self):
        return self

    @property
    def imag(self):
        return SNum(z3.IntVal(0), 'int')

    def to_real(self):
        if self.kind == 'real':
            return self
        return SNum(to_real_term(self), 'real')

    def __float__(self):
        raise SymbolicBranch("float() of a symbolic number")

    def __index__(self):
        if z3.is_int_value(self.t):
            return self.t.as_long()
        raise SymbolicBranch("symbolic int used as index")

    def __repr__(self):
        return "SNum[%s](%s)" % (self.kind, self.t)


# --------------------------------------------------------------------------
class SBV(Sym):
    """64-bit two's complement integer (numpy int64 / masked python int)."""

    def __init__(self, t):
        self.t = t

    def _o(self, o):
        return to_bv(o).t

    def __rshift__(self, o):
        # numpy int64 >> is arithmetic; for non-negative operands equals logical
        return SBV(self.t >> self._o(o))

    def __rrshift__(self, o):
        return SBV(self._o(o) >> self.t)

    def __lshift__(self, o):
        return SBV(self.t << self._o(o))

    def __xor__(self, o):
        return SBV(self.t ^ self._o(o))
    __rxor__ = __xor__

    def __and__(self, o):
        return SBV(self.t & self._o(o))
    __rand__ = __and__

    def __or__(self, o):
        return SBV(self.t | self._o(o))
    __ror__ = __or__

    def __invert__(self):
        return SBV(~self.t)

    def __add__(self, o):
        return SBV(self.t + self._o(o))
    __radd__ = __add__

    def __sub__(self, o):
        return SBV(self.t - self._o(o))

    def __rsub__(self, o):
        return SBV(self._o(o) - self.t)

    def __mul__(self, o):
        return SBV(self.t * self._o(o))
    __rmul__ = __mul__

    def __neg__(self):
        return SBV(-self.t)

    def __lt__(self, o):
        return SBool(self.t < self._o(o))

    def __le__(self, o):
        return SBool(self.t <= self._o(o))

    def __gt__(self, o):
        return SBool(self.t > self._o(o))

    def __ge__(self, o):
        return SBool(self.t >= self._o(o))

    def __eq__(self, o):
        if o is None:
            return False
        return SBool(self.t == self._o(o))

    def __ne__(self, o):
        if o is None:
            return True
        return SBool(self.t != self._o(o))

    def __bool__(self):
        return bool(self != 0)

    def __index__(self):
        s = z3.simplify(self.t)
        if z3.is_bv_value(s):
            return s.as_signed_long()
        raise SymbolicBranch("symbolic bitvector used as index")

    def __repr__(self):
        return "SBV(%s)" % self.t


def to_bv(x):
    if isinstance(x, SBV):
        return x
    if isinstance(x, SBool):
        return SBV(z3.If(x.t, z3.BitVecVal(1, 64), z3.BitVecVal(0, 64)))
    if isinstance(x, SNum):
        if z3.is_int_value(x.t):
            return SBV(z3.BitVecVal(x.t.as_long(), 64))
        return SBV(z3.Int2BV(x.t, 64))
    return lift(x, prefer='bv')


# --------------------------------------------------------------------------
class SComplex(Sym):
    def __init__(self, re, im):
        self.re = lift(re) if not isinstance(re, SNum) else re
        self.im = lift(im) if not isinstance(im, SNum) else im

    @staticmethod
    def _foreign(o):
        """operand types that bring their own reflected operators (generic-element sequences, arrays)"""
        return not isinstance(o, (Sym, int, float, complex, bool)) and not hasattr(o, '__float__') and not hasattr(o, '__complex__')

    def __add__(self, o):
        if SComplex._foreign(o):
            return NotImplemented
        o = to_complex(o)
        return SComplex(self.re + o.re, self.im + o.im)
    __radd__ = __add__

    def __sub__(self, o):
        if SComplex._foreign(o):
            return NotImplemented
        o = to_complex(o)
        return SComplex(self.re - o.re, self.im - o.im)

    def __rsub__(self, o):
        return to_complex(o) - self

    def __mul__(self, o):
        if SComplex._foreign(o):
            return NotImplemented
        o = to_complex(o)
        return SComplex(self.re * o.re - self.im * o.im, self.re * o.im + self.im * o.re)
    __rmul__ = __mul__

    def __truediv__(self, o):
        if SComplex._foreign(o):
            return NotImplemented
        if not isinstance(o, (SComplex, complex)):
            # 0 / o is 0 wherever the quotient is defined (o != 0 is a side obligation of the other component)
            zre, zim = _is_zero_poly(self.re), _is_zero_poly(self.im)
            zero = SNum(z3.IntVal(0), 'int')
            if zre and not zim:
                return SComplex(zero, self.im / o)
            if zim and not zre:
                return SComplex(self.re / o, zero)
            return SComplex(self.re / o, self.im / o)
        o = to_complex(o)
        if _is_zero_poly(o.im):
            # divisor is (polynomially) real: z = (a + jb)/c
            im = SNum(z3.IntVal(0), 'int') if _is_zero_poly(self.im) else self.im / o.re
            return SComplex(self.re / o.re, im)
        d = o.re * o.re + o.im * o.im
        n = self * o.conjugate()
        return SComplex(n.re / d, n.im / d)

    def __rtruediv__(self, o):
        return to_complex(o) / self

    def __neg__(self):
        return SComplex(-self.re, -self.im)

    def __pow__(self, e):
        if isinstance(e, int) and e >= 0:
            r = SComplex(1, 0)
            for _ in range(e):
                r = r * self
            return r
        raise TypeError("complex power not modelled")

    def conjugate(self):
        return SComplex(self.re, -self.im)
    conj = conjugate

    def abs2(self):
        return self.re * self.re + self.im * self.im

    def __abs__(self):
        pol = getattr(self, 'polar', None)
        if pol is not None:
            return pol[0]                    # value was introduced as m*(cos a + j sin a) with m >= 0
        if _is_zero_poly(self.im):
            return abs(self.re.to_real())
        r = self.abs2().to_real().sqrt()
        r.sqrt_of_nonneg = True          # radicand re^2 + im^2 >= 0
        return r

    @property
    def real(self):
        return self.re

    @property
    def imag(self):
        return self.im

    def exp(self):
        # e^(a+jb) = e^a (cos b + j sin b)
        c, s = self.im.to_real().cos(), self.im.to_real().sin()
        if z3.is_rational_value(z3.simplify(to_real_term(self.re))) and \
                z3.simplify(to_real_term(self.re)).as_fraction() == 0:
            return SComplex(c, s)
        m = self.re.to_real().exp()
        return SComplex(m * c, m * s)

    def __eq__(self, o):
        if o is None:
            return False
        o = to_complex(o)
        return (self.re == o.re) & (self.im == o.im)

    def __ne__(self, o):
        r = self.__eq__(o)
        return ~r if isinstance(r, SBool) else (not r)

    # numpy compares complex numbers lexicographically (real part first)
    def __lt__(self, o):
        o = to_complex(o)
        return (self.re < o.re) | ((self.re == o.re) & (self.im < o.im))

    def __gt__(self, o):
        o = to_complex(o)
        return (self.re > o.re) | ((self.re == o.re) & (self.im > o.im))

    def __repr__(self):
        return "SComplex(%s, %s)" % (self.re.t, self.im.t)


def _is_zero_poly(x):
    """True when the term is identically zero as a polynomial (z3 sum-of-monomials rewriter)"""
    x = lift(x)
    t = x.t

    def zero(v):
        if z3.is_int_value(v):
            return v.as_long() == 0
        if z3.is_rational_value(v):
            return v.as_fraction() == 0
        return None
    z = zero(t)
    if z is not None:
        return z
    from . import poly
    return poly.is_zero(t)


def polar(c, name):
    """a complex unknown given in polar form m*(cos a + j sin a), m >= 0: every complex number has such a form, and
    the library contracts |z| = m, angle(z) = a (mod 2 pi) then need no square roots"""
    m, a = c.var(name + ".abs", "real"), c.var(name + ".arg", "real")
    c.assume(m >= 0)
    z = SComplex(m * a.cos(), m * a.sin())
    z.polar = (m, a)
    return z


def frac_eq(a, b):
    """a == b for values carrying exact (numerator, denominator) polynomials: n_a d_b == n_b d_a
    (valid where the denominators are non-zero - a `requires` of the contract)"""
    a, b = lift(a), lift(b)
    fa, fb = SNum._frac_of(a), SNum._frac_of(b)
    if fa is None or fb is None:
        return a == b
    (na, da), (nb, db) = fa, fb
    one = SNum(z3.RealVal(1), 'real')
    da, db = (one if da is None else da), (one if db is None else db)
    return SNum(na.t, na.kind) * SNum(db.t, db.kind) == SNum(nb.t, nb.kind) * SNum(da.t, da.kind)


def cfrac_eq(a, b):
    a, b = to_complex(a), to_complex(b)
    return frac_eq(a.re, b.re) & frac_eq(a.im, b.im)


def to_complex(x):
    if isinstance(x, SComplex):
        return x
    if isinstance(x, SNum):
        return SComplex(x, SNum(z3.IntVal(0), 'int'))
    x = complex(x)
    return SComplex(lift(x.real), lift(x.imag))
