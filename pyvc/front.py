"""Front end: locate the real source of functions under contract in /repo.

Every run re-reads the files under REPO (default /repo) and parses them with
``ast``; nothing is cached between runs.  What extraction drops is exactly:
docstrings, comments, type annotations (kept only as hints), decorators are
recorded (not executed).
"""
import ast
import hashlib
import os

REPO = os.environ.get("PYVC_REPO", "/repo")


class FrontEndError(Exception):
    pass


_cache = {}


def module_path(module):
    p = os.path.join(REPO, *module.split(".")) + ".py"
    if not os.path.exists(p):
        p2 = os.path.join(REPO, *module.split("."), "__init__.py")
        if os.path.exists(p2):
            return p2
        raise FrontEndError("module source not found: %s (%s)" % (module, p))
    return p


def parse_module(module):
    path = module_path(module)
    with open(path, "rb") as f:
        raw = f.read()
    key = (path, hashlib.sha256(raw).hexdigest())
    if key in _cache:
        return _cache[key]
    tree = ast.parse(raw.decode("utf-8"), filename=path)
    for node in ast.walk(tree):
        for ch in ast.iter_child_nodes(node):
            ch._parent = node
    info = {"path": path, "sha256": key[1], "tree": tree,
            "text": raw.decode("utf-8")}
    _cache[key] = info
    return info


def _find(body, name, kind=None, prop=None):
    hits = []
    for n in body:
        if isinstance(n, (ast.FunctionDef, ast.ClassDef)) and n.name == name:
            hits.append(n)
    if not hits:
        return None
    if prop is None:
        # prefer the getter (decorated with @property or nothing)
        for h in hits:
            if isinstance(h, ast.ClassDef):
                return h
            decs = [ast.unparse(d) for d in h.decorator_list]
            if not any(d.endswith(".setter") or d.endswith(".deleter") for d in decs):
                return h
        return hits[0]
    for h in hits:
        decs = [ast.unparse(d) for d in h.decorator_list]
        if any(d.endswith("." + prop) for d in decs):
            return h
    return None


def locate(spec):
    """spec = 'pkg.mod:Class.method' or 'pkg.mod:func' or
    'pkg.mod:Class.prop@setter' or 'pkg.mod:func.<nested>'.
    Returns dict(node, module, qualname, path, sha256, lineno, end_lineno, src)."""
    module, _, qual = spec.partition(":")
    info = parse_module(module)
    prop = None
    if "@" in qual:
        qual, prop = qual.split("@")
    body = info["tree"].body
    node = None
    parts = qual.split(".")
    for i, part in enumerate(parts):
        last = i == len(parts) - 1
        node = _find(body, part, prop=prop if last else None)
        if node is None:
            raise FrontEndError("function under contract not found: %s" % spec)
        body = node.body
    seg = ast.get_source_segment(info["text"], node)
    return {"node": node, "module": module, "qualname": qual, "spec": spec,
            "path": info["path"], "sha256": info["sha256"],
            "lineno": node.lineno, "end_lineno": node.end_lineno,
            "src": seg,
            "src_sha256": hashlib.sha256(seg.encode()).hexdigest()}


def strip_docstring(node):
    """Return the body of a FunctionDef without its docstring."""
    body = list(node.body)
    if body and isinstance(body[0], ast.Expr) and isinstance(
            getattr(body[0], "value", None), ast.Constant) and isinstance(
                body[0].value.value, str):
        body = body[1:]
    return body


def code_without_docstrings(node):
    import copy
    n = copy.deepcopy(node)
    for sub in ast.walk(n):
        if isinstance(sub, (ast.FunctionDef, ast.ClassDef, ast.Module)):
            b = sub.body
            if b and isinstance(b[0], ast.Expr) and isinstance(
                    getattr(b[0], "value", None), ast.Constant) and isinstance(
                        b[0].value.value, str):
                sub.body = b[1:] or [ast.Pass()]
    return ast.unparse(n)


def module_constant(module, name):
    """Evaluate a module-level or class-level literal assignment ``name = <literal>``
    (e.g. prime tables) from the real source. name may be 'Class.attr'."""
    info = parse_module(module)
    body = info["tree"].body
    parts = name.split(".")
    for part in parts[:-1]:
        node = _find(body, part)
        if node is None:
            raise FrontEndError("not found: %s:%s" % (module, name))
        body = node.body
    for n in body:
        if isinstance(n, ast.Assign):
            for t in n.targets:
                if isinstance(t, ast.Name) and t.id == parts[-1]:
                    return n.value
        if isinstance(n, ast.AnnAssign) and isinstance(n.target, ast.Name) \
                and n.target.id == parts[-1]:
            return n.value
    raise FrontEndError("constant not found: %s:%s" % (module, name))
