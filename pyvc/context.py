"""Path context: path condition, branch decisions, uninterpreted functions with
ground axiom instances, side obligations, and the solver interface."""
import itertools
import time
import z3

from . import sym
from .sym import SNum, SBool, lift


class Infeasible(Exception):
    pass


class PathLimit(Exception):
    pass


REAL = z3.RealSort()
INT = z3.IntSort()

_UF = {}


def uf(name, arity=1, dom=REAL, rng=REAL):
    key = (name, arity, str(dom), str(rng))
    if key not in _UF:
        _UF[key] = z3.Function(name, *([dom] * arity + [rng]))
    return _UF[key]


# strictly increasing / decreasing unary functions over their domain
MONO_INC = {'sqrt', 'exp', 'log10', 'pow10', 'ln', 'log2', 'pow2i'}
MONO_DEC = {'qfunc'}
DOMAIN_POS = {'log10', 'ln', 'log2'}        # defined for x > 0
DOMAIN_NONNEG = {'sqrt'}

STATS = {"solver_calls": 0, "solver_time": 0.0, "feas_calls": 0}


class Context:
    def __init__(self, decisions=(), feas_timeout_ms=3000, name=""):
        self.name = name
        self.pc = []
        self.decisions = list(decisions)
        self.pos = 0
        self.pending = []
        self.apps = {}          # fname -> list of (arg terms tuple, result term)
        self.axioms = []        # ground axiom instances (z3 Bool)
        self.axiom_log = []     # names of axiom schemes used
        self.side = []          # (label, z3 Bool that must hold, pc snapshot len)
        self.breaches = []      # preconditions of library contracts that the caller does not establish for every admissible input
        self.fresh = itertools.count()
        self.feas_timeout_ms = feas_timeout_ms
        self.abstractions = []
        self.trace = []
        self.axioms_on = True

    # ------------------------------------------------------------ variables
    def var(self, name, kind='real'):
        n = "%s" % name
        if kind == 'real':
            return SNum(z3.Real(n), 'real')
        if kind == 'int':
            return SNum(z3.Int(n), 'int')
        if kind == 'bool':
            return SBool(z3.Bool(n))
        if kind == 'bv':
            return sym.SBV(z3.BitVec(n, 64))
        if kind == 'complex':
            return sym.SComplex(SNum(z3.Real(n + ".re"), 'real'), SNum(z3.Real(n + ".im"), 'real'))
        raise ValueError(kind)

    def fresh_var(self, base, kind='real'):
        return self.var("%s!%d" % (base, next(self.fresh)), kind)

    # ------------------------------------------------------------ assumptions
    def assume(self, b):
        b = lift(b)
        if not isinstance(b, SBool):
            raise TypeError("assume needs a boolean, got %r" % (b,))
        self.pc.append(b.t)

    def add_fact(self, b, scheme="lemma-instance"):
        """ground instance of a listed axiom / lemma (goes to the trusted axiom list)"""
        b = lift(b)
        self.axioms.append(b.t)
        if scheme not in self.axiom_log:
            self.axiom_log.append(scheme)

    def note_division(self, denom_term):
        if z3.is_rational_value(denom_term) or z3.is_int_value(denom_term):
            v = z3.simplify(denom_term)
            try:
                if v.as_fraction() != 0:
                    return
            except Exception:
                pass
        self.side.append(("div-by-zero", denom_term != 0, len(self.pc)))

    # ------------------------------------------------------------ UF
    def uf_apply(self, name, args, kind='real'):
        args = [lift(a) for a in args]
        terms = [sym.to_real_term(a) if kind == 'real' or name != 'pow2i' else a.t for a in args]
        if name == 'pow2i':
            f = uf(name, 1, INT, INT)
            terms = [args[0].t]
        else:
            f = uf(name, len(terms))
        terms = [z3.simplify(t) for t in terms]
        # constant folding for exact cases
        folded = self._fold(name, terms)
        r = f(*terms)
        lst = self.apps.setdefault(name, [])
        if not any(all(z3.eq(a, b) for a, b in zip(t0, terms)) for t0, _ in lst):
            lst.append((tuple(terms), r))
            self._instance_axioms(name, terms, r)
            if folded is not None:
                # exact value at a constant argument: stated as a ground fact about the
                # uninterpreted application, so applications at symbolic arguments that
                # turn out equal get the same value by congruence
                self._ax(r == folded.t if folded.kind == ('int' if name == 'pow2i' else 'real') else r == z3.ToReal(folded.t),
                         "%s at exact constants (e.g. %s(%s))" % (name, name, terms[0]))
        return SNum(r, 'int' if name == 'pow2i' else 'real')

    def _fold(self, name, terms):
        from fractions import Fraction
        if not all(z3.is_rational_value(t) or z3.is_int_value(t) for t in terms):
            return None
        v = [t.as_fraction() if not z3.is_int_value(t) else Fraction(t.as_long()) for t in terms]
        x = v[0]
        if name == 'sqrt' and x >= 0:
            import math
            n, d = x.numerator, x.denominator
            rn, rd = math.isqrt(n), math.isqrt(d)
            if rn * rn == n and rd * rd == d:
                return lift(Fraction(rn, rd))
        if name in ('exp', 'pow10') and x == 0:
            return lift(Fraction(1))
        if name == 'pow10' and x.denominator == 1 and abs(x) <= 40:
            return lift(Fraction(10) ** int(x))
        if name == 'pow2i' and x.denominator == 1 and 0 <= x <= 4096:
            return SNum(z3.IntVal(2 ** int(x)), 'int')
        if name in ('log10', 'ln', 'log2') and x == 1:
            return lift(Fraction(0))
        if name == 'log10' and x > 0:
            import math
            k = round(math.log10(x))
            if Fraction(10) ** k == x:
                return lift(Fraction(k))
        if name == 'log2' and x > 0:
            import math
            k = round(math.log2(x))
            if Fraction(2) ** k == x:
                return lift(Fraction(k))
        if name == 'cos' and x == 0:
            return lift(Fraction(1))
        if name == 'sin' and x == 0:
            return lift(Fraction(0))
        return None

    def _ax(self, t, scheme):
        self.axioms.append(t)
        if scheme not in self.axiom_log:
            self.axiom_log.append(scheme)

    def _instance_axioms(self, name, a, r):
        x = a[0]
        if name == 'sqrt':
            self._ax(z3.Implies(x >= 0, z3.And(r >= 0, r * r == x)), "sqrt(x)>=0 & sqrt(x)^2=x for x>=0")
            self.side.append(("domain:sqrt", x >= 0, len(self.pc)))
        elif name.startswith('root') and name[4:].isdigit():
            n = int(name[4:])
            pw = r
            for _ in range(n - 1):
                pw = pw * r
            self._ax(z3.Implies(x >= 0, z3.And(r >= 0, pw == x)), "root_n(x)>=0 & root_n(x)^n=x for x>=0")
            self._ax(z3.Implies(x > 0, r > 0), "root_n(x)>0 for x>0")
            self.side.append(("domain:" + name, x >= 0, len(self.pc)))
        elif name == 'exp':
            self._ax(r > 0, "exp(x)>0")
        elif name == 'pow10':
            self._ax(r > 0, "pow10(x)>0")
            self._ax(uf('log10')(r) == x, "log10(pow10(x))=x")
            self._ax(z3.And(z3.Implies(x > 0, r > 1), z3.Implies(x < 0, r < 1), z3.Implies(x == 0, r == 1)),
                     "pow10(x)<>1 according to sign of x")
        elif name == 'log10':
            self._ax(z3.Implies(x > 0, uf('pow10')(r) == x), "pow10(log10(x))=x for x>0")
            self._ax(z3.Implies(x > 0, z3.And(z3.Implies(x > 1, r > 0), z3.Implies(x < 1, r < 0),
                                              z3.Implies(x == 1, r == 0))), "sign of log10")
            self.side.append(("domain:log10", x > 0, len(self.pc)))
        elif name in ('ln', 'log2'):
            self._ax(z3.Implies(x > 0, z3.And(z3.Implies(x > 1, r > 0), z3.Implies(x < 1, r < 0),
                                              z3.Implies(x == 1, r == 0))), "sign of log")
            self.side.append(("domain:" + name, x > 0, len(self.pc)))
        elif name == 'cos':
            s = uf('sin')(x)
            self._ax(r * r + s * s == 1, "cos^2+sin^2=1")
            self._ax(z3.And(r >= -1, r <= 1, s >= -1, s <= 1), "|cos|,|sin|<=1")
            self._ax(z3.Implies(x == 0, z3.And(r == 1, s == 0)), "cos(0)=1, sin(0)=0")
        elif name == 'sin':
            c = uf('cos')(x)
            self._ax(r * r + c * c == 1, "cos^2+sin^2=1")
            self._ax(z3.And(r >= -1, r <= 1, c >= -1, c <= 1), "|cos|,|sin|<=1")
            self._ax(z3.Implies(x == 0, z3.And(c == 1, r == 0)), "cos(0)=1, sin(0)=0")
        elif name == 'qfunc':
            self._ax(z3.And(r > 0, r < 1), "0<Q(x)<1")
            self._ax(z3.And(z3.Implies(x == 0, 2 * r == 1), z3.Implies(x > 0, 2 * r < 1),
                            z3.Implies(x < 0, 2 * r > 1)), "Q(0)=1/2, Q decreasing through 1/2")
        elif name == 'pow2i':
            self._ax(z3.Implies(x >= 0, r >= 1), "2^k>=1")
        elif name == 'erfc':
            s2 = self.uf_apply('sqrt', [lift(2.0)])
            q = self.uf_apply('qfunc', [SNum(x, 'real') * s2])
            self._ax(r == 2 * q.t, "erfc(y) = 2 Q(sqrt(2) y)")
        elif name == 'powi':
            b, e = a[0], a[1]
            self._ax(z3.Implies(z3.And(b >= 0, b <= 1, e >= 1), z3.And(r >= 0, r <= b)), "0<=b<=1,e>=1 => 0<=b^e<=b")
            self._ax(z3.Implies(e == 1, r == b), "b^1=b")
            for (o, ro) in self.apps[name][:-1]:
                self._ax(z3.Implies(z3.And(o[1] == e, e >= 1, b >= 0, o[0] >= 0),
                                    z3.And((b <= o[0]) == (r <= ro), (b == o[0]) == (r == ro))),
                         "b^e increasing in b>=0 for fixed e>=1")
        if name in ('cos', 'sin'):
            # even / odd symmetry instances against earlier applications at the negated argument
            for (b, rb) in self.apps[name][:-1]:
                try:
                    z = z3.simplify(x + b[0])
                    if (z3.is_rational_value(z) or z3.is_int_value(z)) and z.as_fraction() == 0:
                        self._ax(r == rb if name == 'cos' else r == -rb, "cos(-x)=cos(x), sin(-x)=-sin(x)")
                except Exception:
                    pass
        # pairwise monotonicity / injectivity instances with earlier applications
        if name in MONO_INC or name in MONO_DEC:
            for (b, rb) in self.apps[name][:-1]:
                y = b[0]
                dom = z3.BoolVal(True)
                if name in DOMAIN_POS:
                    dom = z3.And(x > 0, y > 0)
                if name in DOMAIN_NONNEG:
                    dom = z3.And(x >= 0, y >= 0)
                if name in MONO_INC:
                    self._ax(z3.Implies(dom, z3.And((x < y) == (r < rb), (x == y) == (r == rb))),
                             "%s strictly increasing" % name)
                else:
                    self._ax(z3.Implies(dom, z3.And((x < y) == (r > rb), (x == y) == (r == rb))),
                             "%s strictly decreasing" % name)

    def trig_rules(self):
        """ground trigonometric relations among the cos/sin applications created so far, for the ring
        normaliser: sin^2(x) = 1 - cos^2(x); cos(-x) = cos(x); sin(-x) = -sin(x)"""
        eqs = getattr(self, 'ring_equalities', [])
        if eqs and not getattr(self, '_in_subst_rules', False):
            # equalities handed to the ring normaliser rewrite the registered applications as well
            def sub(t):
                for (x, y) in eqs:
                    t = z3.substitute(t, (x, y))
                return t
            saved = self.apps
            self.apps = {nm: [(tuple(sub(x) for x in a), sub(r)) for a, r in lst] for nm, lst in saved.items()}
            self._in_subst_rules = True
            try:
                return self.trig_rules()
            finally:
                self.apps = saved
                self._in_subst_rules = False
        cos_apps = {a[0].get_id(): (a[0], r) for a, r in self.apps.get('cos', [])}
        sin_apps = {a[0].get_id(): (a[0], r) for a, r in self.apps.get('sin', [])}
        sqrt_apps = self.apps.get('sqrt', [])
        root_apps = [(int(nm[4:]), a, r) for nm in self.apps if nm.startswith('root') and nm[4:].isdigit() for a, r in self.apps[nm]]
        if not cos_apps and not sin_apps and not sqrt_apps and not root_apps:
            return None
        pairs, rename = {}, {}
        for n, a, r in root_apps:
            try:
                from . import poly
                num, den = poly.to_rat(a[0])
                pairs[r.get_id()] = (n, num, den)           # root_n(X)^n = X
            except Exception:
                pass
        if sqrt_apps:
            from . import poly
            for a, r in sqrt_apps:
                try:
                    num, den = poly.to_rat(a[0])
                    if den == poly.ONE:
                        pairs[r.get_id()] = num             # sqrt(X)^2 = X (X >= 0 is a side obligation)
                    else:
                        pairs[r.get_id()] = (2, num, den)   # sqrt(N/D)^2 = N/D (D != 0 is a side obligation of the division)
                except Exception:
                    pass
        args = {}
        for k, (x, r) in list(cos_apps.items()) + list(sin_apps.items()):
            args[k] = x
        for k, x in args.items():
            c_t, s_t = uf('cos')(x), uf('sin')(x)
            pairs[s_t.get_id()] = c_t.get_id()
        keys = list(args)
        canon = {}
        for i, k in enumerate(keys):
            if k in canon:
                continue
            canon[k] = k
            for k2 in keys[i + 1:]:
                if k2 in canon:
                    continue
                try:
                    z = z3.simplify(args[k] + args[k2])
                    if (z3.is_rational_value(z) or z3.is_int_value(z)) and z.as_fraction() == 0:
                        canon[k2] = k
                        x, y = args[k], args[k2]
                        rename[uf('cos')(y).get_id()] = (1, uf('cos')(x).get_id())
                        rename[uf('sin')(y).get_id()] = (-1, uf('sin')(x).get_id())
                except Exception:
                    pass
        return (rename, pairs)

    # ------------------------------------------------------------ solver
    def _solver(self, timeout_ms):
        s = z3.Solver()
        s.set("timeout", int(timeout_ms))
        for t in self.pc:
            s.add(t)
        if self.axioms_on:
            for t in self.axioms:
                s.add(t)
        return s

    def check_sat(self, extra, timeout_ms):
        s = self._solver(timeout_ms)
        for e in extra:
            s.add(e)
        t0 = time.time()
        r = s.check()
        STATS["solver_calls"] += 1
        STATS["solver_time"] += time.time() - t0
        return r, s

    def decide(self, cond):
        if self.pos < len(self.decisions):
            b = self.decisions[self.pos]
        else:
            if len(self.decisions) > 4000:
                raise PathLimit("too many decisions on one path")
            STATS["feas_calls"] += 1
            rt, _ = self.check_sat([cond], self.feas_timeout_ms)
            rf, _ = self.check_sat([z3.Not(cond)], self.feas_timeout_ms)
            can_t = rt != z3.unsat
            can_f = rf != z3.unsat
            if can_t and can_f:
                b = True
                self.pending.append(self.decisions[:self.pos] + [False])
            elif can_t:
                b = True
            elif can_f:
                b = False
            else:
                raise Infeasible()
            self.decisions.append(b)
        self.pos += 1
        self.pc.append(cond if b else z3.Not(cond))
        return b

    def prove(self, goal, timeout_ms=20000, extra_assumptions=(), guided=True):
        """Return (verdict, info). verdict in proved / refuted / unknown.
        refuted carries a model (dict name->value)."""
        goal = lift(goal)
        if not isinstance(goal, SBool):
            raise TypeError("prove needs a boolean goal")
        gt = goal.t
        for (a, b) in getattr(self, 'ring_equalities', []):
            gt = z3.substitute(gt, (a, b))          # equalities proved under the path condition (add_ring_equality)
        if _ring_shaped(gt) and _term_size(gt, 250) >= 250:
            # a LARGE identity-shaped goal: a polynomial non-identity expands without cancelling and can keep the normaliser busy for
            # minutes, while a handful of random points expose it at once - screen first (finding nothing costs a few evaluations)
            try:
                from . import numeval
                nm = numeval.search(self._all_constraints(extra_assumptions), goal.t, trials=4, seed=len(self.pc) + 17)
                import os
                if os.environ.get("PYVC_DEBUG"):
                    print("pre-screen of a large identity goal:", "counterexample" if nm is not None else "nothing found", flush=True)
                if nm is not None:
                    STATS["numeric_refutations"] = STATS.get("numeric_refutations", 0) + 1
                    return "refuted", nm
            except Exception:
                import os
                if os.environ.get("PYVC_DEBUG"):
                    import traceback
                    traceback.print_exc()
        if _ring_valid(gt, self.trig_rules()):
            # the goal is a conjunction of polynomial identities that hold by the commutative-ring
            # axioms alone (exact sum-of-monomials normal form); no solver call needed
            STATS["ring_proofs"] = STATS.get("ring_proofs", 0) + 1
            return "proved", None
        if _ring_shaped(gt):
            # an identity the normaliser could not validate: it is either false almost everywhere (then evaluation at a few random
            # rational points exposes it at once) or true only thanks to the path condition (then the solver has to show it)
            try:
                from . import numeval
                nm = numeval.search(self._all_constraints(extra_assumptions), goal.t, trials=40, seed=len(self.pc))
                if nm is not None:
                    STATS["numeric_refutations"] = STATS.get("numeric_refutations", 0) + 1
                    return "refuted", nm
            except Exception:
                import os
                if os.environ.get("PYVC_DEBUG"):
                    import traceback
                    traceback.print_exc()
        r, s = self.check_sat(list(extra_assumptions) + [z3.Not(goal.t)], timeout_ms)
        if r == z3.unsat:
            return "proved", None
        if r == z3.sat:
            m = s.model()
            return "refuted", m
        m = self._guided_refutation(goal, extra_assumptions) if guided else None
        if m is not None:
            return "refuted", m
        return "unknown", s

    def _all_constraints(self, extra=()):
        """everything a model has to satisfy: path condition, stated facts and ground axiom instances"""
        return list(self.pc) + (list(self.axioms) if self.axioms_on else []) + list(extra)

    def _guided_refutation(self, goal, extra_assumptions=(), trials=6, per_trial_ms=4000):
        """The nonlinear solver gave up on `path condition and not goal`.  A polynomial NON-identity is false almost everywhere, so
        pin (most of) the free variables to random small rationals and ask again: the query becomes (nearly) ground.  Any model
        found satisfies the complete path condition and falsifies the goal - a genuine counterexample; failing to find one
        proves nothing (the verdict stays `unknown`)."""
        import random
        from z3 import z3util
        try:
            from . import numeval
            nm = numeval.search(self._all_constraints(extra_assumptions), goal.t, trials=200, seed=len(self.pc))
            if nm is not None:
                STATS["numeric_refutations"] = STATS.get("numeric_refutations", 0) + 1
                return nm
        except Exception:
            import os
            if os.environ.get("PYVC_DEBUG"):
                import traceback
                traceback.print_exc()
        try:
            from . import numeval
            terms = [goal.t] + list(self.pc) + list(extra_assumptions)
            vs = [v for v in numeval.free_consts(terms).values() if z3.is_real(v) or z3.is_int(v)]
            if not vs:
                return None
            rnd = random.Random(len(vs) * 7919 + len(self.pc))
            squares = [z3.RealVal(x) for x in ("1", "4", "1/4", "9/4", "9", "1/9", "16", "25/4")]
            plain = [z3.RealVal(x) for x in ("1", "2", "-1", "1/2", "3", "-2", "3/2", "-1/2", "5", "-3", "2/3", "7/4")]
            for trial in range(trials):
                frac = (1.0, 1.0, 0.9, 0.9, 0.75, 0.6)[min(trial, 5)]
                pins = []
                for v in vs:
                    if rnd.random() > frac:
                        continue
                    if z3.is_int(v):
                        pins.append(v == rnd.choice([0, 1, 2, 3, -1, 5]))
                    else:
                        pins.append(v == rnd.choice(squares if trial % 2 == 0 else plain))
                r, s = self.check_sat(list(extra_assumptions) + [z3.Not(goal.t)] + pins, per_trial_ms)
                if r == z3.sat:
                    STATS["guided_refutations"] = STATS.get("guided_refutations", 0) + 1
                    return s.model()
        except Exception:
            return None
        return None

    def add_ring_equality(self, a, b, timeout_ms=5000):
        """if the path condition entails a == b, let the ring normaliser rewrite a to b (in the order given).  Returns True iff added."""
        a, b = lift(a), lift(b)
        for (x, y) in getattr(self, 'ring_equalities', []):
            a, b = SNum(z3.substitute(a.t, (x, y)), a.kind), SNum(z3.substitute(b.t, (x, y)), b.kind)
        if z3.eq(a.t, b.t):
            return True
        if self.prove(a == b, timeout_ms=timeout_ms)[0] != "proved":
            return False
        if not hasattr(self, 'ring_equalities'):
            self.ring_equalities = []
        self.ring_equalities.append((a.t, b.t))
        return True

    def smt2(self, goal):
        s = self._solver(1000)
        s.add(z3.Not(lift(goal).t))
        return s.to_smt2()


def _term_size(t, cap):
    """number of distinct sub-terms, counted up to cap"""
    seen = set()
    stack = [t]
    while stack and len(seen) < cap:
        x = stack.pop()
        i = x.get_id()
        if i in seen:
            continue
        seen.add(i)
        stack.extend(x.children())
    return len(seen)


def _ring_shaped(t):
    """conjunction / disjunction of arithmetic equalities"""
    try:
        if z3.is_and(t) or z3.is_or(t):
            return all(_ring_shaped(c) for c in t.children())
        if z3.is_eq(t):
            a, b = t.children()
            return z3.is_arith(a) and z3.is_arith(b)
    except Exception:
        pass
    return False


def _ring_valid(t, trig=None):
    from . import poly
    try:
        if z3.is_true(t):
            return True
        if z3.is_and(t):
            return all(_ring_valid(c, trig) for c in t.children())
        if z3.is_or(t):
            # a product == 0 is often presented as a disjunction of factor == 0: one identically valid disjunct suffices
            return any(_ring_valid(c, trig) for c in t.children())
        if z3.is_eq(t):
            a, b = t.children()
            if z3.is_arith(a) and z3.is_arith(b):
                return poly.is_zero(a - b, trig=trig)
    except Exception:
        return False
    return False


def model_value(m, x):
    """evaluate a Sym / z3 term in a model to a python number"""
    from fractions import Fraction
    if isinstance(x, sym.SComplex):
        return complex(float(model_value(m, x.re)), float(model_value(m, x.im)))
    t = x.t if isinstance(x, sym.Sym) else x
    v = m.eval(t, model_completion=True)
    if z3.is_int_value(v):
        return v.as_long()
    if z3.is_rational_value(v):
        return Fraction(v.numerator_as_long(), v.denominator_as_long())
    if z3.is_bv_value(v):
        return v.as_signed_long()
    if z3.is_true(v):
        return True
    if z3.is_false(v):
        return False
    if z3.is_algebraic_value(v):
        return Fraction(v.approx(20).numerator_as_long(), v.approx(20).denominator_as_long())
    return str(v)


def explore(run, max_paths=20000, name="", on_path=None):
    """Run ``run(ctx)`` once per feasible path. Returns list of (ctx, outcome)."""
    work = [[]]
    out = []
    n = 0
    while work:
        dec = work.pop()
        c = Context(dec, name=name)
        sym.set_ctx(c)
        try:
            res = run(c)
        except Infeasible:
            work.extend(c.pending)
            continue
        finally:
            sym.set_ctx(None)
        work.extend(c.pending)
        out.append((c, res))
        n += 1
        if n > max_paths:
            raise PathLimit("more than %d paths in %s" % (max_paths, name))
    return out
