"""AST interpreter that symbolically executes the real source text of functions
under /repo.  Structure (shapes, list lengths, dict keys, object identity) is
concrete on each path; scalars may be symbolic (pyvc.sym).  numpy arrays holding
symbolic scalars are real ``numpy.ndarray`` objects of dtype=object, so indexing,
slicing, broadcasting, reshape, transposition, stacking ... are executed by the
real numpy with its real semantics; only scalar arithmetic is symbolic.

A construct the interpreter does not understand raises EngineError (the check
then exits 3) - nothing is skipped silently.
"""
import ast
import os
import builtins
import importlib
import inspect
import math
import operator
import types

import numpy as np

from . import front, sym
from .sym import Sym, SNum, SBool, SBV, SComplex, lift, is_sym


class EngineError(Exception):
    pass


_ENGINE_TYPE_NAMES = ("'SNum'", "'SBV'", "'SComplex'", "'SBool'", "'SymSeq'", "'AffineSeq'", "SNum object", "SComplex object",
                      "SBool object", "SBV object", "'IFunc'", "IFunc object", "'SObj'", "SObj object", "'_SuperProxy'", "'Opaque'")


_ENGINE_VALUE_FILES = ("sym.py", "seq.py", "poly.py", "context.py", "numeval.py")


class PyRaise(Exception):
    """an exception raised by the interpreted program"""

    def __init__(self, exc):
        # a TypeError/ValueError that names one of the engine's own value classes was not raised by the program under contract
        # but by native code that was handed a symbolic value it cannot take (hash(), bytes, C-level float()): that is a
        # limitation of the engine - a checker fault (exit 3), never a refuted obligation
        if isinstance(exc, (TypeError, ValueError)) and any(n in str(exc) for n in _ENGINE_TYPE_NAMES):
            raise EngineError("symbolic value reached native code that cannot take it: %s: %s" % (type(exc).__name__, str(exc)[:200]))
        # likewise an exception raised INSIDE the engine's value classes (an operation the symbolic numbers / sequences do not
        # model) says nothing about the program
        tb = getattr(exc, "__traceback__", None)
        last = None
        while tb is not None:
            last = tb
            tb = tb.tb_next
        if last is not None and os.path.basename(last.tb_frame.f_code.co_filename) in _ENGINE_VALUE_FILES \
                and os.path.dirname(os.path.abspath(last.tb_frame.f_code.co_filename)) == os.path.dirname(os.path.abspath(__file__)):
            raise EngineError("operation not modelled by the engine's symbolic values (%s:%d): %s: %s" % (
                os.path.basename(last.tb_frame.f_code.co_filename), last.tb_lineno, type(exc).__name__, str(exc)[:200]))
        Exception.__init__(self, repr(exc))
        self.exc = exc


class _Return(Exception):
    def __init__(self, v):
        self.v = v


class _Break(Exception):
    pass


class _Continue(Exception):
    pass


class Opaque(Sym):
    """Uninterpreted value (e.g. a whole matrix) - only equality and
    uninterpreted operations are known about it."""
    import z3 as _z3
    SORT = _z3.DeclareSort('Val')

    def __init__(self, t):
        self.t = t

    @staticmethod
    def var(name):
        import z3
        return Opaque(z3.Const(name, Opaque.SORT))

    @staticmethod
    def app(fname, *args):
        import z3
        ts = []
        for a in args:
            if isinstance(a, Opaque):
                ts.append(a.t)
            elif isinstance(a, SNum):
                ts.append(a.t)
            elif isinstance(a, (int,)):
                ts.append(z3.IntVal(a))
            elif isinstance(a, float):
                ts.append(lift(a).t)
            elif a is None:
                ts.append(z3.Const('None!val', Opaque.SORT))
            elif isinstance(a, np.ndarray) and a.dtype != object:
                ts.append(z3.Const('const!%s' % abs(hash(a.tobytes())), Opaque.SORT))
            else:
                raise EngineError("cannot pass %r to uninterpreted %s" % (a, fname))
        f = z3.Function(fname, *([t.sort() for t in ts] + [Opaque.SORT]))
        return Opaque(f(*ts))

    def __eq__(self, o):
        if o is None:
            return False
        if isinstance(o, Opaque):
            return SBool(self.t == o.t)
        return False

    def __ne__(self, o):
        r = self.__eq__(o)
        return ~r if isinstance(r, SBool) else (not r)

    def _b(self, name, o, rev=False):
        return Opaque.app(name, *((o, self) if rev else (self, o)))

    def __mul__(self, o):
        return self._b('mul', o)

    def __rmul__(self, o):
        return self._b('mul', o, True)

    def __add__(self, o):
        return self._b('add', o)

    def __radd__(self, o):
        return self._b('add', o, True)

    def __sub__(self, o):
        return self._b('sub', o)

    def __truediv__(self, o):
        return self._b('div', o)

    def __matmul__(self, o):
        return self._b('matmul', o)

    def sqrt(self):
        return Opaque.app('sqrt_v', self)

    def conjugate(self):
        return Opaque.app('conj_v', self)
    conj = conjugate

    def __repr__(self):
        return "Opaque(%s)" % self.t


class SObj:
    """instance of a /repo class whose methods are interpreted from source"""

    def __init__(self, cls):
        object.__setattr__(self, 'cls', cls)
        object.__setattr__(self, 'fields', {})

    def __repr__(self):
        return "<SObj %s %s>" % (self.cls.__name__, sorted(self.fields))

    def __copy__(self):
        # copy.copy of an instance: new object, attribute dict copied one level
        o = SObj(self.cls)
        o.fields.update(self.fields)
        return o

    def __deepcopy__(self, memo):
        import copy as _copy
        o = SObj(self.cls)
        memo[id(self)] = o
        for k, v in self.fields.items():
            o.fields[k] = _copy.deepcopy(v, memo)
        return o


COVERAGE = set() if os.environ.get('PYVC_COVERAGE') else None      # (module, line) of interpreted statements (tools/coverage_report.py)


class IFunc:
    def __init__(self, node, module, closure, interp, defining_class=None, qualname=None):
        self.node = node
        self.module = module
        self.closure = closure
        self.interp = interp
        self.defining_class = defining_class
        self.qualname = qualname or getattr(node, 'name', '<lambda>')
        self.defaults = None
        self.kw_defaults = None

    def __repr__(self):
        return "<IFunc %s:%s>" % (self.module.__name__, self.qualname)


class BoundMethod:
    def __init__(self, func, self_obj):
        self.func = func
        self.self_obj = self_obj


class Frame:
    def __init__(self, module, parent=None, defining_class=None):
        self.vars = {}
        self.module = module
        self.parent = parent
        self.defining_class = defining_class

    def lookup(self, name):
        f = self
        while f is not None:
            if name in f.vars:
                return f.vars[name]
            f = f.parent
        g = self.module.__dict__
        if name in g:
            return g[name]
        if hasattr(builtins, name):
            return getattr(builtins, name)
        raise PyRaise(NameError("name %r is not defined" % name))

    def find_frame(self, name):
        f = self
        while f is not None:
            if name in f.vars:
                return f
            f = f.parent
        return None


def contains_sym(v, depth=0):
    if isinstance(v, (Sym, SObj)):
        return True
    if isinstance(v, np.ndarray):
        if v.dtype == object:
            return any(contains_sym(x, depth + 1) for x in v.flat)
        return False
    if isinstance(v, (list, tuple, set, frozenset)) and depth < 4:
        return any(contains_sym(x, depth + 1) for x in v)
    if isinstance(v, dict) and depth < 4:
        return any(contains_sym(x, depth + 1) for x in v.values())
    return False


def _box(x):
    """0-d object array around a symbolic scalar (so numpy broadcasts it)"""
    if isinstance(x, Sym):
        b = np.empty((), dtype=object)
        b[()] = x
        return b
    return x


def obj_array(a):
    """convert an array to dtype=object (keeping python scalars)"""
    if isinstance(a, np.ndarray) and a.dtype == object:
        return a
    a = np.asarray(a)
    out = np.empty(a.shape, dtype=object)
    it = np.nditer(a, flags=['multi_index', 'refs_ok', 'zerosize_ok'])
    for x in it:
        v = x.item()
        out[it.multi_index] = v
    return out


_BINOPS = {
    ast.Add: operator.add, ast.Sub: operator.sub, ast.Mult: operator.mul,
    ast.Div: operator.truediv, ast.FloorDiv: operator.floordiv, ast.Mod: operator.mod,
    ast.Pow: operator.pow, ast.LShift: operator.lshift, ast.RShift: operator.rshift,
    ast.BitOr: operator.or_, ast.BitXor: operator.xor, ast.BitAnd: operator.and_,
    ast.MatMult: operator.matmul,
}
_CMPOPS = {
    ast.Eq: operator.eq, ast.NotEq: operator.ne, ast.Lt: operator.lt, ast.LtE: operator.le,
    ast.Gt: operator.gt, ast.GtE: operator.ge,
}


class Interp:
    def __init__(self, ctx, models=None, contracts=None, modular=(), max_steps=2_000_000,
                 repo_prefix="pyphysim"):
        self.ctx = ctx
        self.models = dict(DEFAULT_MODELS)
        if models:
            self.models.update(models)
        self.contracts = contracts or {}
        self.modular = set(modular)
        self.steps = 0
        self.max_steps = max_steps
        self.repo_prefix = repo_prefix
        self.functions_entered = {}     # spec -> info (for evidence)
        self.loop_hooks = {}            # (spec, ordinal) -> hook
        self.stmt_hook = None           # callable(interp, stmt, frame) run before every interpreted statement (asynchronous-interrupt points)
        self.forward = {}               # id(numeric array) -> (array, object array that replaced it)
        self._ifunc_cache = {}
        self.native_prefixes = []
        self.native_used = set()

    # ------------------------------------------------------------------ API
    def call_spec(self, spec, *args, **kwargs):
        """Interpret function `module:qualname` of /repo with the given arguments."""
        fn = self.ifunc_from_spec(spec)
        return self.call(fn, list(args), kwargs)

    def ifunc_from_spec(self, spec):
        info = front.locate(spec)
        module = importlib.import_module(info["module"])
        parts = info["qualname"].split(".")
        defining = None
        if len(parts) > 1:
            defining = module.__dict__.get(parts[0])
        f = IFunc(info["node"], module, None, self, defining, info["qualname"])
        self.functions_entered.setdefault(spec, {"path": info["path"], "lines": [info["lineno"], info["end_lineno"]],
                                                 "src_sha256": info["src_sha256"]})
        return f

    def new_object(self, cls, **fields):
        o = SObj(cls)
        o.fields.update(fields)
        return o

    # ------------------------------------------------------------ functions
    def ifunc_from_real(self, fn):
        """IFunc for a real function object defined in the repository."""
        code = fn.__code__
        key = (fn.__module__, code.co_firstlineno, fn.__name__)
        if key in self._ifunc_cache:
            return self._ifunc_cache[key]
        info = front.parse_module(fn.__module__)
        target = None
        for node in ast.walk(info["tree"]):
            if isinstance(node, (ast.FunctionDef, ast.Lambda)):
                first = node.lineno
                if isinstance(node, ast.FunctionDef) and node.decorator_list:
                    first = min(first, min(d.lineno for d in node.decorator_list))
                if first == code.co_firstlineno and getattr(node, 'name', '<lambda>') == fn.__name__:
                    target = node
                    break
        if target is None:
            raise EngineError("source of %s.%s not found" % (fn.__module__, fn.__qualname__))
        module = importlib.import_module(fn.__module__)
        defining = None
        qn = fn.__qualname__.split(".")
        if len(qn) > 1 and "<locals>" not in qn:
            defining = module.__dict__.get(qn[0])
        f = IFunc(target, module, None, self, defining, fn.__qualname__)
        seg_first, seg_last = target.lineno, target.end_lineno
        self.functions_entered.setdefault("%s:%s" % (fn.__module__, fn.__qualname__),
                                          {"path": info["path"], "lines": [seg_first, seg_last]})
        self._ifunc_cache[key] = f
        return f

    def _is_native(self, fn):
        """repo functions declared outside the state under contract (progress bars, timing, option
        parsing): executed by the real interpreter, not symbolically (listed in the evidence)"""
        q = "%s:%s" % (getattr(fn, '__module__', ''), getattr(fn, '__qualname__', ''))
        for p in self.native_prefixes:
            if q.startswith(p):
                self.native_used.add(p)
                return True
        return False

    def is_repo_callable(self, fn):
        return isinstance(fn, types.FunctionType) and (fn.__module__ or "").startswith(self.repo_prefix)

    def is_repo_class(self, c):
        return inspect.isclass(c) and (getattr(c, '__module__', '') or "").startswith(self.repo_prefix) \
            and not issubclass(c, BaseException)

    def bind_args(self, f, args, kwargs):
        node = f.node
        a = node.args
        frame_vars = {}
        params = [p.arg for p in a.posonlyargs + a.args]
        defaults = a.defaults
        ndef = len(defaults)
        args = list(args)
        # positional
        for i, name in enumerate(params):
            if i < len(args):
                frame_vars[name] = args[i]
        extra = args[len(params):]
        if a.vararg is not None:
            frame_vars[a.vararg.arg] = tuple(extra)
        elif extra:
            raise PyRaise(TypeError("%s() takes %d positional arguments but %d were given" % (
                f.qualname, len(params), len(args))))
        kwargs = dict(kwargs)
        for name in params:
            if name in kwargs:
                if name in frame_vars:
                    raise PyRaise(TypeError("multiple values for argument %r" % name))
                frame_vars[name] = kwargs.pop(name)
        for ko in a.kwonlyargs:
            if ko.arg in kwargs:
                frame_vars[ko.arg] = kwargs.pop(ko.arg)
        if a.kwarg is not None:
            frame_vars[a.kwarg.arg] = kwargs
        elif kwargs:
            raise PyRaise(TypeError("unexpected keyword arguments %r" % sorted(kwargs)))
        # defaults are evaluated in the defining scope (module/closure)
        dframe = Frame(f.module, f.closure, f.defining_class)
        for i, name in enumerate(params):
            if name not in frame_vars:
                di = i - (len(params) - ndef)
                if di < 0:
                    raise PyRaise(TypeError("missing argument %r of %s" % (name, f.qualname)))
                frame_vars[name] = self.eval(defaults[di], dframe)
        for ko, d in zip(a.kwonlyargs, a.kw_defaults):
            if ko.arg not in frame_vars:
                if d is None:
                    raise PyRaise(TypeError("missing kw-only argument %r" % ko.arg))
                frame_vars[ko.arg] = self.eval(d, dframe)
        return frame_vars

    def call_ifunc(self, f, args, kwargs):
        frame = Frame(f.module, f.closure, f.defining_class)
        frame.vars.update(self.bind_args(f, args, kwargs))
        if isinstance(f.node, ast.Lambda):
            return self.eval(f.node.body, frame)
        frame.func = f
        try:
            self.exec_block(front.strip_docstring(f.node), frame)
        except _Return as r:
            return r.v
        return None

    def call(self, fn, args, kwargs=None):
        kwargs = kwargs or {}
        self.steps += 1
        if self.steps > self.max_steps:
            raise EngineError("step limit exceeded")
        if isinstance(fn, BoundMethod):
            return self.call(fn.func, [fn.self_obj] + list(args), kwargs)
        if isinstance(fn, IFunc):
            key = "%s:%s" % (fn.module.__name__, fn.qualname)
            if key in self.modular and key in self.contracts:
                return self.contracts[key](self, *args, **kwargs)
            if key in self.models:
                return self.models[key](self, *args, **kwargs)
            return self.call_ifunc(fn, args, kwargs)
        # models for library functions (keyed by identity of the real object or by name)
        m = self._find_model(fn)
        if m is not None:
            return m(self, *args, **kwargs)
        if isinstance(fn, types.MethodType):
            # bound method of a real object
            f0 = fn.__func__
            if self.is_repo_callable(f0) and not self._is_native(f0):
                return self.call(self.ifunc_from_real(f0), [fn.__self__] + list(args), kwargs)
        if self.is_repo_callable(fn) and self._is_native(fn):
            return self.call_real(fn, args, kwargs)
        if self.is_repo_callable(fn):
            key = "%s:%s" % (fn.__module__, fn.__qualname__)
            if key in self.modular and key in self.contracts:
                return self.contracts[key](self, *args, **kwargs)
            return self.call(self.ifunc_from_real(fn), args, kwargs)
        if self.is_repo_class(fn):
            if self._is_native(fn) or issubclass(fn, (dict, list, tuple)):
                # TypedDict / NamedTuple style classes: plain containers built by the real constructor
                return self.call_real(fn, args, kwargs)
            return self.instantiate(fn, args, kwargs)
        if type(fn).__name__ == 'DUFunc' and hasattr(fn, '_dispatcher') and \
                self.is_repo_callable(fn._dispatcher.py_func):
            # @numba.vectorize: the scalar python body applied element-wise (numba's
            # compilation itself is trusted, T5)
            key = "%s:%s" % (fn._dispatcher.py_func.__module__, fn._dispatcher.py_func.__qualname__)
            if key in self.modular and key in self.contracts:
                f0 = lambda *xs: self.contracts[key](self, *xs)
                if any(isinstance(x, np.ndarray) for x in args):
                    return np.frompyfunc(f0, len(args), 1)(*args)
                return f0(*args)
            f0 = self.ifunc_from_real(fn._dispatcher.py_func)
            if any(isinstance(x, np.ndarray) for x in args):
                uf = np.frompyfunc(lambda *xs: self.call(f0, list(xs), {}), len(args), 1)
                return uf(*args)
            return self.call(f0, args, kwargs)
        if inspect.isclass(fn) and issubclass(fn, BaseException):
            return fn(*[self._concretize_msg(a) for a in args])
        # real callable: allowed when it can run on these values
        return self.call_real(fn, args, kwargs)

    def _concretize_msg(self, a):
        return a if not contains_sym(a) else "<symbolic>"

    def _find_model(self, fn):
        try:
            if fn in self.models:
                return self.models[fn]
        except TypeError:
            pass
        name = getattr(fn, '__qualname__', None) or getattr(fn, '__name__', None)
        mod = getattr(fn, '__module__', None)
        if name and ("%s.%s" % (mod, name)) in self.models:
            return self.models["%s.%s" % (mod, name)]
        if isinstance(fn, types.BuiltinMethodType) or isinstance(fn, types.MethodType):
            slf = getattr(fn, '__self__', None)
            if isinstance(slf, np.ndarray):
                k = "ndarray." + fn.__name__
                if k in self.models:
                    mm = self.models[k]
                    return lambda interp, *a, **kw: mm(interp, slf, *a, **kw)
        return None

    def call_real(self, fn, args, kwargs):
        try:
            return fn(*args, **kwargs)
        except (sym.SymbolicBranch,) as e:
            raise EngineError("library call %r needs a model for symbolic arguments: %s" % (fn, e))
        except (EngineError, PyRaise, _Return):
            raise
        except Exception as e:
            from .context import Infeasible, PathLimit
            if isinstance(e, (Infeasible, PathLimit)):
                raise
            if contains_sym(args) or contains_sym(kwargs):
                # an exception from a library routine fed with symbolic values is an
                # engine limitation unless it is one numpy raises for structural reasons
                if isinstance(e, (IndexError, ValueError, ZeroDivisionError, KeyError)):
                    raise PyRaise(e)
                raise EngineError("library call %r failed on symbolic arguments: %r" % (fn, e))
            raise PyRaise(e)

    def instantiate(self, cls, args, kwargs):
        o = SObj(cls)
        init = inspect.getattr_static(cls, '__init__', None)
        if isinstance(init, types.FunctionType) and self.is_repo_callable(init):
            self.call(self.ifunc_from_real(init), [o] + list(args), kwargs)
        elif init is not object.__init__ and init is not None and not isinstance(init, type(object.__init__)):
            raise EngineError("cannot instantiate %r symbolically" % cls)
        return o

    # ------------------------------------------------------------ attributes
    def _mangle(self, name, frame):
        if name.startswith('__') and not name.endswith('__') and frame.defining_class is not None:
            return '_%s%s' % (frame.defining_class.__name__.lstrip('_'), name)
        return name

    def getattr(self, obj, name, frame=None):
        if frame is not None:
            name = self._mangle(name, frame)
        if isinstance(obj, SObj):
            if name in obj.fields:
                return obj.fields[name]
            if name == '__class__':
                return obj.cls
            if name == '__dict__':
                return obj.fields
            try:
                st = inspect.getattr_static(obj.cls, name)
            except AttributeError:
                raise PyRaise(AttributeError("%r object has no attribute %r" % (obj.cls.__name__, name)))
            if isinstance(st, property):
                return self.call(self._as_callable(st.fget), [obj])
            if isinstance(st, staticmethod):
                return self._as_callable(st.__func__)
            if isinstance(st, classmethod):
                return BoundMethod(self._as_callable(st.__func__), obj.cls)
            if isinstance(st, types.FunctionType):
                return BoundMethod(self._as_callable(st), obj)
            return st
        if isinstance(obj, _SuperProxy):
            mro = obj.obj.cls.__mro__ if isinstance(obj.obj, SObj) else type(obj.obj).__mro__
            idx = mro.index(obj.cls)
            for c in mro[idx + 1:]:
                if name in c.__dict__:
                    st = c.__dict__[name]
                    if isinstance(st, types.FunctionType):
                        if not self.is_repo_callable(st):
                            if st is object.__init__ or c is object:
                                return lambda *a, **k: None
                            return types.MethodType(st, obj.obj)
                        return BoundMethod(self._as_callable(st), obj.obj)
                    if isinstance(st, property):
                        return self.call(self._as_callable(st.fget), [obj.obj])
                    if c is object and name == '__init__':
                        return lambda *a, **k: None
                    return st
            if name == '__init__':
                return lambda *a, **k: None
            raise PyRaise(AttributeError(name))
        if inspect.isclass(obj) and self.is_repo_class(obj):
            try:
                st = inspect.getattr_static(obj, name)
            except AttributeError:
                raise PyRaise(AttributeError("type %r has no attribute %r" % (obj.__name__, name)))
            if isinstance(st, staticmethod):
                return self._as_callable(st.__func__)
            if isinstance(st, classmethod):
                return BoundMethod(self._as_callable(st.__func__), obj)
            if isinstance(st, types.FunctionType):
                return self._as_callable(st)
            if isinstance(st, property):
                return st
            return st
        if isinstance(obj, np.ndarray) and obj.dtype == object and name in ('real', 'imag'):
            f = np.frompyfunc(lambda x: getattr(x, name) if is_sym(x) else getattr(complex(x), name), 1, 1)
            return f(obj)
        if isinstance(obj, Sym):
            if name == 'size':
                return 1
            if name == 'shape':
                return ()
            if name == 'ndim':
                return 0
            if name == 'dtype':
                if isinstance(obj, SComplex):
                    return np.dtype(complex)
                if isinstance(obj, SNum) and obj.kind == 'int' or isinstance(obj, SBV):
                    return np.dtype(int)
                return np.dtype(float)
            if name == 'T':
                return obj
            if name in ('item', 'copy', 'flatten') and isinstance(obj, (SNum, SComplex, SBV, Opaque)):
                return lambda *a, **k: obj
            if name == 'astype':
                return lambda t, *a, **k: MODELS_astype(self, obj, t)
            if name == 'setflags' and isinstance(obj, Opaque):
                return lambda *a, **k: None
            if name == 'shape' and isinstance(obj, Opaque):
                raise EngineError("shape of opaque value")
        try:
            return getattr(obj, name)
        except AttributeError as e:
            raise PyRaise(e)

    def _as_callable(self, fn):
        if self.is_repo_callable(fn):
            return self.ifunc_from_real(fn)
        return fn

    def setattr(self, obj, name, value, frame=None):
        if frame is not None:
            name = self._mangle(name, frame)
        if isinstance(obj, SObj):
            try:
                st = inspect.getattr_static(obj.cls, name)
            except AttributeError:
                st = None
            if isinstance(st, property):
                if st.fset is None:
                    raise PyRaise(AttributeError("can't set attribute %r" % name))
                self.call(self._as_callable(st.fset), [obj, value])
                return
            obj.fields[name] = value
            return
        if isinstance(obj, np.ndarray) and name == 'shape':
            obj.shape = value
            return
        try:
            setattr(obj, name, value)
        except Exception as e:
            raise PyRaise(e)

    # ------------------------------------------------------------ statements
    def exec_block(self, stmts, frame):
        for s in stmts:
            self.exec_stmt(s, frame)

    def exec_stmt(self, s, frame):
        if COVERAGE is not None:
            COVERAGE.add((getattr(frame.module, '__name__', '?'), s.lineno))
        self.steps += 1
        if self.steps > self.max_steps:
            raise EngineError("step limit exceeded")
        if self.stmt_hook is not None:
            self.stmt_hook(self, s, frame)
        m = getattr(self, 'stmt_' + type(s).__name__, None)
        if m is None:
            raise EngineError("statement %s not supported (line %d)" % (type(s).__name__, s.lineno))
        m(s, frame)

    def stmt_Pass(self, s, frame):
        pass

    def stmt_Expr(self, s, frame):
        self.eval(s.value, frame)

    def stmt_Return(self, s, frame):
        raise _Return(self.eval(s.value, frame) if s.value is not None else None)

    def stmt_Break(self, s, frame):
        raise _Break()

    def stmt_Continue(self, s, frame):
        raise _Continue()

    def stmt_Import(self, s, frame):
        for a in s.names:
            mod = importlib.import_module(a.name)
            frame.vars[a.asname or a.name.split('.')[0]] = mod if a.asname else importlib.import_module(a.name.split('.')[0])

    def stmt_ImportFrom(self, s, frame):
        pkg = frame.module.__package__ if s.level else None
        name = ('.' * s.level) + (s.module or '')
        mod = importlib.import_module(name, pkg)
        for a in s.names:
            frame.vars[a.asname or a.name] = getattr(mod, a.name)

    def stmt_Global(self, s, frame):
        raise EngineError("global statement")

    def stmt_Nonlocal(self, s, frame):
        frame.nonlocals = getattr(frame, 'nonlocals', set()) | set(s.names)

    def stmt_FunctionDef(self, s, frame):
        f = IFunc(s, frame.module, frame, self, frame.defining_class,
                  (getattr(getattr(frame, 'func', None), 'qualname', '') + '.<locals>.' + s.name))
        frame.vars[s.name] = f

    def stmt_Delete(self, s, frame):
        for t in s.targets:
            if isinstance(t, ast.Name):
                frame.vars.pop(t.id, None)
            elif isinstance(t, ast.Subscript):
                base = self.eval(t.value, frame)
                idx = self.eval_index(t.slice, frame)
                try:
                    del base[idx]
                except Exception as e:
                    raise PyRaise(e)
            else:
                raise EngineError("del target")

    def stmt_Assign(self, s, frame):
        v = self.eval(s.value, frame)
        for t in s.targets:
            self.assign(t, v, frame)

    def stmt_AnnAssign(self, s, frame):
        if s.value is not None:
            self.assign(s.target, self.eval(s.value, frame), frame)

    def stmt_AugAssign(self, s, frame):
        t = s.target
        op = _BINOPS[type(s.op)]
        if isinstance(t, ast.Name):
            cur = frame.lookup(t.id)
            if self.forward and isinstance(cur, np.ndarray):
                cur = self.forwarded(cur)
            new = self.binop(op, cur, self.eval(s.value, frame), inplace=True)
            self.assign(t, new, frame)
        elif isinstance(t, ast.Attribute):
            obj = self.eval(t.value, frame)
            cur = self.getattr(obj, t.attr, frame)
            new = self.binop(op, cur, self.eval(s.value, frame), inplace=True)
            self.setattr(obj, t.attr, new, frame)
        elif isinstance(t, ast.Subscript):
            base = self.eval(t.value, frame)
            idx = self.eval_index(t.slice, frame)
            cur = self.subscript(base, idx)
            new = self.binop(op, cur, self.eval(s.value, frame))
            self.store_subscript(t, base, idx, new, frame)
        else:
            raise EngineError("augassign target")

    def assign(self, t, v, frame):
        if isinstance(t, ast.Name):
            if t.id in getattr(frame, 'nonlocals', ()):
                f = frame.parent.find_frame(t.id) if frame.parent else None
                if f is None:
                    raise EngineError("nonlocal %s not found" % t.id)
                f.vars[t.id] = v
            else:
                frame.vars[t.id] = v
        elif isinstance(t, (ast.Tuple, ast.List)):
            try:
                vals = list(v)
            except TypeError as e:
                raise PyRaise(e)
            star = [i for i, e in enumerate(t.elts) if isinstance(e, ast.Starred)]
            if star:
                i = star[0]
                after = len(t.elts) - i - 1
                for e, x in zip(t.elts[:i], vals[:i]):
                    self.assign(e, x, frame)
                self.assign(t.elts[i].value, vals[i:len(vals) - after], frame)
                for e, x in zip(t.elts[i + 1:], vals[len(vals) - after:]):
                    self.assign(e, x, frame)
                return
            if len(vals) != len(t.elts):
                raise PyRaise(ValueError("cannot unpack %d values into %d targets" % (len(vals), len(t.elts))))
            for e, x in zip(t.elts, vals):
                self.assign(e, x, frame)
        elif isinstance(t, ast.Attribute):
            self.setattr(self.eval(t.value, frame), t.attr, v, frame)
        elif isinstance(t, ast.Subscript):
            base = self.eval(t.value, frame)
            idx = self.eval_index(t.slice, frame)
            self.store_subscript(t, base, idx, v, frame)
        else:
            raise EngineError("assignment target %s" % type(t).__name__)

    def store_subscript(self, t, base, idx, v, frame):
        if isinstance(base, np.ndarray) and base.dtype != object and contains_sym(v):
            # the real array cannot hold symbolic scalars: switch the container to
            # dtype=object and rebind the expression it came from
            nb = obj_array(base)
            self._rebind(t.value, nb, frame)
            self.forward_array(base, nb)
            base = nb
        if isinstance(base, SObj):
            si = inspect.getattr_static(base.cls, '__setitem__', None)
            if si is None:
                raise PyRaise(TypeError("object does not support item assignment"))
            self.call(self._as_callable(si), [base, idx, v])
            return
        if isinstance(idx, np.ndarray) and idx.dtype == object and idx.size and \
                any(isinstance(x, SBool) for x in idx.flat) and isinstance(base, np.ndarray) \
                and idx.shape == base.shape:
            # boolean-mask assignment with a symbolic mask: element-wise if-then-else
            vv = np.broadcast_to(v, base.shape) if not isinstance(v, Sym) else None
            for pos in np.ndindex(base.shape):
                newv = v if vv is None else vv[pos]
                base[pos] = sym.ite(idx[pos], newv, base[pos])
            return
        idx = self._concrete_index(idx)
        try:
            base[idx] = v
        except (sym.SymbolicBranch,) as e:
            raise EngineError("store with symbolic index: %s" % e)
        except Exception as e:
            if isinstance(e, (EngineError, PyRaise)):
                raise
            from .context import Infeasible
            if isinstance(e, Infeasible):
                raise
            raise PyRaise(e)

    def _rebind(self, expr, value, frame):
        if isinstance(expr, ast.Name):
            f = frame.find_frame(expr.id)
            (f or frame).vars[expr.id] = value
        elif isinstance(expr, ast.Attribute):
            self.setattr(self.eval(expr.value, frame), expr.attr, value, frame)
        elif isinstance(expr, ast.Subscript):
            b = self.eval(expr.value, frame)
            b[self._concrete_index(self.eval_index(expr.slice, frame))] = value
        else:
            raise EngineError("cannot rebind container expression %s" % ast.dump(expr)[:80])

    def stmt_If(self, s, frame):
        t = self.eval(s.test, frame)
        if getattr(self, 'if_conversion', True) and isinstance(t, SBool) and not (sym.z3.is_true(t.t) or sym.z3.is_false(t.t)) \
                and self._simple_block(s.body) and self._simple_block(s.orelse):
            # if-conversion: both branches only assign local names -> merge with ite
            # instead of forking the path (keeps loops over bits linear)
            base = dict(frame.vars)
            self.exec_block(s.body, frame)
            v_then = frame.vars
            frame.vars = dict(base)
            self.exec_block(s.orelse, frame)
            v_else = frame.vars
            merged = dict(base)
            for k in set(v_then) | set(v_else):
                a = v_then.get(k, _MISSING)
                b = v_else.get(k, _MISSING)
                if a is b:
                    merged[k] = a
                    continue
                if a is _MISSING or b is _MISSING:
                    raise EngineError("if-conversion: %r bound on one branch only" % k)
                try:
                    merged[k] = sym.ite(t, a, b)
                except TypeError:
                    raise EngineError("if-conversion: cannot merge %r" % k)
            frame.vars = merged
            return
        if self.truth(t):
            self.exec_block(s.body, frame)
        else:
            self.exec_block(s.orelse, frame)

    _PURE_CALLS = {'float', 'int', 'abs', 'min', 'max', 'complex', 'bool'}

    def _simple_block(self, stmts):
        for st in stmts:
            if isinstance(st, ast.Pass):
                continue
            if isinstance(st, (ast.Assign, ast.AugAssign, ast.AnnAssign)):
                targets = st.targets if isinstance(st, ast.Assign) else [st.target]
                if not all(isinstance(t, ast.Name) for t in targets):
                    return False
                if getattr(st, 'value', None) is None:
                    return False
                for n in ast.walk(st.value):
                    if isinstance(n, ast.Call):
                        if not (isinstance(n.func, ast.Name) and n.func.id in self._PURE_CALLS):
                            return False
                    if isinstance(n, (ast.Lambda, ast.ListComp, ast.GeneratorExp, ast.Subscript, ast.Attribute)):
                        return False
                continue
            return False
        return True

    def stmt_While(self, s, frame):
        hook = self.loop_hooks.get(id(s)) or self.loop_hooks.get(('line', s.lineno))
        if hook is not None:
            return hook(self, s, frame)
        n = 0
        while self.truth(self.eval(s.test, frame)):
            n += 1
            if n > 100000:
                raise EngineError("while loop does not terminate symbolically (line %d)" % s.lineno)
            try:
                self.exec_block(s.body, frame)
            except _Break:
                return
            except _Continue:
                continue
        self.exec_block(s.orelse, frame)

    def stmt_For(self, s, frame):
        hook = self.loop_hooks.get(id(s)) or self.loop_hooks.get(('line', s.lineno))
        if hook is not None:
            return hook(self, s, frame)
        it = self.eval(s.iter, frame)
        for x in self.iterate(it):
            self.assign(s.target, x, frame)
            try:
                self.exec_block(s.body, frame)
            except _Break:
                return
            except _Continue:
                continue
        self.exec_block(s.orelse, frame)

    def iterate(self, it):
        if isinstance(it, SObj):
            f = inspect.getattr_static(it.cls, '__iter__', None)
            if f is None:
                raise PyRaise(TypeError("object is not iterable"))
            return self.iterate(self.call(self._as_callable(f), [it]))
        if isinstance(it, Sym):
            raise EngineError("iteration over a symbolic scalar/length (needs a loop invariant)")
        try:
            return iter(it)
        except TypeError as e:
            raise PyRaise(e)

    def stmt_Raise(self, s, frame):
        if s.exc is None:
            cur = getattr(frame, 'current_exc', None)
            if cur is None:
                raise EngineError("bare raise outside except")
            raise PyRaise(cur)
        e = self.eval(s.exc, frame)
        if inspect.isclass(e):
            e = e()
        raise PyRaise(e)

    def stmt_Assert(self, s, frame):
        # `assert isinstance(...)` : type assumption; any other assert may fail
        v = self.eval(s.test, frame)
        if not self.truth(v):
            msg = self.eval(s.msg, frame) if s.msg is not None else ""
            raise PyRaise(AssertionError(self._concretize_msg(msg)))

    def stmt_Try(self, s, frame):
        try:
            try:
                self.exec_block(s.body, frame)
            except PyRaise as pr:
                for h in s.handlers:
                    if h.type is None:
                        match = True
                    else:
                        et = self.eval(h.type, frame)
                        match = isinstance(pr.exc, et)
                    if match:
                        if h.name:
                            frame.vars[h.name] = pr.exc
                        old = getattr(frame, 'current_exc', None)
                        frame.current_exc = pr.exc
                        try:
                            self.exec_block(h.body, frame)
                        finally:
                            frame.current_exc = old
                        break
                else:
                    raise
            else:
                self.exec_block(s.orelse, frame)
        finally:
            if s.finalbody:
                self.exec_block(s.finalbody, frame)

    def stmt_With(self, s, frame):
        # context managers are handled through models: the model of the context
        # expression returns an object with __enter__/__exit__ python methods
        mgrs = []
        for item in s.items:
            cm = self.eval(item.context_expr, frame)
            if not hasattr(cm, '__enter__'):
                raise EngineError("with-statement on unmodelled object")
            v = cm.__enter__()
            if item.optional_vars is not None:
                self.assign(item.optional_vars, v, frame)
            mgrs.append(cm)
        try:
            self.exec_block(s.body, frame)
        except PyRaise as pr:
            for cm in reversed(mgrs):
                cm.__exit__(type(pr.exc), pr.exc, None)
            raise
        for cm in reversed(mgrs):
            cm.__exit__(None, None, None)

    # ------------------------------------------------------------ expressions
    def truth(self, v):
        if isinstance(v, SBool):
            return bool(v)
        if isinstance(v, Sym):
            if isinstance(v, Opaque):
                raise EngineError("truth value of an opaque value")
            return bool(v)
        if isinstance(v, SObj):
            f = inspect.getattr_static(v.cls, '__bool__', None)
            if f is not None:
                return self.truth(self.call(self._as_callable(f), [v]))
            f = inspect.getattr_static(v.cls, '__len__', None)
            if f is not None:
                return self.truth(self.call(self._as_callable(f), [v]) != 0)
            return True
        if isinstance(v, np.ndarray) and v.dtype == object and v.size == 1:
            return self.truth(v.reshape(-1)[0])
        try:
            return bool(v)
        except ValueError as e:
            raise PyRaise(e)

    def eval(self, e, frame):
        m = getattr(self, 'expr_' + type(e).__name__, None)
        if m is None:
            raise EngineError("expression %s not supported (line %d)" % (type(e).__name__, getattr(e, 'lineno', -1)))
        v = m(e, frame)
        if self.forward and isinstance(v, np.ndarray):
            v = self.forwarded(v)
        return v

    def forwarded(self, v):
        """A numeric array that had to become an object array (it received symbolic values) is replaced by that object array
        wherever the old array is still referenced: aliasing through a kept reference (work buffers, cached results) survives."""
        n = 0
        while id(v) in self.forward and n < 8:
            v = self.forward[id(v)][1]
            n += 1
        return v

    def forward_array(self, old, new):
        if old is not new:
            self.forward[id(old)] = (old, new)        # the old array is kept alive so that its id is not reused

    def expr_Constant(self, e, frame):
        return e.value

    def expr_Name(self, e, frame):
        return frame.lookup(e.id)

    def expr_Tuple(self, e, frame):
        return tuple(self._elts(e.elts, frame))

    def expr_List(self, e, frame):
        return list(self._elts(e.elts, frame))

    def expr_Set(self, e, frame):
        return set(self._elts(e.elts, frame))

    def _elts(self, elts, frame):
        out = []
        for x in elts:
            if isinstance(x, ast.Starred):
                out.extend(self.iterate(self.eval(x.value, frame)))
            else:
                out.append(self.eval(x, frame))
        return out

    def expr_Dict(self, e, frame):
        d = {}
        for k, v in zip(e.keys, e.values):
            if k is None:
                d.update(self.eval(v, frame))
            else:
                d[self.eval(k, frame)] = self.eval(v, frame)
        return d

    def expr_JoinedStr(self, e, frame):
        parts = []
        for v in e.values:
            if isinstance(v, ast.Constant):
                parts.append(str(v.value))
            else:
                x = self.eval(v.value, frame)
                parts.append("<symbolic>" if contains_sym(x) else format(x, self.eval(v.format_spec, frame) if v.format_spec else ''))
        return ''.join(parts)

    def expr_Attribute(self, e, frame):
        return self.getattr(self.eval(e.value, frame), e.attr, frame)

    def expr_Lambda(self, e, frame):
        return IFunc(e, frame.module, frame, self, frame.defining_class, '<lambda>')

    def expr_IfExp(self, e, frame):
        if self.truth(self.eval(e.test, frame)):
            return self.eval(e.body, frame)
        return self.eval(e.orelse, frame)

    def expr_BoolOp(self, e, frame):
        if isinstance(e.op, ast.And):
            v = True
            for x in e.values:
                v = self.eval(x, frame)
                if not self.truth(v):
                    return v
            return v
        v = False
        for x in e.values:
            v = self.eval(x, frame)
            if self.truth(v):
                return v
        return v

    def expr_UnaryOp(self, e, frame):
        v = self.eval(e.operand, frame)
        if isinstance(e.op, ast.Not):
            return not self.truth(v)
        if isinstance(e.op, ast.USub):
            return self._guard(operator.neg, v)
        if isinstance(e.op, ast.UAdd):
            return v
        if isinstance(e.op, ast.Invert):
            return self._guard(operator.invert, v)
        raise EngineError("unary op")

    def _guard(self, f, *a):
        try:
            return f(*a)
        except (EngineError, PyRaise, sym.SymbolicBranch):
            raise
        except Exception as e:
            from .context import Infeasible, PathLimit
            if isinstance(e, (Infeasible, PathLimit)):
                raise
            raise PyRaise(e)

    _DUNDER = {operator.add: ('__add__', '__radd__'), operator.sub: ('__sub__', '__rsub__'), operator.mul: ('__mul__', '__rmul__'),
               operator.truediv: ('__truediv__', '__rtruediv__'), operator.matmul: ('__matmul__', '__rmatmul__')}

    def binop(self, op, a, b, inplace=False):
        if isinstance(a, SObj) or isinstance(b, SObj):
            names = self._DUNDER.get(op)
            if names is None:
                raise EngineError("operator on repo object")
            if isinstance(a, SObj) and inplace:
                # `a op= b` on an object: Python tries the in-place method (__imul__, __iadd__, ...) first
                fi = inspect.getattr_static(a.cls, "__i" + names[0][2:], None)
                if fi is not None:
                    return self.call(self._as_callable(fi), [a, b])
            if isinstance(a, SObj):
                f = inspect.getattr_static(a.cls, names[0], None)
                if f is not None:
                    return self.call(self._as_callable(f), [a, b])
            if isinstance(b, SObj):
                f = inspect.getattr_static(b.cls, names[1], None)
                if f is not None:
                    return self.call(self._as_callable(f), [b, a])
            raise PyRaise(TypeError("unsupported operand types for %s" % names[0]))
        if isinstance(a, np.ndarray) and a.dtype != object and contains_sym(b):
            a0 = a
            a = obj_array(a)
            if inplace:
                self.forward_array(a0, a)         # `x op= symbolic`: every reference to x sees the update
        if isinstance(b, np.ndarray) and b.dtype != object and contains_sym(a):
            b = obj_array(b)
        if (isinstance(a, np.ndarray) or isinstance(b, np.ndarray)) and (contains_sym(a) or contains_sym(b)):
            if op is operator.matmul:
                return self._guard(np.dot, a, b)
            # element-wise with numpy broadcasting; scalar arithmetic is symbolic
            try:
                r = np.frompyfunc(lambda x, y: op(x, y), 2, 1)(_box(a), _box(b))
            except (EngineError, PyRaise, sym.SymbolicBranch):
                raise
            except Exception as e:
                from .context import Infeasible, PathLimit
                if isinstance(e, (Infeasible, PathLimit)):
                    raise
                raise PyRaise(e)
            if inplace and isinstance(a, np.ndarray) and a.dtype == object and isinstance(r, np.ndarray) \
                    and r.shape == a.shape:
                a[...] = r          # in-place semantics (views/aliases see the update)
                return a
            return r
        if op is operator.truediv and not contains_sym(a) and not contains_sym(b):
            # python float division by zero raises; numpy warns - keep real semantics
            pass
        return self._guard(op, a, b)

    def expr_BinOp(self, e, frame):
        a = self.eval(e.left, frame)
        b = self.eval(e.right, frame)
        return self.binop(_BINOPS[type(e.op)], a, b)

    def expr_Compare(self, e, frame):
        left = self.eval(e.left, frame)
        result = True
        for op, rn in zip(e.ops, e.comparators):
            right = self.eval(rn, frame)
            r = self.compare(op, left, right)
            if len(e.ops) == 1:
                return r
            if not self.truth(r):
                return r if not isinstance(r, Sym) else False
            result = r
            left = right
        return result

    def compare(self, op, a, b):
        if isinstance(op, ast.Is):
            return self._is(a, b)
        if isinstance(op, ast.IsNot):
            return not self._is(a, b)
        if isinstance(op, (ast.In, ast.NotIn)):
            r = self._contains(b, a)
            return (not r) if isinstance(op, ast.NotIn) else r
        f = _CMPOPS[type(op)]
        if isinstance(a, SObj) or isinstance(b, SObj):
            o = a if isinstance(a, SObj) else b
            other = b if o is a else a
            nm = {ast.Eq: '__eq__', ast.NotEq: '__ne__'}.get(type(op))
            if nm is None:
                raise EngineError("ordering on repo objects")
            st = inspect.getattr_static(o.cls, '__eq__', None)
            if st is None or st is object.__eq__:
                r = o is other
            else:
                r = self.call(self._as_callable(st), [o, other])
            if nm == '__ne__':
                st2 = inspect.getattr_static(o.cls, '__ne__', None)
                if st2 is not None and st2 is not object.__ne__ and self.is_repo_callable(st2):
                    return self.call(self._as_callable(st2), [o, other])
                return (not self.truth(r)) if not isinstance(r, SBool) else ~r
            return r
        if (isinstance(a, np.ndarray) or isinstance(b, np.ndarray)) and (contains_sym(a) or contains_sym(b)):
            return self._guard(lambda x, y: np.frompyfunc(lambda u, v: f(u, v), 2, 1)(_box(x), _box(y)), a, b)
        return self._guard(f, a, b)

    def _is(self, a, b):
        if a is None or b is None:
            return a is b
        if isinstance(a, SBool) and isinstance(b, bool):
            # `x is True` on a symbolic bool: decide it
            return bool(a) is b
        if isinstance(b, SBool) and isinstance(a, bool):
            return bool(b) is a
        return a is b

    def _contains(self, container, item):
        if isinstance(container, SObj):
            f = inspect.getattr_static(container.cls, '__contains__', None)
            if f is None:
                raise EngineError("`in` on repo object without __contains__")
            return self.call(self._as_callable(f), [container, item])
        if is_sym(item) and isinstance(container, (list, tuple, set, frozenset, np.ndarray, range)):
            r = False
            for x in container:
                c = (item == x)
                if self.truth(c):
                    return True
            return r
        try:
            return item in container
        except Exception as e:
            raise PyRaise(e)

    def eval_index(self, sl, frame):
        if isinstance(sl, ast.Slice):
            return slice(self.eval(sl.lower, frame) if sl.lower else None,
                         self.eval(sl.upper, frame) if sl.upper else None,
                         self.eval(sl.step, frame) if sl.step else None)
        if isinstance(sl, ast.Tuple):
            return tuple(self.eval_index(x, frame) for x in sl.elts)
        return self.eval(sl, frame)

    def _concrete_index(self, idx):
        if isinstance(idx, tuple):
            return tuple(self._concrete_index(i) for i in idx)
        if isinstance(idx, slice):
            return slice(self._concrete_index(idx.start), self._concrete_index(idx.stop),
                         self._concrete_index(idx.step))
        if isinstance(idx, (SNum, SBV)):
            try:
                return idx.__index__()
            except sym.SymbolicBranch:
                return self.concretize_int(idx)
        if isinstance(idx, SBool):
            return bool(idx)
        if isinstance(idx, np.ndarray) and idx.dtype == object:
            return np.array([self._concrete_index(x) for x in idx.flat]).reshape(idx.shape)
        return idx

    def concretize_int(self, v, lo=None, hi=None):
        """case-split a symbolic integer index over its feasible values (bounded by
        the path condition); raises EngineError when it is unbounded"""
        import z3
        c = self.ctx
        vals = []
        s = c._solver(5000)
        t = v.t if not isinstance(v, SBV) else z3.BV2Int(v.t, True)
        for _ in range(4097):
            if s.check() != z3.sat:
                break
            m = s.model()
            k = m.eval(t, model_completion=True).as_long()
            vals.append(k)
            s.add(t != k)
        else:
            raise EngineError("symbolic index with more than 4096 feasible values")
        if not vals:
            from .context import Infeasible
            raise Infeasible()
        vals.sort()
        for k in vals[:-1]:
            if bool(SBool(t == k)):
                return k
        c.pc.append(t == vals[-1])
        return vals[-1]

    def subscript(self, base, idx):
        if isinstance(base, SObj):
            f = inspect.getattr_static(base.cls, '__getitem__', None)
            if f is None:
                raise PyRaise(TypeError("object is not subscriptable"))
            return self.call(self._as_callable(f), [base, idx])
        if isinstance(idx, np.ndarray) and idx.dtype == object and idx.size and any(isinstance(x, SBool) for x in idx.flat):
            if isinstance(base, np.ndarray) and base.ndim == 1 and idx.shape == base.shape:
                return MaskedSelection(base, idx)
            raise EngineError("boolean-mask indexing with a symbolic mask needs a model")
        if isinstance(base, MaskedSelection):
            return base.item(idx)
        idx = self._concrete_index(idx)
        if isinstance(base, Sym):
            if idx == () or idx is Ellipsis:
                return base
            raise PyRaise(IndexError("invalid index to scalar variable"))
        try:
            return base[idx]
        except (sym.SymbolicBranch,) as e:
            raise EngineError("subscript: %s" % e)
        except Exception as e:
            from .context import Infeasible
            if isinstance(e, (EngineError, PyRaise, Infeasible)):
                raise
            raise PyRaise(e)

    def expr_Subscript(self, e, frame):
        base = self.eval(e.value, frame)
        idx = self.eval_index(e.slice, frame)
        return self.subscript(base, idx)

    def expr_Starred(self, e, frame):
        raise EngineError("starred outside call")

    def expr_Call(self, e, frame):
        # super() support
        if isinstance(e.func, ast.Name) and e.func.id == 'super' and not e.args:
            slf = frame.vars.get('self')
            return _SuperProxy(frame.defining_class, slf)
        if isinstance(e.func, ast.Name) and e.func.id == 'super' and len(e.args) == 2 and not e.keywords:
            # the explicit form super(Class, self)
            cls_ = self.eval(e.args[0], frame)
            obj_ = self.eval(e.args[1], frame)
            if isinstance(cls_, type):
                return _SuperProxy(cls_, obj_)
        fn = self.eval(e.func, frame)
        args = []
        for a in e.args:
            if isinstance(a, ast.Starred):
                args.extend(self.iterate(self.eval(a.value, frame)))
            else:
                args.append(self.eval(a, frame))
        kwargs = {}
        for k in e.keywords:
            if k.arg is None:
                kwargs.update(self.eval(k.value, frame))
            else:
                kwargs[k.arg] = self.eval(k.value, frame)
        if fn is builtins.isinstance:
            return self.isinstance(args[0], args[1])
        if fn is builtins.getattr:
            try:
                return self.getattr(args[0], args[1])
            except PyRaise as pr:
                if len(args) > 2 and isinstance(pr.exc, AttributeError):
                    return args[2]
                raise
        if fn is builtins.setattr:
            return self.setattr(args[0], args[1], args[2])
        if fn is builtins.hasattr:
            try:
                self.getattr(args[0], args[1])
                return True
            except PyRaise:
                return False
        if fn is builtins.eval and len(args) == 1 and not kwargs and isinstance(args[0], str):
            # eval(<concrete string>) with the default namespaces: the expression is evaluated in the calling frame
            try:
                node = ast.parse(args[0], mode='eval')
            except SyntaxError as ex:
                raise PyRaise(ex)
            return self.eval(node.body, frame)
        if fn is builtins.eval or fn is builtins.exec:
            raise EngineError("eval/exec")
        if fn is builtins.locals:
            return frame.vars
        if fn is builtins.map and args and not kwargs and not callable(args[0]):
            # map(f, xs, ...) with an interpreted function: applied eagerly (the repository code consumes the result at once)
            return [self.call(args[0], list(t)) for t in zip(*[list(self.iterate(a)) for a in args[1:]])]
        if fn is builtins.filter and len(args) == 2 and not kwargs and args[0] is not None and not callable(args[0]):
            return [x for x in self.iterate(args[1]) if self.truth(self.call(args[0], [x]))]
        return self.call(fn, args, kwargs)

    def isinstance(self, v, t):
        if isinstance(t, tuple):
            return any(self.isinstance(v, x) for x in t)
        if isinstance(v, SObj):
            return inspect.isclass(t) and issubclass(v.cls, t)
        if isinstance(v, SNum):
            if v.kind == 'int':
                return t in (int, np.integer, np.int64, np.int_, object, np.number) or t is numbers_Number()
            return t in (float, np.floating, np.float64, object, np.number) or t is numbers_Number()
        if isinstance(v, SBV):
            return t in (int, np.integer, np.int64, np.int_, object, np.number)
        if isinstance(v, SComplex):
            return t in (complex, np.complexfloating, np.complex128, object, np.number)
        if isinstance(v, SBool):
            return t in (bool, np.bool_, int, object)
        if isinstance(v, Opaque):
            return t in (np.ndarray, object)
        try:
            return isinstance(v, t)
        except TypeError as e:
            raise PyRaise(e)

    def _comp(self, generators, frame, emit):
        def rec(i, fr):
            if i == len(generators):
                emit(fr)
                return
            g = generators[i]
            for x in self.iterate(self.eval(g.iter, fr)):
                self.assign(g.target, x, fr)
                if all(self.truth(self.eval(c, fr)) for c in g.ifs):
                    rec(i + 1, fr)
        fr = Frame(frame.module, frame, frame.defining_class)
        rec(0, fr)

    def expr_ListComp(self, e, frame):
        out = []
        self._comp(e.generators, frame, lambda fr: out.append(self.eval(e.elt, fr)))
        return out

    def expr_GeneratorExp(self, e, frame):
        out = []
        self._comp(e.generators, frame, lambda fr: out.append(self.eval(e.elt, fr)))
        return iter(out)

    def expr_SetComp(self, e, frame):
        out = set()
        self._comp(e.generators, frame, lambda fr: out.add(self.eval(e.elt, fr)))
        return out

    def expr_DictComp(self, e, frame):
        out = {}

        def emit(fr):
            out[self.eval(e.key, fr)] = self.eval(e.value, fr)
        self._comp(e.generators, frame, emit)
        return out


def numbers_Number():
    import numbers
    return numbers.Number


_MISSING = object()


class MaskedSelection:
    """base[mask] for a 1-D base and a symbolic boolean mask: only the first / last selected element are modelled"""

    def __init__(self, base, mask):
        self.base, self.mask = base, mask

    def item(self, i):
        order = range(len(self.base)) if i == 0 else reversed(range(len(self.base))) if i == -1 else None
        if order is None:
            raise EngineError("masked selection: only [0] and [-1] are modelled")
        order = list(order)
        r = None
        for k in reversed(order):
            v = self.base[k]
            r = v if r is None else sym.ite(self.mask[k], v, r)
        return r


class _SuperProxy:
    def __init__(self, cls, obj):
        self.cls = cls
        self.obj = obj


# ---------------------------------------------------------------------------
# models of library functions on symbolic scalars
def _elementwise(f):
    def g(interp, x, *a, **k):
        if isinstance(x, np.ndarray):
            if x.dtype == object:
                return np.frompyfunc(lambda v: f(v), 1, 1)(x)
            return None
        return f(x)
    return g


def _unary_model(method, real):
    def m(interp, x, *a, **k):
        if isinstance(x, Sym):
            return getattr(lift(x) if not isinstance(x, Sym) else x, method)()
        if isinstance(x, np.ndarray) and x.dtype == object:
            return np.frompyfunc(lambda v: getattr(v if isinstance(v, Sym) else lift(v), method)() if contains_sym(v) else real(v), 1, 1)(x)
        return interp.call_real(real, [x] + list(a), k)
    return m


def MODELS_astype(interp, x, t):
    if t in (int, np.int64, np.int32, 'int'):
        if isinstance(x, SBool):
            return x.as_int()
        if isinstance(x, SNum) and x.kind == 'int':
            return x
        if isinstance(x, SBV):
            return x
        raise EngineError("astype(int) of a symbolic real needs a model")
    if t in (float, np.float64, 'float'):
        if isinstance(x, SNum):
            return x.to_real()
    if t in (complex, np.complex128):
        return sym.to_complex(x)
    raise EngineError("astype(%r) on symbolic value" % (t,))


def m_float(interp, x=0.0):
    if isinstance(x, SNum):
        return x.to_real()
    if isinstance(x, SBool):
        return x.as_int().to_real()
    if isinstance(x, Sym):
        raise PyRaise(TypeError("float() of %r" % type(x).__name__))
    if isinstance(x, np.ndarray) and x.dtype == object and x.size == 1:
        return m_float(interp, x.reshape(-1)[0])
    return interp.call_real(float, [x], {})


def m_int(interp, x=0, *a):
    if isinstance(x, SNum):
        if x.kind == 'int':
            return x
        import z3
        # int() truncates toward zero
        t = x.t
        return SNum(z3.If(t >= 0, z3.ToInt(t), -z3.ToInt(-t)), 'int')
    if isinstance(x, SBV):
        return x
    if isinstance(x, SBool):
        return x.as_int()
    if isinstance(x, np.ndarray) and x.dtype == object and x.size == 1:
        return m_int(interp, x.reshape(-1)[0])
    return interp.call_real(int, [x] + list(a), {})


def m_complex(interp, re=0, im=0):
    if contains_sym(re) or contains_sym(im):
        return sym.to_complex(re) + sym.to_complex(im) * 1j
    return interp.call_real(complex, [re, im], {})


def m_bool(interp, x=False):
    return interp.truth(x)


def m_len(interp, x):
    if isinstance(x, SObj):
        f = inspect.getattr_static(x.cls, '__len__', None)
        if f is None:
            raise PyRaise(TypeError("object has no len()"))
        return interp.call(interp._as_callable(f), [x])
    if isinstance(x, Sym):
        raise PyRaise(TypeError("object of type %s has no len()" % type(x).__name__))
    return interp.call_real(len, [x], {})


def m_isscalar(interp, x):
    if isinstance(x, Opaque):
        return False
    if isinstance(x, Sym):
        return True
    return np.isscalar(x)


def m_math_sqrt(interp, x):
    if isinstance(x, Sym):
        # math.sqrt raises ValueError for negative arguments
        if interp.truth(x < 0):
            raise PyRaise(ValueError("math domain error"))
        return x.sqrt()
    return interp.call_real(math.sqrt, [x], {})


def m_math_log(interp, x, base=None):
    if contains_sym(x) or contains_sym(base):
        if base is None:
            return lift(x).log()
        if base == 2:
            return lift(x).log2()
        if base == 10:
            return lift(x).log10()
        raise EngineError("math.log with symbolic base")
    return interp.call_real(math.log, [x] + ([base] if base is not None else []), {})


def m_zeros_like_factory(real, fill):
    def m(interp, shape, dtype=float, **kw):
        return interp.call_real(real, [shape], dict(dtype=dtype, **kw))
    return m


def m_pow(interp, a, b, mod=None):
    if mod is not None:
        return interp.call_real(pow, [a, b, mod], {})
    return interp.binop(operator.pow, a, b)


def m_abs(interp, x):
    if isinstance(x, np.ndarray) and x.dtype == object:
        return np.frompyfunc(lambda v: abs(v), 1, 1)(x)
    return interp._guard(abs, x)


def m_min(interp, *args, **kw):
    if len(args) == 1:
        seq = list(interp.iterate(args[0]))
    else:
        seq = list(args)
    if not seq:
        raise PyRaise(ValueError("min() arg is an empty sequence"))
    if not contains_sym(seq):
        return interp.call_real(min, [seq], kw)
    r = seq[0]
    for x in seq[1:]:
        r = _entailed_ite(interp, lift(x) < r, x, r)
    return r


def _entailed_ite(interp, cond, a, b):
    """ite(cond, a, b), resolved when the path condition already decides cond (keeps terms polynomial)"""
    import z3
    if isinstance(cond, bool):
        return a if cond else b
    c = interp.ctx
    if c.check_sat([z3.Not(cond.t)], 2000)[0] == z3.unsat:
        return a
    if c.check_sat([cond.t], 2000)[0] == z3.unsat:
        return b
    return sym.ite(cond, a, b)


def m_max(interp, *args, **kw):
    if len(args) == 1:
        seq = list(interp.iterate(args[0]))
    else:
        seq = list(args)
    if not seq:
        raise PyRaise(ValueError("max() arg is an empty sequence"))
    if not contains_sym(seq):
        return interp.call_real(max, [seq], kw)
    r = seq[0]
    for x in seq[1:]:
        r = _entailed_ite(interp, lift(x) > r, x, r)
    return r


def m_sum(interp, it, start=0):
    r = start
    for x in interp.iterate(it):
        r = interp.binop(operator.add, r, x)
    return r


def m_range(interp, *a):
    return range(*[interp._concrete_index(x) for x in a])


def m_type(interp, x, *a):
    if isinstance(x, SObj):
        return x.cls
    return type(x)


def m_ndarray_setflags(interp, arr, *a, **k):
    # write protection is part of the semantics (an object may freeze an array it shares with its caller): applied for real
    if isinstance(arr, np.ndarray):
        fw = interp.forward.get(id(arr))
        if fw is not None and isinstance(fw[1], np.ndarray):
            fw[1].setflags(*a, **k)
        try:
            arr.setflags(*a, **k)
        except ValueError as e:
            raise PyRaise(e)
    return None


def m_np_where(interp, c, a=None, b=None):
    if a is None:
        if contains_sym(c):
            raise EngineError("np.where(cond) with symbolic condition")
        return np.where(c)
    if contains_sym(c):
        f = np.frompyfunc(lambda cc, x, y: sym.ite(cc, x, y), 3, 1)
        return f(c, a, b)
    return interp.call_real(np.where, [c, a, b], {})


def m_np_maximum(interp, a, b):
    if contains_sym(a) or contains_sym(b):
        f = np.frompyfunc(lambda x, y: sym.ite(lift(x) > lift(y), x, y), 2, 1)
        r = f(a, b)
        return r
    return np.maximum(a, b)


def m_np_minimum(interp, a, b):
    if contains_sym(a) or contains_sym(b):
        f = np.frompyfunc(lambda x, y: sym.ite(lift(x) < lift(y), x, y), 2, 1)
        return f(a, b)
    return np.minimum(a, b)


def _np_unary(method, real):
    def m(interp, x, *a, **k):
        if isinstance(x, Sym):
            return getattr(x, method)()
        if isinstance(x, np.ndarray) and x.dtype == object and contains_sym(x):
            def one(v):
                if isinstance(v, Sym):
                    return getattr(v, method)()
                return real(v)
            return np.frompyfunc(one, 1, 1)(x)
        return interp.call_real(real, [x] + list(a), k)
    return m


def m_np_abs(interp, x, *a, **k):
    if contains_sym(x):
        return m_abs(interp, x)
    return interp.call_real(np.abs, [x] + list(a), k)


def m_np_real(interp, x):
    if contains_sym(x):
        return interp.getattr(x, 'real')
    return np.real(x)


def m_np_imag(interp, x):
    if contains_sym(x):
        return interp.getattr(x, 'imag')
    return np.imag(x)


def m_np_any(interp, x, *a, **k):
    if isinstance(x, SBool):
        return x
    if isinstance(x, np.ndarray) and x.dtype == object and contains_sym(x):
        if a or k.get('axis') is not None:
            raise EngineError("np.any with axis on symbolic array")
        r = SBool(sym.z3.BoolVal(False))
        for v in x.flat:
            r = r | (lift(v) if not isinstance(v, SBool) else v)
        return r
    if isinstance(x, Sym):
        return x != 0
    return interp.call_real(np.any, [x] + list(a), k)


def m_np_all(interp, x, *a, **k):
    if isinstance(x, SBool):
        return x
    if isinstance(x, np.ndarray) and x.dtype == object and contains_sym(x):
        if a or k.get('axis') is not None:
            raise EngineError("np.all with axis on symbolic array")
        r = SBool(sym.z3.BoolVal(True))
        for v in x.flat:
            r = r & (lift(v) if not isinstance(v, SBool) else v)
        return r
    if isinstance(x, Sym):
        return x != 0
    return interp.call_real(np.all, [x] + list(a), k)


def m_np_isclose(interp, a, b, rtol=1e-05, atol=1e-08, equal_nan=False):
    """numpy contract (finite values): |a - b| <= atol + rtol * |b|, element-wise with broadcasting"""
    if not (contains_sym(a) or contains_sym(b)):
        return interp.call_real(np.isclose, [a, b], {"rtol": rtol, "atol": atol, "equal_nan": equal_nan})
    from fractions import Fraction

    def one(x, y):
        x, y = lift(x), lift(y)
        return abs(x - y) <= lift(Fraction(atol)) + lift(Fraction(rtol)) * abs(y)
    if isinstance(a, np.ndarray) or isinstance(b, np.ndarray) or isinstance(a, (list, tuple)) or isinstance(b, (list, tuple)):
        A = a if isinstance(a, np.ndarray) else (np.array(a, dtype=object) if isinstance(a, (list, tuple)) else _box(a))
        B = b if isinstance(b, np.ndarray) else (np.array(b, dtype=object) if isinstance(b, (list, tuple)) else _box(b))
        return np.frompyfunc(one, 2, 1)(A.astype(object), B.astype(object))
    return one(a, b)


def m_np_allclose(interp, a, b, rtol=1e-05, atol=1e-08, equal_nan=False):
    if not (contains_sym(a) or contains_sym(b)):
        return interp.call_real(np.allclose, [a, b], {"rtol": rtol, "atol": atol, "equal_nan": equal_nan})
    r = m_np_isclose(interp, a, b, rtol, atol, equal_nan)
    return m_np_all(interp, r) if isinstance(r, np.ndarray) else r


def m_np_sum(interp, x, *a, **k):
    """np.sum counts True entries of a boolean array: symbolic booleans enter as ite(b, 1, 0)"""
    out = k.get("out")
    if out is not None and isinstance(out, np.ndarray) and contains_sym(x):
        # result written into a caller-supplied buffer: in place when the buffer can hold it, otherwise the buffer is replaced
        # (everywhere it is referenced) by an object array
        kk = {kk_: v for kk_, v in k.items() if kk_ != "out"}
        r = m_np_sum(interp, x, *a, **kk)
        tgt = interp.forwarded(out)
        if tgt.dtype != object:
            nb = obj_array(tgt)
            interp.forward_array(tgt, nb)
            tgt = nb
        tgt[...] = r
        return tgt
    if isinstance(x, np.ndarray) and x.dtype == object and any(isinstance(v, SBool) for v in x.flat):
        one, zero = SNum(sym.z3.IntVal(1), 'int'), SNum(sym.z3.IntVal(0), 'int')
        x = np.frompyfunc(lambda v: sym.ite(v, one, zero) if isinstance(v, SBool) else (int(v) if isinstance(v, (bool, np.bool_)) else v), 1, 1)(x)
        r = interp.call_real(np.sum, [x] + list(a), k)
        if isinstance(r, SNum) and r.kind == 'int':
            return np.int64(interp.concretize_int(r))       # a count of at most x.size booleans: case split
        return r
    return interp.call_real(np.sum, [x] + list(a), k)


DEFAULT_MODELS = {
    np.sum: m_np_sum,
    np.isclose: m_np_isclose,
    np.allclose: m_np_allclose,
    np.any: m_np_any,
    np.all: m_np_all,
    np.sqrt: _np_unary('sqrt', np.sqrt),
    np.exp: _np_unary('exp', np.exp),
    np.log10: _np_unary('log10', np.log10),
    np.log2: _np_unary('log2', np.log2),
    np.log: _np_unary('log', np.log),
    np.cos: _np_unary('cos', np.cos),
    np.sin: _np_unary('sin', np.sin),
    np.conj: _np_unary('conjugate', np.conj),
    np.conjugate: _np_unary('conjugate', np.conjugate),
    np.abs: m_np_abs,
    np.real: m_np_real,
    np.imag: m_np_imag,
    builtins.float: m_float,
    builtins.int: m_int,
    builtins.complex: m_complex,
    builtins.bool: m_bool,
    builtins.len: m_len,
    builtins.pow: m_pow,
    builtins.abs: m_abs,
    builtins.min: m_min,
    builtins.max: m_max,
    builtins.sum: m_sum,
    builtins.range: m_range,
    builtins.type: m_type,
    np.isscalar: m_isscalar,
    math.sqrt: m_math_sqrt,
    math.log: m_math_log,
    math.log10: lambda interp, x: lift(x).log10() if contains_sym(x) else interp.call_real(math.log10, [x], {}),
    math.log2: lambda interp, x: lift(x).log2() if contains_sym(x) else interp.call_real(math.log2, [x], {}),
    math.cos: lambda interp, x: lift(x).cos() if contains_sym(x) else math.cos(x),
    math.sin: lambda interp, x: lift(x).sin() if contains_sym(x) else math.sin(x),
    math.exp: lambda interp, x: lift(x).exp() if contains_sym(x) else math.exp(x),
    np.where: m_np_where,
    np.maximum: m_np_maximum,
    np.minimum: m_np_minimum,
    "ndarray.setflags": m_ndarray_setflags,
    "ndarray.astype": lambda interp, arr, t, *a, **k: (np.frompyfunc(lambda v: MODELS_astype(interp, v, t) if isinstance(v, Sym) else v, 1, 1)(arr)
                                                        if (arr.dtype == object and contains_sym(arr)) else arr.astype(t, *a, **k)),
}


def _det_inv(A):
    """closed-form inverse (adjugate/determinant) for 1x1, 2x2, 3x3 object matrices"""
    n = A.shape[0]
    if A.shape != (n, n) or n > 3:
        raise EngineError("symbolic inverse only modelled up to 3x3 (got %s)" % (A.shape,))
    if n == 1:
        det = A[0, 0]
        adj = np.empty((1, 1), dtype=object)
        adj[0, 0] = 1
    elif n == 2:
        det = A[0, 0] * A[1, 1] - A[0, 1] * A[1, 0]
        adj = np.empty((2, 2), dtype=object)
        adj[0, 0], adj[0, 1], adj[1, 0], adj[1, 1] = A[1, 1], -A[0, 1], -A[1, 0], A[0, 0]
    else:
        adj = np.empty((3, 3), dtype=object)
        for i in range(3):
            for j in range(3):
                r = [x for x in range(3) if x != j]
                c = [x for x in range(3) if x != i]
                m = A[r[0], c[0]] * A[r[1], c[1]] - A[r[0], c[1]] * A[r[1], c[0]]
                adj[i, j] = m if (i + j) % 2 == 0 else -m
        det = A[0, 0] * adj[0, 0] + A[0, 1] * adj[1, 0] + A[0, 2] * adj[2, 0]
    return adj, det


def _require_not_identically_singular(det):
    """full rank is a `requires` of the library contract for inv/solve/pinv; a matrix whose determinant is the ZERO polynomial in the
    symbolic entries (e.g. H H^H of a tall H) violates it for every input: numpy raises LinAlgError there, and so does the model -
    dividing by it instead would make every cross-multiplied goal read 0 == 0"""
    from . import poly
    t = det.t if isinstance(det, Sym) and not isinstance(det, SComplex) else None
    try:
        if isinstance(det, SComplex):
            zero = poly.is_zero(det.re.t) and poly.is_zero(det.im.t)
        elif t is not None:
            zero = poly.is_zero(t)
        else:
            zero = (det == 0)
    except Exception:
        zero = False
    if zero:
        raise PyRaise(np.linalg.LinAlgError("Singular matrix"))


def m_linalg_inv(interp, A):
    if not contains_sym(A):
        return interp.call_real(np.linalg.inv, [A], {})
    A = obj_array(A)
    adj, det = _det_inv(A)
    _require_not_identically_singular(det)
    return np.frompyfunc(lambda x: x / det, 1, 1)(adj)


def m_linalg_solve(interp, A, B):
    if not contains_sym(A) and not contains_sym(B):
        return interp.call_real(np.linalg.solve, [A, B], {})
    A, B = obj_array(A), obj_array(B)
    adj, det = _det_inv(A)
    _require_not_identically_singular(det)
    X = np.dot(adj, B)
    return np.frompyfunc(lambda x: x / det, 1, 1)(X)


def m_linalg_norm(interp, A, ord=None, axis=None, **k):
    if not contains_sym(A):
        return interp.call_real(np.linalg.norm, [A, ord, axis], k)
    if axis is not None or ord not in (None, 'fro', 2):
        raise EngineError("norm variant not modelled on symbolic arrays")
    A = obj_array(np.asarray(A, dtype=object))
    if ord == 2 and A.ndim != 1:
        raise EngineError("spectral norm not modelled")
    tot = 0
    for v in A.flat:
        v = sym.to_complex(v) if isinstance(v, (SComplex, complex)) else v
        tot = tot + (v.abs2() if isinstance(v, SComplex) else v * v)
    r = lift(tot).to_real().sqrt()
    r.norm_radicand = lift(tot)
    r.sqrt_of_nonneg = True
    return r


def m_np_array(interp, x, dtype=None, **k):
    if contains_sym(x):
        unknown = set(k) - {"copy", "ndmin", "order", "subok"}
        if unknown:
            raise EngineError("np.array(symbolic, %s) not modelled" % sorted(unknown))
        a = np.empty(np.shape(np.asarray(x, dtype=object)), dtype=object)
        a[...] = np.asarray(x, dtype=object)
        nd = int(k.get("ndmin", 0) or 0)
        if a.ndim < nd:
            a = a.reshape((1,) * (nd - a.ndim) + a.shape)          # numpy prepends axes
        return a
    return interp.call_real(np.array, [x], dict(dtype=dtype, **k) if dtype is not None else k)


def m_linalg_pinv(interp, A, *a, **k):
    """library contract for a full-column-rank (tall or square) matrix: pinv(A) = (A^H A)^-1 A^H"""
    if not contains_sym(A):
        return interp.call_real(np.linalg.pinv, [A] + list(a), k)
    A = obj_array(A)
    if A.ndim != 2 or A.shape[0] < A.shape[1]:
        raise EngineError("symbolic pinv only modelled for tall/square full-column-rank matrices")
    # the contract below holds for EVERY full-column-rank matrix only with numpy's default cut-off (a few ulp of the largest
    # singular value): an explicit larger cut-off zeroes the small singular values of ill-conditioned full-rank matrices
    cut = list(a[:1]) + [k[n] for n in ("rcond", "rtol") if k.get(n) is not None]
    for t in cut:
        if is_sym(t) or contains_sym(t):
            raise EngineError("symbolic pinv cut-off not modelled")
        if float(np.max(t)) > 1e-13:
            interp.ctx.breaches.append("np.linalg.pinv with cut-off %g does not invert full-rank matrices whose condition number exceeds %g "
                                     "(pinv(A) == (A^H A)^-1 A^H needs the default cut-off)" % (float(np.max(t)), 1.0 / float(np.max(t))))
    AH = np.frompyfunc(lambda v: v.conjugate() if hasattr(v, 'conjugate') else v, 1, 1)(A).T
    adj, det = _det_inv(np.dot(AH, A))
    _require_not_identically_singular(det)
    return np.frompyfunc(lambda x: x / det, 1, 1)(np.dot(adj, AH))


def m_np_angle(interp, z, *a, **k):
    """library contract of np.angle: z == |z| (cos a + j sin a) with a = angle(z)"""
    if not contains_sym(z):
        return interp.call_real(np.angle, [z] + list(a), k)

    def one(v):
        if getattr(v, 'polar', None) is not None:
            return v.polar[1]
        v = sym.to_complex(v)
        c = interp.ctx
        ang = c.fresh_var("angle", "real")
        m = abs(v)
        c.add_fact((v.re == m * ang.cos()) & (v.im == m * ang.sin()) & (lift(m) >= 0), "polar form: z = |z| e^{j angle(z)}")
        ang.polar_of = (v, m)
        return ang
    if isinstance(z, np.ndarray):
        return np.frompyfunc(one, 1, 1)(z)
    return one(z)


def _dft_matrix(N, inverse):
    """exact DFT matrix for N in {1, 2, 4} (entries in {1, -1, j, -j}) and N = 8 (entries a + bj with a, b in {0, +-1, +-h},
    h = sqrt(1/2) carried as an uninterpreted constant with h^2 = 1/2 - all the normaliser needs); other sizes need further
    irrational roots of unity"""
    if N not in (1, 2, 4, 8):
        raise EngineError("symbolic FFT only modelled for sizes 1, 2, 4, 8 (exact roots of unity); got %d" % N)
    if N == 8:
        from fractions import Fraction
        h = lift(Fraction(1, 2)).sqrt()
        z = lift(0)
        one = lift(1)
        w = [SComplex(one, z), SComplex(h, -h), SComplex(z, -one), SComplex(-h, -h), SComplex(-one, z), SComplex(-h, h), SComplex(z, one),
             SComplex(h, h)]
    else:
        w = {1: [1], 2: [1, -1], 4: [1, -1j, -1, 1j]}[N]
    M = np.empty((N, N), dtype=object)
    for k in range(N):
        for n in range(N):
            v = w[(k * n) % N]
            M[k, n] = v.conjugate() if (inverse and isinstance(v, (complex, SComplex))) else v
    return M


def _fft_model(real, inverse):
    def m(interp, a, n=None, axis=-1, **k):
        if not contains_sym(a):
            return interp.call_real(real, [a, n, axis], k)
        a = np.asarray(a, dtype=object)
        if axis not in (-1, a.ndim - 1):
            moved = np.moveaxis(a, axis, -1)
            return np.moveaxis(m(interp, moved, n, -1), -1, axis)
        L = a.shape[-1]
        N = L if n is None else int(n)
        if N < L:
            a = a[..., :N]               # numpy crops longer input
        elif N > L:
            pad = np.zeros(a.shape[:-1] + (N - L,), dtype=object)
            a = np.concatenate([a, pad], axis=-1)
        M = _dft_matrix(N, inverse)
        out = np.empty(a.shape, dtype=object)
        for idx in np.ndindex(*a.shape[:-1]):
            vec = a[idx]
            res = np.dot(M, vec)
            if inverse:
                res = np.frompyfunc(lambda x: x / N, 1, 1)(res)
            out[idx] = res
        return out
    return m


def m_np_ceil(interp, x, *a, **k):
    if isinstance(x, SNum):
        import z3
        if x.kind == 'int':
            return x.to_real()
        t = x.t
        fl = z3.ToInt(t)
        return SNum(z3.ToReal(z3.If(z3.ToReal(fl) == t, fl, fl + 1)), 'real')
    return interp.call_real(np.ceil, [x] + list(a), k)


def m_np_mean(interp, x, axis=None, **k):
    if not contains_sym(x):
        return interp.call_real(np.mean, [x], dict(axis=axis, **k))
    x = np.asarray(x, dtype=object)
    s = np.sum(x, axis=axis)
    n = x.size if axis is None else x.shape[axis]
    if isinstance(s, np.ndarray):
        return np.frompyfunc(lambda v: v / n, 1, 1)(s)
    return s / n


def m_cmath_rect(interp, r, phi):
    """cmath.rect(r, phi) == r (cos phi + j sin phi)"""
    if not (contains_sym(r) or contains_sym(phi)):
        import cmath
        return interp.call_real(cmath.rect, [r, phi], {})
    r, phi = lift(r), lift(phi)
    return SComplex(r * phi.cos(), r * phi.sin())


import cmath as _cmath
DEFAULT_MODELS[_cmath.rect] = m_cmath_rect
DEFAULT_MODELS[np.ceil] = m_np_ceil
DEFAULT_MODELS[np.mean] = m_np_mean
DEFAULT_MODELS[np.fft.fft] = _fft_model(np.fft.fft, False)
DEFAULT_MODELS[np.fft.ifft] = _fft_model(np.fft.ifft, True)
DEFAULT_MODELS[np.linalg.pinv] = m_linalg_pinv
DEFAULT_MODELS[np.angle] = m_np_angle
DEFAULT_MODELS[np.array] = m_np_array


def m_np_asarray(interp, x, dtype=None, **k):
    """np.asarray of symbolic numbers: ideal reals/complexes have one representation, so a numeric dtype request is the identity on
    the values (an existing object array is returned as is, like np.asarray of an array that already has the dtype)"""
    if contains_sym(x):
        if isinstance(x, np.ndarray) and x.dtype == object:
            return x
        return m_np_array(interp, x)
    return interp.call_real(np.asarray, [x], dict(dtype=dtype, **k) if dtype is not None else k)


def m_np_flatnonzero(interp, x):
    """indices of the true entries; every symbolic boolean is decided (path split) so that the result is a concrete index array"""
    if not contains_sym(x):
        return interp.call_real(np.flatnonzero, [x], {})
    flat = np.asarray(x, dtype=object).ravel()
    return np.array([i for i, v in enumerate(flat) if interp.truth(v if isinstance(v, (Sym, SBool)) else bool(v))], dtype=np.int64)


DEFAULT_MODELS[np.asarray] = m_np_asarray
DEFAULT_MODELS[np.flatnonzero] = m_np_flatnonzero
DEFAULT_MODELS[np.linalg.inv] = m_linalg_inv
DEFAULT_MODELS[np.linalg.solve] = m_linalg_solve
DEFAULT_MODELS[np.linalg.norm] = m_linalg_norm


def _register_scipy_models():
    try:
        from scipy.special import erfc
    except Exception:       # pragma: no cover
        return

    def m_erfc(interp, x, *a, **k):
        if isinstance(x, Sym):
            return interp.ctx.uf_apply('erfc', [x])
        if isinstance(x, np.ndarray) and x.dtype == object and contains_sym(x):
            return np.frompyfunc(lambda v: interp.ctx.uf_apply('erfc', [lift(v)]), 1, 1)(x)
        return interp.call_real(erfc, [x] + list(a), k)
    DEFAULT_MODELS[erfc] = m_erfc


_register_scipy_models()
